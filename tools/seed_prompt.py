#!/usr/bin/env python3
"""Print the prompt for an independent 'seeding' sub-agent: property text + scratch worktree only (nothing from /verif)."""
import json
import sys

pid, wt = sys.argv[1], sys.argv[2]
n = int(sys.argv[3]) if len(sys.argv) > 3 else 2
start = int(sys.argv[4]) if len(sys.argv) > 4 else 1
avoid = sys.argv[5] if len(sys.argv) > 5 else ''
prop = [json.loads(l) for l in open('/verif/properties.jsonl') if json.loads(l)['id'] == pid][0]
avoid_txt = ("These mechanisms were already used by earlier changes and must NOT be reused (pick different functions / different failure mechanisms): " + avoid + "\n\n") if avoid else ""
print(f"""You are a software engineer helping to evaluate a verification effort by playing the adversary. You have your own scratch git worktree of the Python project glue-core (glue-viz/glue) at {wt} (already created; work ONLY there — never touch /repo or /verif, and do not read anything under /verif). Python with all dependencies: /venv/bin/python; run code against your worktree with `cd {wt} && PYTHONPATH={wt} MPLBACKEND=Agg /venv/bin/python ...`; run tests with `cd {wt} && PYTHONPATH={wt} /venv/bin/python -m pytest -q -p no:cacheprovider -n 8 <paths>` (the whole suite: `... -n 6 glue` takes several minutes; 8 tests fail at baseline for unrelated reasons (pandas/excel/wcs autolink) — those do not count).

Here is a semantic property that the code base is supposed to satisfy:

  id: {prop['id']}
  title: {prop['title']}
  statement: {prop['statement']}
  quantified over: {prop['quantifier']['text']}
  why the existing tests cannot settle it: {prop['why_tests_cant']}
  code the property is anchored in: {json.dumps(prop['anchors'].get('mechanism', []))}

Task: produce {n} DIFFERENT, realistic changes to the source of glue-core (the kind of slip or well-meant 'optimisation' a maintainer could make — not sabotage with obviously dead or weird code), each of which BREAKS this property while the package still imports and the existing test suite still passes exactly as before (same 8 baseline failures, nothing else). Each change must need something SPECIFIC to manifest — a particular multi-step sequence of operations, an unusual but legitimate input, a particular nesting or interleaving, or two cooperating sites that each look fine alone — not something that ordinary use would expose at once. The {n} changes must use different mechanisms / different parts of the anchored code, and each should be small (a few lines).

{avoid_txt}For each change k = {start}..{start + n - 1} deliver, in {wt}/seed_out/k/ :
  * patch.diff   — `git diff` of the change against the worktree's HEAD (apply cleanly with `git apply` on a clean checkout);
  * demo.py      — a small standalone program (or pytest file demo_test.py) that exits non-zero / fails WITH the change and exits 0 / passes WITHOUT it, printing what it observed; it must exercise the public API only and state in a comment which sentence of the property is violated;
  * meta.json    — {{"property": "{prop['id']}", "summary": "...", "what_it_needs_to_manifest": "...", "files_changed": [...], "tests_run": "command + result summary with and without the change"}}.
Procedure for each change: make it, run the demo (must fail), run the full suite with -n 6 (must show only the 8 baseline failures — list the failing test ids in meta.json), save patch.diff, then `git checkout -- .` (keep seed_out/, which is untracked), re-run the demo (must pass). Leave the worktree clean apart from seed_out/. Finish with a short summary of the {n} changes.""")
