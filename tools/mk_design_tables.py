#!/usr/bin/env python3
"""Regenerate the generated tables of DESIGN.md (between <!-- BEGIN x --> / <!-- END x --> markers):
   7.1 outcome of the findings (from known_findings/*.json) and 11 seeded breaking changes (from seeded/*/meta.json)."""
import glob, json, os, re
V = os.path.dirname(os.path.dirname(os.path.abspath(__file__)))

def sec71():
    rows_fixed, rows_open = [], []
    for f in sorted(glob.glob(os.path.join(V, 'known_findings', '*.json'))):
        j = json.load(open(f)); p = os.path.basename(f)[:-5]
        for e in j.get('fixed', []): rows_fixed.append((p, e['commit'], ' '.join(e['what'].split())))
        for e in j.get('findings', []): rows_open.append((p, e['key'], ' '.join(e['what'].split())))
    commits = set(c for r in rows_fixed for c in r[1].split())
    out = ["### 7.1 Outcome after the build (generated from `known_findings/*.json` by `tools/mk_design_tables.py`)\n",
           "Every candidate above was reproduced by the corresponding check and then either repaired by a `fix:` commit in `/repo` "
           "(made in the builder's private worktree, cherry-picked, whole suite re-run: only the 8 baseline failures) or recorded as a known "
           "finding. The builders found many more defects than the design-time reading did: %d `fix:` commits are recorded below.\n" % len(commits),
           "**Repaired** (`fixed: property=<id> <commit> <what failed>`; a fixed entry suppresses nothing — the check passes on the repaired tree with no KNOWN-FINDING line and reports the violation again if it returns):\n",
           "| property | commit(s) in /repo | what failed |", "|---|---|---|"]
    for p, c, w in rows_fixed: out.append("| %s | `%s` | %s |" % (p, c, w.replace('|', '\\|')[:420]))
    out += ["", "**Known findings** (genuine defects recorded rather than repaired; the check prints `KNOWN-FINDING: property=<id> …` for exactly this input class, exits 0, and still reports any other violation of the same property):\n",
            "| property | key | what fails |", "|---|---|---|"]
    for p, k, w in rows_open: out.append("| %s | `%s` | %s |" % (p, k, w.replace('|', '\\|')[:520]))
    return '\n'.join(out) + '\n'

def sec11():
    out = ["| seed | property | what the change is | what it needs to manifest | confirmed (demo fails with / passes without; suite unchanged) | caught by `./check Cxx --tier quick` | note |",
           "|---|---|---|---|---|---|---|"]
    n = c = 0
    for d in sorted(glob.glob(os.path.join(V, 'seeded', '*'))):
        mf = os.path.join(d, 'meta.json')
        if not os.path.exists(mf): continue
        m = json.load(open(mf)); r = m.get('confirmed_by_integrator', {})
        ok = (r.get('demo_without_patch') == 'pass' and str(r.get('demo_with_patch', '')).startswith('fails'))
        suite = r.get('suite_ok')
        flaky = [t for t in r.get('suite_new_failures', []) if 'test_recalc_on_state_changes' in t]
        if suite is False and len(flaky) == len(r.get('suite_new_failures', [])) and r.get('suite_missing_tests') == 0:
            suite = 'yes (one known xdist-flaky test, passes alone)'
        caught = m.get('caught_final', r.get('check_reports_violation'))
        n += 1; c += 1 if caught else 0
        def cl(x, k=260): return ' '.join(str(x or '').split()).replace('|', '\\|')[:k]
        out.append("| %s | %s | %s | %s | %s | %s | %s |" % (os.path.basename(d), m.get('property'), cl(m.get('summary')), cl(m.get('what_it_needs_to_manifest'), 220),
                   ('yes' if ok else 'NO') + ' / suite: ' + ('yes' if suite is True else str(suite)), 'yes' if caught else 'NO', cl(m.get('note'), 300)))
    return ("%d seeded changes confirmed, %d caught by the quick tier of the current checks.\n\n" % (n, c)) + '\n'.join(out) + '\n'

def main():
    p = os.path.join(V, 'DESIGN.md'); s = open(p).read()
    for name, fn in (('7.1', sec71), ('11', sec11)):
        b, e = '<!-- BEGIN %s -->' % name, '<!-- END %s -->' % name
        if b in s and e in s:
            s = s[:s.index(b) + len(b)] + '\n' + fn() + s[s.index(e):]
    open(p, 'w').write(s)

if __name__ == '__main__':
    main()
