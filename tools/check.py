#!/usr/bin/env python3
"""
Entry point of every check:   ./check Cxx --tier quick|thorough | --replay <path> | --setup

One run (DESIGN.md section 2):
  1. regenerate coq/gen/*.v from /repo's working tree (translator + table extractors)
  2. re-check the proofs of the property (make <Cxx>/Lemmas.vo ..., then coqc Property.v with Print Assumptions)
  3. re-extract the model to OCaml and rebuild its driver when the model changed
  4. correspondence (model vs implementation) and oracle search (property on the implementation)
  5. decide: KNOWN-FINDING / VIOLATION (with replay) / VIOLATION ... no-failing-input-found / ok
  6. write evidence/<Cxx>.json
"""
import argparse
import fcntl
import glob
import hashlib
import importlib
import json
import os
import re
import shutil
import subprocess
import sys
import tempfile
import time
import traceback

VERIF = os.path.dirname(os.path.dirname(os.path.abspath(__file__)))
sys.path.insert(0, os.path.join(VERIF, 'tools'))
sys.path.insert(0, os.path.join(VERIF, 'tools', 'harness'))
from harness import common  # noqa

COQ = os.path.join(VERIF, 'coq')
BUILD = os.path.join(VERIF, 'build')
ALL_PROPS = ['C%02d' % i for i in range(1, 21)]
FORBIDDEN = r'\b(Admitted|admit|Axiom|Axioms|Parameter|Parameters|Conjecture|Conjectures|Admit Obligations)\b|Unset Guard|bypass_check|type-in-type|impredicative-set|Unset Positivity|Unset Universe'


def sh(cmd, timeout=900, cwd=None, env=None):
    try:
        p = subprocess.run(cmd, shell=isinstance(cmd, str), cwd=cwd, env=env, timeout=timeout,
                           stdout=subprocess.PIPE, stderr=subprocess.STDOUT)
        return p.returncode, p.stdout.decode(errors='replace')
    except subprocess.TimeoutExpired as e:
        return 124, (e.stdout or b'').decode(errors='replace') + '\nTIMEOUT after %ss' % timeout


class Lock:
    def __init__(self):
        os.makedirs(BUILD, exist_ok=True)
        self.f = open(os.path.join(BUILD, '.lock'), 'w')

    def __enter__(self):
        fcntl.flock(self.f, fcntl.LOCK_EX)

    def __exit__(self, *a):
        fcntl.flock(self.f, fcntl.LOCK_UN)


def coq_files():
    out = []
    for root, _, files in os.walk(COQ):
        for f in sorted(files):
            if f.endswith('.v') and not f.startswith('.'):
                rel = os.path.relpath(os.path.join(root, f), COQ)
                if rel.endswith('Extract.v') or rel.endswith('Property.v'):
                    continue   # compiled explicitly (extraction writes files; Property prints assumptions)
                out.append(rel)
    return sorted(out)


def write_coqproject():
    txt = '-Q . GV\n-arg -w -arg -notation-overridden,-deprecated-hint-without-locality,-deprecated-instance-without-locality,-extraction-reserved-identifier\n'
    txt += '\n'.join(coq_files()) + '\n'
    p = os.path.join(COQ, '_CoqProject')
    if not os.path.exists(p) or open(p).read() != txt or not os.path.exists(os.path.join(COQ, 'Makefile')):
        open(p, 'w').write(txt)
        rc, out = sh('coq_makefile -f _CoqProject -o Makefile', cwd=COQ)
        if rc != 0:
            raise SystemExit('coq_makefile failed:\n' + out)


def run_generators(names):
    """returns list of (name, ok, message)"""
    res = []
    env = dict(os.environ)
    for n in names:
        rc, out = sh([sys.executable, os.path.join(VERIF, 'tools', 'gen', n + '.py')], timeout=300, env=env)
        res.append((n, rc == 0, out.strip()[-2000:]))
    return res


def grep_forbidden(prop):
    bad = []
    dirs = [os.path.join(COQ, 'Common'), os.path.join(COQ, 'gen'), os.path.join(COQ, prop)]
    for d in dirs:
        for f in glob.glob(os.path.join(d, '*.v')):
            txt = open(f).read()
            txt = re.sub(r'\(\*.*?\*\)', '', txt, flags=re.S)
            for m in re.finditer(FORBIDDEN, txt):
                bad.append('%s: %s' % (os.path.relpath(f, VERIF), m.group(0)))
    return bad


def prove(prop, thorough):
    """re-check the proofs; returns dict(obligations, discharged, theorems, broken, assumptions, log)"""
    res = {'obligations': 0, 'discharged': 0, 'theorems': [], 'broken': [], 'assumptions': {}, 'log': '',
           'checker_cmd': ''}
    pdir = os.path.join(COQ, prop)
    propv = os.path.join(pdir, 'Property.v')
    if not os.path.exists(propv):
        res['broken'].append('no Property.v')
        return res
    src = open(propv).read()
    src_nc = re.sub(r'\(\*.*?\*\)', '', src, flags=re.S)
    thms = re.findall(r'^\s*Theorem\s+([A-Za-z0-9_\']+)', src_nc, flags=re.M)
    res['theorems'] = thms
    res['obligations'] = len(thms)
    deps = sorted(set(re.findall(r'GV\s+Require\s+(?:Import|Export)\s+([^.]*(?:\.[A-Za-z0-9_]+)*)\.', src_nc)))
    targets = []
    for m in re.finditer(r'From\s+GV\s+Require\s+(?:Import|Export)\s+([^\n]*?)\.\s*$', src_nc, flags=re.M):
        for name in m.group(1).split():
            targets.append(name.replace('.', '/') + '.vo')
    res['checker_cmd'] = 'make -C coq %s && coqc -Q coq GV coq/%s/Property.v  (Coq 8.16.1; Print Assumptions after each theorem)' % (' '.join(targets), prop)
    t0 = time.time()
    rc, out = sh('timeout 1500 make -j8 %s 2>&1' % ' '.join(targets), cwd=COQ, timeout=1600)
    out = out[-6000:]
    res['log'] += out
    # make's exit code is hidden by the pipe: look for the targets instead
    missing = [t for t in targets if not os.path.exists(os.path.join(COQ, t))
               or os.path.getmtime(os.path.join(COQ, t)) < os.path.getmtime(os.path.join(COQ, t[:-1]))]
    if rc != 0 or missing:
        m = re.search(r'File "([^"]+)", line (\d+)[^\n]*\n(Error:[^\n]*(?:\n[^\n]+){0,6})', out)
        res['broken'].append('proof obligations no longer check: %s' % (('%s line %s: %s' % (m.group(1), m.group(2), m.group(3))) if m else (out[-800:])))
        return res
    rc, out = sh('timeout 600 coqc -Q . GV -w -notation-overridden %s/Property.v' % prop, cwd=COQ, timeout=700)
    res['log'] += out
    # parse Print Assumptions blocks: they appear in theorem order
    blocks = re.split(r'(?=Closed under the global context|Axioms:)', out)
    blocks = [b for b in blocks if b.startswith('Closed under') or b.startswith('Axioms:')]
    for name, b in zip(thms, blocks):
        if b.startswith('Closed'):
            res['assumptions'][name] = 'Closed under the global context'
        else:
            res['assumptions'][name] = ' '.join(b.split())[:600]
    res['discharged'] = len(blocks) if rc == 0 else min(len(blocks), len(thms))
    if rc != 0:
        m = re.search(r'File "([^"]+)", line (\d+)[^\n]*\n(Error:[^\n]*(?:\n[^\n]+){0,6})', out)
        res['broken'].append('Property.v no longer checks: %s' % (m.group(0) if m else out[-800:]))
    elif len(blocks) != len(thms):
        res['broken'].append('Print Assumptions count %d != theorem count %d' % (len(blocks), len(thms)))
    res['wall_s'] = round(time.time() - t0, 2)
    if thorough and not res['broken']:
        mods = ' '.join('GV.' + t[:-3].replace('/', '.') for t in targets if t.startswith(prop + '/'))
        rc, out = sh('timeout 2400 coqchk -silent -o -Q . GV %s 2>&1' % mods, cwd=COQ, timeout=2500)
        res['coqchk'] = out[-3000:]
        if rc != 0:
            res['broken'].append('coqchk rejected the compiled proofs: ' + out[-500:])
    return res


def build_driver(prop):
    """extract the model and build build/<prop>/driver ; returns (ok, message)"""
    bdir = os.path.join(BUILD, prop)
    os.makedirs(bdir, exist_ok=True)
    ext = os.path.join(COQ, prop, 'Extract.v')
    if not os.path.exists(ext):
        return False, 'no Extract.v'
    rc, out = sh('timeout 900 make -j8 %s/Model.vo 2>&1' % prop, cwd=COQ, timeout=1000)
    out = out[-3000:]
    modelvo = os.path.join(COQ, prop, 'Model.vo')
    if rc != 0 or not os.path.exists(modelvo):
        return False, 'model does not compile: ' + out[-1500:]
    # hash of everything the driver depends on
    h = hashlib.sha256()
    for f in [modelvo, ext, os.path.join(VERIF, 'tools', 'driver_tail.ml')]:
        h.update(open(f, 'rb').read())
    stamp = os.path.join(bdir, 'stamp')
    driver = os.path.join(bdir, 'driver')
    if os.path.exists(driver) and os.path.exists(stamp) and open(stamp).read() == h.hexdigest():
        return True, 'up to date'
    rc, out = sh('timeout 600 coqc -Q %s GV -w -extraction-reserved-identifier %s' % (COQ, ext), cwd=bdir, timeout=700)
    if rc != 0:
        return False, 'extraction failed: ' + out[-1500:]
    mls = [f for f in glob.glob(os.path.join(bdir, '*_model.ml'))]
    if len(mls) != 1:
        return False, 'expected one *_model.ml, got %r' % mls
    with open(os.path.join(bdir, 'main.ml'), 'w') as f:
        f.write(open(mls[0]).read())
        f.write('\n')
        f.write(open(os.path.join(VERIF, 'tools', 'driver_tail.ml')).read())
    rc, out = sh('timeout 600 ocamlfind ocamlopt -w -a -O3 -unboxed-types main.ml -o driver 2>&1 || timeout 600 ocamlfind ocamlopt -w -a main.ml -o driver', cwd=bdir, timeout=1300)
    if not os.path.exists(driver) or rc != 0:
        return False, 'ocaml build failed: ' + out[-1500:]
    open(stamp, 'w').write(h.hexdigest())
    return True, 'rebuilt'


def load_module(prop):
    return importlib.import_module('harness.' + prop.lower())


def claimed_props():
    try:
        man = json.load(open(os.path.join(VERIF, 'MANIFEST.json')))
        return [c['property_id'] for c in man.get('checks', [])]
    except Exception:
        return ALL_PROPS


def setup():
    """build everything the claimed checks need (properties listed in MANIFEST.checks); other directories are work in progress"""
    t0 = time.time()
    props = [p for p in ALL_PROPS if p in claimed_props()]
    with Lock():
        gens = sorted(os.path.basename(f)[:-3] for f in glob.glob(os.path.join(VERIF, 'tools', 'gen', 'gen_*.py')))
        for n, ok, msg in run_generators(gens):
            print('gen', n, 'ok' if ok else 'FAILED', msg[-300:])
        write_coqproject()
        ok_all = True
        targets = []
        for prop in props:
            for f in coq_files():
                if f.startswith(prop + '/'):
                    targets.append(f + 'o')
        rc, out = sh('timeout 3000 make -k -j16 %s 2>&1' % ' '.join(targets), cwd=COQ, timeout=3100)
        print(out[-3000:])
        ok_all = rc == 0
        for prop in props:
            if os.path.exists(os.path.join(COQ, prop, 'Extract.v')):
                ok, msg = build_driver(prop)
                print('driver', prop, 'ok' if ok else 'FAILED', msg[-300:])
                ok_all = ok_all and ok
            if os.path.exists(os.path.join(COQ, prop, 'Property.v')):
                rc, out = sh('timeout 900 coqc -Q . GV -w -notation-overridden %s/Property.v' % prop, cwd=COQ, timeout=1000)
                if rc != 0:
                    print('Property', prop, 'FAILED', out[-500:])
                    ok_all = False
    print('setup done in %.0fs' % (time.time() - t0), 'OK' if ok_all else 'WITH ERRORS')
    return 0 if ok_all else 1


def finding_matches(f, failure):
    return f.get('property') == failure.get('prop') and f.get('key') is not None and f.get('key') == failure.get('key')


def main():
    ap = argparse.ArgumentParser()
    ap.add_argument('prop', nargs='?')
    ap.add_argument('--tier', default=os.environ.get('VERIF_TIER', 'quick'), choices=['quick', 'thorough'])
    ap.add_argument('--replay')
    ap.add_argument('--setup', action='store_true')
    ap.add_argument('--no-proofs', action='store_true', help='development only: skip step 2')
    args = ap.parse_args()
    if args.setup:
        sys.exit(setup())
    prop = args.prop
    if prop not in ALL_PROPS:
        raise SystemExit('unknown property %r' % prop)
    seed = int(os.environ.get('VERIF_SEED', '0') or 0)
    t0 = time.time()
    mod = load_module(prop)
    scratch = tempfile.mkdtemp(prefix='glueverif_%s_' % prop)
    R = common.Run(prop, args.tier, seed, scratch)
    status = {'translation': [], 'proof': None, 'driver': None}
    try:
        if args.replay:
            with Lock():
                run_generators(getattr(mod, 'GENERATORS', []))
                write_coqproject()
                build_driver(prop)
            R.model_available = os.path.exists(R.driver)
            rep = json.load(open(args.replay))
            if not hasattr(mod, 'replay'):
                raise SystemExit('no replay support for ' + prop)
            out = mod.replay(R, rep.get('case'))
            print(json.dumps(common.jsonable(out), indent=1))
            sys.exit(1 if (isinstance(out, dict) and out.get('violates')) else 0)

        # ---- steps 1-3 under the build lock
        with Lock():
            gen_res = run_generators(getattr(mod, 'GENERATORS', []))
            write_coqproject()   # after the generators: a freshly generated file has to be listed
            status['translation'] = [{'generator': n, 'ok': ok, 'message': msg[-500:]} for n, ok, msg in gen_res]
            if args.no_proofs:
                proof = {'obligations': 0, 'discharged': 0, 'theorems': [], 'broken': [], 'assumptions': {}, 'checker_cmd': 'skipped'}
            else:
                bad = grep_forbidden(prop)
                proof = prove(prop, args.tier == 'thorough')
                if bad:
                    proof['broken'].append('forbidden vernacular in the development: ' + '; '.join(bad[:5]))
            status['proof'] = proof
            ok, msg = build_driver(prop)
            status['driver'] = {'ok': ok, 'message': msg[-800:]}
        R.model_available = ok and os.path.exists(R.driver)
        R.translation_ok = all(x['ok'] for x in status['translation'])
        if not R.translation_ok:
            # the proofs were re-checked against a stale generated file: they say nothing about the current source
            proof['discharged'] = 0
        R.proof_ok = not proof['broken']

        # ---- steps 4: correspondence + oracle
        crash = None
        try:
            mod.run(R)
        except Exception:
            crash = traceback.format_exc()

        # ---- step 5: decide
        known = common.load_known(prop)
        findings = [f for f in known.get('findings', []) if f.get('property') == prop]
        oracle_fail = [f for f in R.failures if f['kind'] == 'oracle']
        corr_fail = [f for f in R.failures if f['kind'] == 'correspondence']
        known_hit = {}
        new_oracle = []
        for f in oracle_fail:
            hit = [k for k in findings if k.get('key') and k.get('key') == f.get('key')]
            if hit:
                known_hit.setdefault(hit[0]['key'], (hit[0], f))
            else:
                new_oracle.append(f)
        lines = []
        violations = 0
        rdir = os.path.join(VERIF, 'replays', prop)
        for key, (k, f) in sorted(known_hit.items()):
            lines.append('KNOWN-FINDING: property=%s %s' % (prop, k.get('what', key)))

        def write_replay(obj):
            os.makedirs(rdir, exist_ok=True)
            blob = json.dumps(common.jsonable(obj), indent=1, sort_keys=True)
            path = os.path.join(rdir, hashlib.sha256(blob.encode()).hexdigest()[:12] + '.json')
            open(path, 'w').write(blob)
            return path
        seen_keys = set()
        for f in new_oracle:
            k = f.get('key') or json.dumps(common.jsonable(f['case']), sort_keys=True)[:200]
            if k in seen_keys:
                continue
            seen_keys.add(k)
            if len(seen_keys) > 5:
                break
            path = write_replay({'property': prop, 'kind': 'oracle', 'case': f['case'], 'detail': f['detail'],
                                 'seed': seed, 'tier': args.tier})
            lines.append('VIOLATION property=%s replay=%s' % (prop, path))
            violations += 1
        broken = []
        if not R.translation_ok:
            broken += ['translation of /repo sources failed (fail-closed): %s' % x['message'] for x in status['translation'] if not x['ok']]
        broken += proof['broken']
        if not status['driver']['ok']:
            broken.append('model/driver: ' + status['driver']['message'])
        if corr_fail:
            broken.append('correspondence model<->implementation differs on %d case(s); first: %s' % (
                len(corr_fail), json.dumps(common.jsonable(corr_fail[0]), sort_keys=True)[:1500]))
        if crash:
            broken.append('harness crashed: ' + crash[-1500:])
        if broken and not new_oracle:
            path = write_replay({'property': prop, 'kind': 'no-failing-input-found', 'broken': broken,
                                 'theorems': proof.get('theorems'), 'correspondence_cases': corr_fail[:5],
                                 'seed': seed, 'tier': args.tier})
            lines.append('VIOLATION property=%s replay=%s no-failing-input-found' % (prop, path))
            violations += 1
        wall = time.time() - t0

        # ---- step 6: evidence
        tb = ['Coq 8.16.1 kernel (incl. vm_compute); no native_compute',
              'theorem statements in coq/%s/Property.v say what the property says (DESIGN.md section 6)' % prop,
              'axioms per theorem (Print Assumptions): ' + json.dumps(proof.get('assumptions', {}), sort_keys=True),
              'extraction: ExtrOcamlBasic directives only; OCaml 4.13.1; tools/driver_tail.ml',
              'harness generators/canonicalisers/oracles in tools/harness; CPython 3.12, numpy and the other runtime libraries',
              'hand-written models are tied to the code by the correspondence on the explored cases only']
        tb += getattr(mod, 'TRUSTED', [])
        ev = {
            'property_id': prop, 'tier': args.tier, 'seed': seed, 'level': 'proof',
            'coverage': {
                'obligations': proof['obligations'], 'discharged': proof['discharged'],
                'checker_cmd': proof['checker_cmd'], 'trusted_base': tb,
                'theorems': proof.get('theorems', []),
                'proof_wall_s': proof.get('wall_s'),
                'translation': status['translation'], 'driver': status['driver'],
                'evaluations': R.evaluations, 'distinct_nontrivial': R.distinct_nontrivial,
                'model_evaluations': R.model_calls,
                'rule': R.rule, 'samples': common.jsonable(R.samples) or ['(no case generated)'],
                'exhaustive': bool(R.exhaustive), 'streams': common.jsonable(R.streams),
                'distribution': {k: dict(v.most_common(40)) for k, v in R.hist.items()},
                'correspondence_disagreements': len(corr_fail), 'oracle_failures': len(oracle_fail),
                'known_findings_seen': sorted(known_hit.keys()), 'notes': R.notes,
                'broken': broken,
            },
            'assumptions': getattr(mod, 'ASSUMPTIONS', []),
            'wall_s': round(wall, 2), 'violations': violations,
        }
        if 'coqchk' in proof:
            ev['coverage']['coqchk'] = proof['coqchk']
        os.makedirs(os.path.join(VERIF, 'evidence'), exist_ok=True)
        with open(os.path.join(VERIF, 'evidence', prop + '.json'), 'w') as f:
            json.dump(common.jsonable(ev), f, indent=1, sort_keys=True)
        print('%s tier=%s seed=%d: %d/%d obligations, %d evaluations (%d distinct non-trivial), %d model evaluations, %.1fs' % (
            prop, args.tier, seed, proof['discharged'], proof['obligations'], R.evaluations, R.distinct_nontrivial, R.model_calls, wall))
        for ln in lines:
            print(ln)
        if broken:
            for b in broken:
                print('BROKEN:', b[:600])
        sys.stdout.flush()
        sys.exit(1 if violations else 0)
    finally:
        shutil.rmtree(scratch, ignore_errors=True)


if __name__ == '__main__':
    main()
