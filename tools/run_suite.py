#!/usr/bin/env python3
"""Run /repo's test suite (pytest -n 12) and compare with /root/.vp/BASELINE.json: prints newly failing / missing tests."""
import json, os, subprocess, sys, tempfile
import xml.etree.ElementTree as ET
repo = sys.argv[1] if len(sys.argv) > 1 else '/repo'
junit = tempfile.mktemp(suffix='.xml')
env = dict(os.environ, PYTHONPATH=repo, MPLBACKEND='Agg', PYTHONDONTWRITEBYTECODE='1')
env.pop('GLUE_VERIF', None)
p = subprocess.run('/venv/bin/python -m pytest -q -p no:cacheprovider -n 12 --timeout=900 --continue-on-collection-errors --junitxml=%s glue 2>&1 | tail -3' % junit,
                   shell=True, cwd=repo, env=env, stdout=subprocess.PIPE)
print(p.stdout.decode()[-400:])
base = set(json.load(open('/root/.vp/BASELINE.json'))['stable_pass'])
failed, seen = set(), set()
for tc in ET.parse(junit).getroot().iter('testcase'):
    tid = '%s::%s' % (tc.get('classname'), tc.get('name'))
    seen.add(tid)
    if any(ch.tag in ('failure', 'error') for ch in tc):
        failed.add(tid)
os.remove(junit)
new = sorted(t for t in failed if t in base)
missing = sorted(t for t in base if t not in seen)
print('baseline stable_pass: %d ; seen: %d ; newly failing: %d ; missing: %d' % (len(base), len(seen), len(new), len(missing)))
for t in new[:30]:
    print('NEW-FAIL', t)
for t in missing[:10]:
    print('MISSING', t)
sys.exit(1 if new or missing else 0)
