"""C12 — every serialisation protocol version ever registered still loads what it saved.

Streams
  versioned_dict   all operation sequences over VersionedDict (model correspondence + the invariant as an oracle)
  registration     saver/loader registration interleaved with saves on throw-away classes: every save must use the newest version
                   registered so far for the most specific class (the model recomputes the dispatch from the current registry)
  dispatch         saver_of / loader_of of the model (over the regenerated class table) against GlueSerializer._dispatch /
                   GlueUnSerializer._dispatch for every class of the table; registry properties evaluated on the live registries
  patches          resolve of the model against lookup_class_with_patches; termination, importable targets, live capture
  protocol         for every (T, v) of the registries: objects of type T written with the version-v saver, loaded with the
                   matching loader, observables compared on what that version's saver wrote (sessions from the C02 generator)
"""
import copy
import itertools
import json
import os
import sys
from collections import defaultdict

import numpy as np

from harness.common import enc, Z, opt, to_zs, kids, tag, is_err, err_code, VERIF
from harness import c02

sys.path.insert(0, os.path.join(VERIF, 'tools', 'gen'))

PROP = 'C12'
GENERATORS = ['gen_tables', 'gen_versioned', 'gen_dispatch']
TRUSTED = [
    'table extractor tools/gen/gen_tables.py: registries, class table and rename table are regenerated from the package on every run; '
    'its rule for "this package writes class C": C is concrete, defined under exactly that name, has a saver by the dispatch rules and is '
    'referred to by another non-test module of the package (ast)',
    'translator tools/gen/gen_dispatch.py (python ast -> Gallina, fail-closed): the whole class VersionedDict, lookup_class_with_patches, the saver / loader '
    'decorators, GlueSerializer._dispatch / do and GlueUnSerializer._dispatch are regenerated from glue/core/state.py on every run (coq/gen/Gen_dispatch.v); '
    'C12/GenEquiv.v proves that they compute what the hand model computes; trusted: the prelude of the generated file (dict / defaultdict / set as '
    'association lists, exceptions as outcomes) and the `ops` it leaves open (int(), type(), mro(), hasattr/getattr, lookup_class, the saver call)',
    'hand model of VersionedDict (state machine), of saver/loader dispatch and of the rename loop: tied by the correspondence streams and by the equivalence with the translated functions',
    '"still loads what it saved" (behaviour of the per-version savers and loaders) is checked by the protocol stream (correspondence/oracle), not proved',
    'glue_qt.* rename targets belong to another package and are not required to import',
]
ASSUMPTIONS = [
    'equivalence for an old protocol version is judged on what that version\'s saver wrote: Data v1: labels, components, values, coordinates, subsets; '
    'v2 adds the data style; v3 key joins on one attribute; v4 joins on tuples and the uuid; v5 metadata and component ownership; '
    'DataCollection v1: data and links (subset groups rebuilt from equal subsets); v2 adds groups; v3 the group counter; v4 stores external links only',
    'Session is written but never read back (Application.__setgluestate__ registers the live session): checked in the source by the table extractor',
    '"this package" = modules under <repo>/glue',
]

KEYERR, VALERR = 2, 1


# ====================================================================================== stream 1: VersionedDict
def vd_ops_alphabet(full):
    keys = [7, 8]
    vers = [0, 1, 2, 3, 4, None]
    sets = [('set', k, v) for k in keys for v in vers]
    if not full:
        return sets
    gets = [('getitem', k) for k in keys] + [('latest', k) for k in keys] + [('getv', k, v) for k in keys for v in (1, 2, 3)]
    gets += [('contains', k) for k in keys] + [('len',), ('badkey',)]
    return sets + gets


def vd_enc(ops, tag_=1):
    out = []
    for i, o in enumerate(ops):
        if o[0] == 'set':
            out.append((0, [o[1], opt(o[2]), 100 + i]))
        elif o[0] == 'getitem':
            out.append((1, [o[1]]))
        elif o[0] == 'latest':
            out.append((2, [o[1]]))
        elif o[0] == 'getv':
            out.append((3, [o[1], o[2]]))
        elif o[0] == 'contains':
            out.append((4, [o[1]]))
        elif o[0] == 'len':
            out.append((5, []))
        else:
            out.append((6, []))
    return enc((tag_, out))


def vd_impl(VersionedDict, ops):
    """run ops on the real class; returns (results, final state, oracle violation or None)"""
    d = VersionedDict()
    res = []
    seen = {}        # (k, v) -> value, as observed right after the successful assignment
    bad = None
    for i, o in enumerate(ops):
        try:
            if o[0] == 'set':
                d[o[1], ('bad' if o[2] is None else o[2])] = 100 + i
                r = ('none',)
                if (o[1], o[2]) in seen and bad is None:
                    bad = 'step %d: version %r of key %r was assigned a second time (write-once)' % (i, o[2], o[1])
                seen.setdefault((o[1], o[2]), 100 + i)
            elif o[0] == 'getitem':
                x, v = d[o[1]]
                r = ('pair', x, v)
            elif o[0] == 'latest':
                r = ('val', d.get_version(o[1]))
            elif o[0] == 'getv':
                r = ('val', d.get_version(o[1], o[2]))
            elif o[0] == 'contains':
                r = ('bool', o[1] in d)
            elif o[0] == 'len':
                r = ('val', len(d))
            else:
                d[(7,)] = 1
                r = ('none',)
        except KeyError:
            r = ('err', KEYERR)
        except ValueError:
            r = ('err', VALERR)
        res.append(r)
        # ---- the property, evaluated on the real object after every step
        if bad is None:
            for k, vs in d._data.items():
                n = len(vs)
                if sorted(vs) != list(range(1, n + 1)):
                    bad = 'step %d: versions of key %r are %r, not 1..%d' % (i, k, sorted(vs), n)
                    break
                if n:
                    try:
                        got = d[k]
                    except Exception as e:
                        got = repr(e)
                    if got != (vs[n], n):
                        bad = 'step %d: d[%r] = %r, newest is %r' % (i, k, got, (vs[n], n))
                        break
            for (k, v), x in seen.items():
                if d._data.get(k, {}).get(v) != x:
                    bad = 'step %d: value stored for (%r, %r) was replaced or lost' % (i, k, v)
                    break
    state = [(k, list(vs.items())) for k, vs in d._data.items()]
    return res, state, bad


def vd_model_parse(t):
    rs, st = kids(t)
    res = []
    for r in kids(rs):
        if is_err(r):
            res.append(('err', err_code(r)))
        elif tag(r) == 0:
            res.append(('none',))
        elif tag(r) == 1:
            res.append(('val', kids(r)[0][0]))
        elif tag(r) == 2:
            res.append(('pair', kids(r)[0][0], kids(r)[1][0]))
        elif tag(r) == 3:
            res.append(('bool', bool(kids(r)[0][0])))
    state = [(kids(e)[0][0], [tuple(to_zs(p)) for p in kids(kids(e)[1])]) for e in kids(st)]
    return res, state


def stream_versioned_dict(R, VersionedDict):
    Lset = R.pick(4, 5)
    Lmix = R.pick(3, 4)
    seqs = []
    a_set = vd_ops_alphabet(False)
    a_all = vd_ops_alphabet(True)
    for n in range(0, Lset + 1):
        seqs.extend(itertools.product(a_set, repeat=n))
    n_set = len(seqs)
    for n in range(1, Lmix + 1):
        seqs.extend(itertools.product(a_all, repeat=n))
    # longer random sequences (mostly valid: the next version of a key is the likeliest choice)
    rng = R.subrng('vd')
    for _ in range(R.pick(3000, 30000)):
        n = rng.randrange(5, 13)
        nxt = {7: 1, 8: 1}
        ops = []
        for _ in range(n):
            r = rng.random()
            k = rng.choice([7, 8])
            if r < 0.55:
                v = nxt[k] if rng.random() < 0.7 else rng.choice([0, 1, 2, 3, 4, 5, None, -1])
                ops.append(('set', k, v))
                if v == nxt[k]:
                    nxt[k] += 1
            else:
                ops.append(rng.choice([('getitem', k), ('latest', k), ('getv', k, rng.randrange(1, 5)), ('contains', k), ('len',)]))
        seqs.append(tuple(ops))
    chunk = 100000
    nfail = 0
    for i in range(0, len(seqs), chunk):
        part = seqs[i:i + chunk]
        outs = R.model([vd_enc(o) for o in part])
        gouts = R.model([vd_enc(o, 31) for o in part])     # the same cases through the functions translated from state.py
        for ops, o, go in zip(part, outs, gouts):
            res, state, bad = vd_impl(VersionedDict, ops)
            g_res, g_state = vd_model_parse(go) if not is_err(go) else (None, None)
            if (res, state) != (g_res, g_state) and nfail < 20:
                nfail += 1
                R.fail('correspondence', {'stream': 'versioned_dict', 'ops': ops, 'through': 'translated VersionedDict (Gen_dispatch)'},
                       {'impl': [res, state], 'translated': [g_res, g_state]})
            nstored = sum(len(v) for _, v in state)
            R.count(('vd', ops), nontrivial=nstored > 0, stream='versioned_dict', vd_len=len(ops), vd_stored=min(nstored, 6))
            m_res, m_state = vd_model_parse(o)
            if (res, state) != (m_res, m_state) and nfail < 20:
                nfail += 1
                R.fail('correspondence', {'stream': 'versioned_dict', 'ops': ops}, {'impl': [res, state], 'model': [m_res, m_state]})
            if bad and nfail < 20:
                nfail += 1
                small = vd_shrink(VersionedDict, ops)
                R.fail('oracle', {'stream': 'versioned_dict', 'ops': small}, {'why': vd_impl(VersionedDict, small)[2]})
    R.sample({'stream': 'versioned_dict', 'ops': [('set', 7, 1), ('set', 7, 2), ('set', 7, 2), ('getitem', 7)]})
    R.stream('versioned_dict', cases=len(seqs), exhaustive=True,
             bound='all __setitem__ sequences of length <= %d over 2 keys x versions {0,1,2,3,4,non-integer} (%d); all sequences of length <= %d over '
                   'the full alphabet of %d operations (setitem, [], get_version with and without version, in, len, malformed key); %d random sequences of length 5-12'
                   % (Lset, n_set, Lmix, len(a_all), R.pick(3000, 30000)))


def vd_shrink(VersionedDict, ops):
    ops = list(ops)
    changed = True
    while changed:
        changed = False
        for i in range(len(ops)):
            cand = ops[:i] + ops[i + 1:]
            if vd_impl(VersionedDict, cand)[2]:
                ops = cand
                changed = True
                break
    return tuple(ops)


# ====================================================================================== stream 2: dispatch
def exemplar(cls):
    """an object whose type is cls, without running __init__ where possible"""
    import types
    if cls is dict:
        return {}
    if cls in (tuple, list, set):
        return cls()
    if cls is slice:
        return slice(1)
    if cls is np.ndarray:
        return np.zeros(1)
    if cls is np.datetime64:
        return np.datetime64('2000-01-01')
    if cls is types.FunctionType:
        return c02.double
    if cls is types.BuiltinFunctionType:
        return len
    if cls is types.MethodType:
        return Holder().method
    try:
        return object.__new__(cls)
    except TypeError:
        pass
    import astropy.units as u
    from astropy.wcs import WCS
    import shapely
    from matplotlib import cm
    for cand in (u.m, WCS(naxis=1), shapely.Point(0, 0), cm.viridis):
        if type(cand) is cls or (isinstance(cand, cls) and cls.__module__.split('.')[0] in ('astropy', 'shapely', 'matplotlib')):
            return cand
    return None


class Holder(object):
    def method(self):
        return 1


def how_of(fn, registry, mro):
    """identify a function returned by the real _dispatch: ('reg', T, v) or ('meth', provider)"""
    for T, vs in registry._data.items():
        for v, f in vs.items():
            if f is fn:
                return ('reg', T, v)
    f0 = getattr(fn, '__func__', fn)
    for k in mro:
        for nm in ('__gluestate__', '__setgluestate__'):
            m = k.__dict__.get(nm)
            if m is not None and getattr(m, '__func__', m) is f0:
                return ('meth', k)
    return ('unknown', repr(fn))


def type_name_written(cls):
    import types
    if cls is types.FunctionType:
        return 'types.FunctionType'
    if cls is types.MethodType:
        return 'types.MethodType'
    return '%s.%s' % (cls.__module__, cls.__name__)


def stream_dispatch(R, T):
    from glue.core import state as S
    names = T['names']
    ser = S.GlueSerializer.__new__(S.GlueSerializer)
    unser = S.GlueUnSerializer.__new__(S.GlueUnSerializer)
    rows = T['classes']
    lines = []
    for r in rows:
        lines.append(enc((10, [names[r['name']]])))
        for v in range(1, 7):
            lines.append(enc((11, [names[r['name']], v])))
    outs = R.model(lines)
    gouts = R.model([ln.replace('(10 ', '(33 ', 1).replace('(11 ', '(34 ', 1) for ln in lines])     # the translated _dispatch methods over the tables
    per = 7
    skipped = []

    def model_how(o):
        h = kids(o)[0]
        if tag(h) == 0 and not kids(h):
            return None
        if tag(h) == 1:
            return ('meth', kids(h)[0][0])
        return ('reg', kids(h)[0][0], kids(h)[1][0])
    for i, r in enumerate(rows):
        cls = r['cls']
        o = outs[i * per]
        # ---- saver
        ex = exemplar(cls)
        if ex is None or type(ex) is not cls:
            skipped.append(r['name'])
        else:
            try:
                fn, ver = ser._dispatch(ex)
                h = how_of(fn, S.GlueSerializer.dispatch, cls.__mro__)
                impl = ('meth', names.get(c02_qn(h[1]))) if h[0] == 'meth' else (('reg', names.get(c02_qn(h[1])), ver) if h[0] == 'reg' else h)
                if h[0] == 'reg' and h[2] != ver:
                    R.fail('oracle', {'stream': 'dispatch', 'class': r['name']}, {'why': '_dispatch returned version %r with the function of version %r' % (ver, h[2])})
            except S.GlueSerializeError:
                impl = None
            R.count(('saver_of', r['name']), nontrivial=impl is not None, stream='dispatch', dispatch_kind=('none' if impl is None else impl[0]))
            if model_how(o) != impl:
                R.fail('correspondence', {'stream': 'dispatch', 'what': 'saver_of', 'class': r['name']}, {'model': model_how(o), 'impl': impl})
            go = gouts[i * per]
            if is_err(go) or model_how(go) != impl:
                R.fail('correspondence', {'stream': 'dispatch', 'what': 'translated GlueSerializer._dispatch', 'class': r['name']},
                       {'translated': go if is_err(go) else model_how(go), 'impl': impl})
            if impl and impl[0] == 'reg':
                # save uses the newest: the property on the live registry
                T_ = h[1]
                vs = S.GlueSerializer.dispatch._data[T_]
                if ver != max(vs) or fn is not vs[max(vs)]:
                    R.fail('oracle', {'stream': 'dispatch', 'what': 'save_uses_newest', 'class': r['name']}, {'used': ver, 'registered': sorted(vs)})
        # ---- loaders for protocol versions 1..6
        tname = type_name_written(cls)
        try:
            resolved = S.lookup_class_with_patches(tname) if tname not in S.PATH_PATCHES else None
        except Exception:
            resolved = None
        if resolved is not cls:
            continue    # the name this class is written under does not load back to it (patched or not importable): see the patches stream
        for v in range(1, 7):
            om = outs[i * per + v]
            rec = {'_type': tname, '_protocol': v}
            try:
                fn = unser._dispatch(rec)
                h = how_of(fn, S.GlueUnSerializer.dispatch, cls.__mro__)
                impl = ('meth', names.get(c02_qn(h[1]))) if h[0] == 'meth' else (('reg', names.get(c02_qn(h[1])), h[2]) if h[0] == 'reg' else h)
            except S.GlueSerializeError:
                impl = None
            R.count(('loader_of', r['name'], v), nontrivial=impl is not None, stream='dispatch', dispatch_kind=('none' if impl is None else impl[0]))
            if model_how(om) != impl:
                R.fail('correspondence', {'stream': 'dispatch', 'what': 'loader_of', 'class': r['name'], 'version': v}, {'model': model_how(om), 'impl': impl})
            go = gouts[i * per + v]
            if is_err(go) or model_how(go) != impl:
                R.fail('correspondence', {'stream': 'dispatch', 'what': 'translated GlueUnSerializer._dispatch', 'class': r['name'], 'version': v},
                       {'translated': go if is_err(go) else model_how(go), 'impl': impl})
    # ---- registry properties on the live registries (the oracle for the table theorems)
    sv = {k: dict(v) for k, v in S.GlueSerializer.dispatch._data.items() if v}
    lv = {k: dict(v) for k, v in S.GlueUnSerializer.dispatch._data.items() if v}
    for nm, reg in (('savers', sv), ('loaders', lv)):
        for k, vs in reg.items():
            R.count(('registry', nm, c02_qn(k)), nontrivial=True, stream='registry')
            if list(vs) != list(range(1, len(vs) + 1)):
                R.fail('oracle', {'stream': 'registry', 'what': 'versions consecutive from 1', 'registry': nm, 'class': c02_qn(k)}, {'versions': list(vs)})
    for k, vs in sv.items():
        if c02_qn(k) in T['write_only']:
            continue
        for v in vs:
            if v not in lv.get(k, {}):
                R.fail('oracle', {'stream': 'registry', 'what': 'every saver has a loader for the same type and version', 'class': c02_qn(k), 'version': v},
                       {'loader_versions': sorted(lv.get(k, {}))})
    for k, vs in lv.items():
        for v in vs:
            if v not in sv.get(k, {}):
                R.fail('oracle', {'stream': 'registry', 'what': 'every loader has a saver for the same type and version', 'class': c02_qn(k), 'version': v},
                       {'saver_versions': sorted(sv.get(k, {}))})
    if skipped:
        R.note('dispatch: no exemplar object for %d classes (abstract or needing constructor arguments at __new__): %s' % (len(skipped), ', '.join(skipped[:8])))
    R.stream('dispatch', classes=len(rows), exhaustive=True, bound='every class of the regenerated class table x saver + loader versions 1..6; every registry row')


def c02_qn(c):
    return '%s.%s' % (c.__module__, c.__qualname__)


# ====================================================================================== stream 2b: registration interleaved with saving
class _RegBase(object):
    pass


RegA = RegB = RegC = None      # rebound to fresh classes for every case, so that _type 'harness.c12.RegB' resolves to the current one


def reg_fresh_classes():
    g = globals()
    A = type('RegA', (object,), {'__module__': __name__})
    B = type('RegB', (A,), {'__module__': __name__})
    C = type('RegC', (B,), {'__module__': __name__})
    g['RegA'], g['RegB'], g['RegC'] = A, B, C
    return [A, B, C]


def reg_run_case(S, ops):
    """ops: ('reg', ci, v) registers saver+loader version v for class ci; ('save', ci) saves an object of class ci and loads it back.
    Returns (per-op results, model ops, oracle failure or None).  Always removes what it registered."""
    classes = reg_fresh_classes()
    registered = {}                  # class index -> {version: op number}, successful registrations only
    polluted = set()                 # classes with an entry but possibly no version (a failed registration creates the entry)
    res, mops = [], []
    bad = None
    try:
        for k, o in enumerate(ops):
            if o[0] == 'reg':
                _, ci, v = o
                cls = classes[ci]

                def sv(obj, context, k=k):
                    return {'fn': k}

                def ld(rec, context, k=k):
                    r = S.lookup_class_with_patches(rec['_type'])()       # as the loaders of Component / CompositeSubsetState do
                    r.loaded_by = k
                    r.fn = rec['fn']
                    return r
                mops.append((0, [ci, opt(v), k]))
                try:
                    S.saver(cls, version=v)(sv)
                    polluted.add(ci)
                    res.append(('reg', 'none'))
                except KeyError:
                    polluted.add(ci)
                    res.append(('reg', KEYERR))
                    continue
                except ValueError:
                    res.append(('reg', VALERR))
                    continue
                mops.append((1, [ci, opt(v), k]))
                try:
                    S.loader(cls, version=v)(ld)
                    res.append(('reg', 'none'))
                    registered.setdefault(ci, {})[v] = k
                except KeyError:
                    res.append(('reg', KEYERR))
            else:
                _, ci = o
                cls = classes[ci]
                mops.append((2, [ci]))
                # what the property demands, from the registrations made so far
                expect = None
                blocked = False
                for cj in range(ci, -1, -1):
                    if registered.get(cj):
                        vmax = max(registered[cj])
                        expect = (cj, vmax, registered[cj][vmax])
                        break
                    if cj in polluted:
                        blocked = True      # an entry without versions: dispatch[typ] raises (loudly) before any fallback
                        break
                try:
                    rec = S.GlueSerializer(cls()).dumpo()['__main__']
                    used = ('used', rec['fn'], rec.get('_protocol', 1), {'RegA': 0, 'RegB': 1, 'RegC': 2}.get(rec['_type'].rsplit('.', 1)[-1], -1)
                            if rec['_type'].startswith(__name__ + '.') else -1)
                except S.GlueSerializeError:
                    rec, used = None, ('err', 5)
                except ValueError:
                    rec, used = None, ('err', VALERR)
                except KeyError:
                    rec, used = None, ('err', KEYERR)
                res.append(('save',) + used)
                if bad is None and not blocked:
                    if expect is None and used[0] == 'used':
                        bad = 'op %d: an object of a class without any saver was written by saver #%d' % (k, used[1])
                    elif used[0] == 'used' and used[3] != ci:
                        bad = 'op %d: the record of an object of %s is stamped with _type %r' % (k, cls.__name__, rec['_type'])
                    elif expect is not None and used[:3] != ('used', expect[2], expect[1]):
                        bad = ('op %d: save of %s should use the newest version %d registered for %s (function #%d), the record was written by %s'
                               % (k, cls.__name__, expect[1], classes[expect[0]].__name__, expect[2],
                                  'function #%d as protocol %d' % (used[1], used[2]) if used[0] == 'used' else 'nothing (%r)' % (used,)))
                if rec is not None:
                    v = rec.get('_protocol', 1)
                    mops.append((3, [ci, v]))
                    try:
                        back = S.GlueUnSerializer.loads(json.dumps(rec and {'__main__': rec})).object('__main__')
                        lres = ('load', 'used', getattr(back, 'loaded_by', None), v, classes.index(type(back)) if type(back) in classes else -1)
                        ok = type(back) is cls and getattr(back, 'fn', None) == rec['fn']
                        if bad is None and expect is not None and not blocked and (not ok or back.loaded_by != expect[2]):
                            bad = 'op %d: the record written for %s was not restored by the loader registered with its saver' % (k, cls.__name__)
                    except Exception as e:
                        lres = ('load', 'err', type(e).__name__)
                        if bad is None and expect is not None and not blocked:
                            bad = 'op %d: the record written for %s fails to load: %s: %s' % (k, cls.__name__, type(e).__name__, e)
                    res.append(lres)
    finally:
        for reg in (S.GlueSerializer.dispatch._data, S.GlueUnSerializer.dispatch._data):
            for key in list(reg):
                if isinstance(key, type) and key.__module__ == __name__ and key.__name__ in ('RegA', 'RegB', 'RegC'):
                    del reg[key]
    return res, mops, bad


def reg_model_parse(o):
    out = []
    for r in kids(o):
        if is_err(r):
            out.append(('err', err_code(r)))
        elif tag(r) == 0:
            x = kids(r)[0]
            out.append(('reg', err_code(x) if is_err(x) else 'none'))
        else:
            t, v, x = to_zs(r)
            out.append(('used', t, v, x))
    return out


def reg_shrink(S, ops):
    ops = list(ops)
    changed = True
    while changed:
        changed = False
        for i in range(len(ops)):
            cand = ops[:i] + ops[i + 1:]
            if reg_run_case(S, cand)[2]:
                ops = cand
                changed = True
                break
    return ops


def stream_registration(R):
    """saver / loader registration interleaved with saves, on throw-away classes RegA <- RegB <- RegC"""
    from glue.core import state as S
    L = R.pick(5, 6)
    alphabet = [('reg', 0, 1), ('reg', 0, 2), ('reg', 1, 1), ('reg', 1, 2), ('save', 0), ('save', 1), ('save', 2)]
    seqs = []
    for n in range(1, L + 1):
        seqs.extend(itertools.product(alphabet, repeat=n))
    seqs = [s for s in seqs if any(o[0] == 'save' for o in s)]
    rng = R.subrng('registration')
    big = [('reg', c, v) for c in (0, 1, 2) for v in (1, 2, 3)] + [('save', c) for c in (0, 1, 2)] * 2
    for _ in range(R.pick(2000, 20000)):
        seqs.append(tuple(rng.choice(big) for _ in range(rng.randrange(6, 12))))
    before = (len(S.GlueSerializer.dispatch._data), len(S.GlueUnSerializer.dispatch._data))
    lines, impl = [], []
    nfail = 0
    for ops in seqs:
        res, mops, bad = reg_run_case(S, ops)
        impl.append(res)
        lines.append(enc((20, [(0, [(0, [0]), (1, [1, 0]), (2, [2, 1, 0])]), (0, mops)])))
        nsave = sum(1 for r in res if r[0] == 'save' and r[1] == 'used')
        R.count(('registration', ops), nontrivial=nsave > 0, stream='registration', registration_len=len(ops))
        if bad and nfail < 6:
            nfail += 1
            small = reg_shrink(S, ops)
            R.fail('oracle', {'stream': 'registration', 'ops': [list(o) for o in small], 'classes': 'RegA <- RegB <- RegC (index 0, 1, 2)'},
                   {'why': reg_run_case(S, small)[2]})
    outs = R.model(lines)
    gouts = R.model(['(32' + ln[3:] for ln in lines])     # the same cases through the translated decorators / do / _dispatch
    ncorr = 0
    for ops, res, o, through in [(a, b, c, 'hand model') for a, b, c in zip(seqs, impl, outs)] + \
            [(a, b, c, 'translated saver / loader / GlueSerializer.do / GlueUnSerializer._dispatch (Gen_dispatch)') for a, b, c in zip(seqs, impl, gouts)]:
        model = reg_model_parse(o)
        # bring the implementation's results into the model's vocabulary: (class, version, function) for saves and loads
        conv = []
        for r in res:
            if r[0] == 'reg':
                conv.append(('reg', r[1]))
            elif r[0] == 'save':
                conv.append(('used?', r[3], r[2], r[4]) if r[1] == 'used' else ('err', r[2]))
            else:
                conv.append(('used?', r[3], r[2], r[4]) if r[1] == 'used' else ('loaderr',))
        same = len(conv) == len(model)
        if same:
            for c, m in zip(conv, model):
                if c[0] == 'used?':
                    same = same and m[0] == 'used' and (m[2], m[3], m[1]) == (c[1], c[2], c[3])
                elif c[0] == 'loaderr':
                    same = same and m[0] == 'err'
                else:
                    same = same and c == m
        if not same and ncorr < 6:
            ncorr += 1
            R.fail('correspondence', {'stream': 'registration', 'ops': [list(o) for o in ops], 'through': through}, {'impl': res, 'model': model})
    after = (len(S.GlueSerializer.dispatch._data), len(S.GlueUnSerializer.dispatch._data))
    if after != before:
        R.fail('correspondence', {'stream': 'registration'}, {'why': 'the stream left entries in the global registries', 'before': before, 'after': after})
    R.sample({'stream': 'registration', 'ops': [['reg', 0, 1], ['save', 1], ['reg', 1, 1], ['save', 1], ['reg', 0, 2], ['save', 0]]})
    R.stream('registration', cases=len(seqs), exhaustive=True,
             bound='all sequences of 1..%d operations over {register saver+loader v1/v2 for RegA or its subclass RegB, save+load an object of RegA / RegB / RegC(RegB)} '
                   'that contain a save; %d random sequences of 6-11 operations with versions 1..3 on all three classes; fresh classes per case, registries cleaned after each'
                   % (L, R.pick(2000, 20000)))



# ====================================================================================== stream 2c: the translated pipeline over the real classes
def stream_translated(R, T):
    """GlueSerializer.do (stamping of _type / _protocol) + GlueUnSerializer._dispatch of the real code against the translated functions
    (tag 36), for every (type, version) of the saver registry; the decorator calls found by ast (tag 37) against the live registries"""
    from glue.core import state as S
    names = T['names']
    unser = S.GlueUnSerializer.__new__(S.GlueUnSerializer)
    pairs = []
    for cls, vs in S.GlueSerializer.dispatch._data.items():
        q = c02_qn(cls)
        if q in names:
            for v in vs:
                pairs.append((cls, q, v))
    outs = R.model([enc((36, [names[q], v])) for _, q, v in pairs])
    for (cls, q, v), o in zip(pairs, outs):
        ex = exemplar(cls)
        if cls in (tuple, list, set):
            ex = cls([Holder()])          # an empty one is written as a plain nested list, not as a record
        if ex is None or type(ex) is not cls:
            continue

        class Forced(S.GlueSerializer):
            def _dispatch(self, obj, v=v):
                return (lambda obj, context: {'fn': 0}), v
        ser = Forced.__new__(Forced)
        ser._working = set()
        try:
            rec = ser.do(ex)
            impl = [rec.get('_type'), rec.get('_protocol', 1)]
            try:
                fn = unser._dispatch(dict(rec))
                h = how_of(fn, S.GlueUnSerializer.dispatch, cls.__mro__)
                impl.append(('meth', names.get(c02_qn(h[1]))) if h[0] == 'meth' else (('reg', names.get(c02_qn(h[1])), h[2]) if h[0] == 'reg' else h))
            except S.GlueSerializeError:
                impl.append(None)
            except ValueError:
                impl.append('ValueError')
        except Exception as e:
            impl = ['do raised %s' % type(e).__name__]
        impl[0] = names.get({'types.FunctionType': 'builtins.function', 'types.MethodType': 'builtins.method'}.get(impl[0], impl[0]), impl[0])
        if is_err(o):
            model = ['error %d' % err_code(o)]
        else:
            k_ = kids(o)
            hw = k_[3]
            if is_err(hw):
                hm = 'ValueError' if err_code(hw) == 1 else 'error %d' % err_code(hw)
            else:
                h = kids(hw)[0]
                hm = None if (tag(h) == 0 and not kids(h)) else (('meth', kids(h)[0][0]) if tag(h) == 1 else ('reg', kids(h)[0][0], kids(h)[1][0]))
            model = [k_[0][0], k_[1][0], hm]
        R.count(('translated', q, v), nontrivial=True, stream='translated')
        if model != impl:
            R.fail('correspondence', {'stream': 'translated', 'what': 'GlueSerializer.do stamping + GlueUnSerializer._dispatch', 'class': q, 'version': v},
                   {'translated': model, 'impl': impl})
    # ---- the decorator calls found by ast are the registrations of the live registries
    o = R.model([enc((37, []))])[0]
    byast = {}
    for row in kids(o):
        c_, v_, f_ = kids(row)
        byast.setdefault((bool(tag(row)), c_[0]), []).append(kids(v_)[0][0] if kids(v_) else None)
    for is_loader, reg in ((False, S.GlueSerializer.dispatch._data), (True, S.GlueUnSerializer.dispatch._data)):
        for cls, vs in reg.items():
            q = c02_qn(cls)
            if q not in names or not vs:
                continue
            got = [1 if v is None else v for v in byast.get((is_loader, names[q]), [])]
            R.count(('registrations', is_loader, q), nontrivial=True, stream='translated')
            if got != list(vs):
                R.fail('correspondence', {'stream': 'translated', 'what': 'decorator calls found in the source (ast) against the live registry', 'class': q, 'loader': is_loader},
                       {'ast': got, 'live': list(vs)})
    R.stream('translated', cases=len(pairs), exhaustive=True,
             bound='every (type, version) of the live saver registry through the real GlueSerializer.do (forced version) and GlueUnSerializer._dispatch against '
                   'the translated ser_do / unser_dispatch; every @saver / @loader decorator found by ast against the live registries. The other streams '
                   '(versioned_dict, registration, dispatch, patches) run every case also through the translated functions (wire tags 31-35).')

# ====================================================================================== stream 3: rename table
def stream_patches(R, T):
    from glue.core import state as S
    from glue.utils import lookup_class
    names = T['names']
    patches = dict(S.PATH_PATCHES)
    known_capture = set()
    # ---- oracle 1: termination (cycle search on the live dict, never by calling the loop)
    cyc = []
    for k in patches:
        seen = [k]
        n = k
        while n in patches:
            n = patches[n]
            if n in seen:
                cyc.append(seen[seen.index(n):] + [n])
                break
            seen.append(n)
    for c in cyc[:3]:
        R.fail('oracle', {'stream': 'patches', 'what': 'redirections must terminate', 'cycle': c}, {'why': 'lookup_class_with_patches(%r) never returns' % c[0]})
    cyclic = set(x for c in cyc for x in c)
    # ---- correspondence of resolve (the real loop, with the final import stubbed out)
    keys = [k for k in patches if k not in cyclic]
    probe = keys + sorted(set(patches.values()) - set(patches)) + ['glue.core.data.Data', 'no.such.Name']
    probe = [p for p in probe if p in names]
    outs = R.model([enc((12, [names[p]])) for p in probe]) if probe else []
    gouts = R.model([enc((35, [names[p]])) for p in probe]) if probe else []     # the translated lookup_class_with_patches
    real_lookup = S.lookup_class
    try:
        S.lookup_class = lambda n: n
        for p, o, go in zip(probe, outs, gouts):
            impl = S.lookup_class_with_patches(p)
            model = None if not kids(o) else kids(o)[0][0]
            R.count(('resolve', p), nontrivial=p in patches, stream='patches')
            if model != names.get(impl):
                R.fail('correspondence', {'stream': 'patches', 'what': 'resolve', 'name': p}, {'model': model, 'impl': impl})
            if impl in patches:
                # the property on the real loop: it must run to the end of the chain of redirections
                R.fail('oracle', {'stream': 'patches', 'what': 'lookup_class_with_patches stops before the end of a chain of redirections', 'entry': [p, patches.get(p, p)]},
                       {'why': 'it looks up %r, which is itself redirected to %r' % (impl, patches[impl])})
            gmodel = None if (is_err(go) or not kids(go)) else kids(go)[0][0]
            if gmodel != names.get(impl):
                R.fail('correspondence', {'stream': 'patches', 'what': 'translated lookup_class_with_patches', 'name': p}, {'translated': gmodel, 'impl': impl})
    finally:
        S.lookup_class = real_lookup
    # ---- oracle 2: targets inside this package import
    for k in keys:
        t = k
        while t in patches:
            t = patches[t]
        if t.startswith('glue.'):
            try:
                lookup_class(t)
            except ValueError as e:
                R.fail('oracle', {'stream': 'patches', 'what': 'a redirection into this package must resolve to an importable object', 'entry': [k, patches[k]], 'target': t},
                       {'why': str(e)})
    # ---- oracle 3: no key captures a class this package defines and writes (static rule of the extractor, evaluated here on the live data)
    rows = {r['name']: r for r in T['classes']}
    wr_lines, wr_keys = [], []
    for p in T['patches']:
        r = rows.get(p['from'])
        writes = bool(p['live_class'] and p['used'] and r and not r['abstract'] and r['in_pkg'] and has_saver(r['cls']))
        wr_lines.append(enc((13, [names[p['from']]])))
        wr_keys.append((p, writes))
    outs = R.model(wr_lines)
    for (p, writes), o in zip(wr_keys, outs):
        mw = bool(kids(o)[0][0]) if not is_err(o) else None
        R.count(('writes', p['from']), nontrivial=writes, stream='patches')
        if mw != writes:
            R.fail('correspondence', {'stream': 'patches', 'what': 'writes', 'entry': [p['from'], p['to']]}, {'model': mw, 'impl': writes})
        if writes:
            known_capture.add(p['from'])
            R.fail('oracle', {'stream': 'patches', 'what': 'a redirection captures the name of a concrete class that this package defines and writes',
                              'entry': [p['from'], p['to']]},
                   {'why': '%s is defined in this package, used by it and has a saver; a record with this _type is redirected to %s' % (p['from'], resolve_live(patches, p['from']))},
                   key='capture:' + p['from'])
    # ---- oracle 4 (behavioural): every _type the package writes for its own headless viewers loads back to the class that wrote it
    written = viewer_types(R)
    for tname, cls in sorted(written.items()):
        R.count(('written', tname), nontrivial=True, stream='patches_written_types')
        if tname in patches and tname not in known_capture:
            R.fail('oracle', {'stream': 'patches', 'what': 'a _type written by this package is a key of the rename table', 'entry': [tname, patches[tname]]},
                   {'why': 'written by %s' % cls}, key='capture:' + tname)
    R.sample({'stream': 'patches', 'entry': T['patches'][0]['from'] + ' -> ' + T['patches'][0]['to']})
    R.stream('patches', entries=len(patches), exhaustive=True, written_types=len(written),
             bound='every entry of state_path_patches.txt; every _type written when the four headless viewers are serialised')


def has_saver(cls):
    from glue.core import state as S
    if hasattr(cls, '__gluestate__'):
        return True
    return any(k in S.GlueSerializer.dispatch._data and S.GlueSerializer.dispatch._data[k] for k in cls.__mro__)


def resolve_live(patches, n):
    seen = set()
    while n in patches and n not in seen:
        seen.add(n)
        n = patches[n]
    return n


def viewer_types(R):
    """_type strings written when headless viewers of this package are serialised -> repr of the object's class"""
    from glue.core import Data, DataCollection
    from glue.core.application_base import Application
    from glue.core.state import GlueSerializer
    out = {}
    viewers = []
    for mod, nm in (('glue.viewers.histogram.viewer', 'SimpleHistogramViewer'), ('glue.viewers.profile.viewer', 'SimpleProfileViewer'),
                    ('glue.viewers.scatter.viewer', 'SimpleScatterViewer'), ('glue.viewers.image.viewer', 'SimpleImageViewer')):
        try:
            viewers.append(getattr(__import__(mod, fromlist=[nm]), nm))
        except Exception as e:
            R.note('viewer %s not importable here: %r' % (nm, e))
    for V in viewers:
        try:
            d = Data(x=np.arange(6.).reshape(2, 3), y=np.arange(6.).reshape(2, 3) * 2, label='d')
            dc = DataCollection([d])
            dc.new_subset_group('s', d.id['x'] > 2)
            app = Application(dc)
            v = app.new_data_viewer(V, data=d)
            text = GlueSerializer(v, include_data=True).dumps()
            for t in c02.types_in(text):
                out.setdefault(t, V.__name__)
            try:
                import matplotlib.pyplot as plt
                plt.close('all')
            except Exception:
                pass
        except Exception as e:
            R.note('viewer %s could not be serialised headless: %r' % (V.__name__, e))
    return out


# ====================================================================================== stream 4: every (T, v) still loads what it saved
ASPECTS_DATA = {
    1: {'labels', 'components', 'values', 'coords', 'masks', 'linked', 'links', 'groups'},
    2: {'labels', 'components', 'values', 'coords', 'masks', 'linked', 'links', 'groups', 'styles'},
    3: {'labels', 'components', 'values', 'coords', 'masks', 'linked', 'links', 'groups', 'styles', 'joins'},
    4: {'labels', 'components', 'values', 'coords', 'masks', 'linked', 'links', 'groups', 'styles', 'joins', 'uuid'},
    5: {'labels', 'components', 'values', 'coords', 'masks', 'linked', 'links', 'groups', 'styles', 'joins', 'uuid', 'meta', 'sg_count'},
}
ASPECTS_DC = {
    1: {'labels', 'components', 'values', 'coords', 'masks', 'linked', 'links', 'styles', 'joins', 'uuid', 'meta'},
    2: {'labels', 'components', 'values', 'coords', 'masks', 'linked', 'links', 'styles', 'joins', 'uuid', 'meta', 'groups'},
    3: {'labels', 'components', 'values', 'coords', 'masks', 'linked', 'links', 'styles', 'joins', 'uuid', 'meta', 'groups', 'sg_count'},
    4: {'labels', 'components', 'values', 'coords', 'masks', 'linked', 'links', 'styles', 'joins', 'uuid', 'meta', 'groups', 'sg_count'},
}


def forced_serializer(force):
    """a GlueSerializer that writes the registry types in `force` ({type: version}) with that version's registered saver"""
    from glue.core.state import GlueSerializer

    class OldProtocolSerializer(GlueSerializer):
        def _dispatch(self, obj):
            fun, v = super(OldProtocolSerializer, self)._dispatch(obj)
            for T_, ver in force.items():
                if T_ in self.dispatch and fun is self.dispatch[T_][0]:
                    return self.dispatch.get_version(T_, ver), ver
            return fun, v
    return OldProtocolSerializer


def protocol_sessions(rng, n_random):
    """session specs made of registry types only (the other classes are C02's subject)"""
    two = lambda: {'include_data': True, 'datasets': [c02.table_ds('t1', 6, 31), c02.table_ds('t2', 6, 41)], 'links': [], 'subsets': [
        {'label': 's', 'state': {'cls': 'RangeSubsetState', 'd': 0, 'att': 'x', 'lo': 2, 'hi': 6}, 'style': {'color': '#123456'}}]}
    out = []

    def add(name, f):
        sp = two()
        f(sp)
        out.append((name, sp))
    add('plain', lambda sp: None)
    add('linksame', lambda sp: sp['links'].append({'kind': 'LinkSame', 'a': [0, 'x'], 'b': [1, 'y']}))
    add('link2way', lambda sp: sp['links'].append({'kind': 'ComponentLink', 'a': [0, 'x'], 'b': [1, 'y'], 'f': 'double', 'g': 'halve'}))
    # links with several inputs taken from different datasets, one of them the dataset of the output
    add('mixedlink', lambda sp: sp['links'].extend([{'kind': 'LinkSame', 'a': [0, 'y'], 'b': [1, 'y']},
                                                     {'kind': 'ComponentLink2', 'a': [1, 'y'], 'a2': [0, 'x'], 'b': [1, 'x']}]))
    add('mixedlink2', lambda sp: sp['links'].extend([{'kind': 'LinkSame', 'a': [0, 'y'], 'b': [1, 'y']},
                                                      {'kind': 'ComponentLink2', 'a': [0, 'x'], 'a2': [1, 'y'], 'b': [1, 'z']}]))
    add('mixedlink-only', lambda sp: sp['links'].append({'kind': 'ComponentLink2', 'a': [1, 'y'], 'a2': [0, 'x'], 'b': [1, 'x']}))
    add('twoinput-external', lambda sp: sp['links'].append({'kind': 'ComponentLink2', 'a': [0, 'x'], 'a2': [0, 'y'], 'b': [1, 'x']}))
    add('arith', lambda sp: sp['datasets'][0]['comps'].append({'name': 'q', 'kind': 'arith', 'expr': ['mul', 'x', 2]}))
    add('arith+link', lambda sp: (sp['datasets'][0]['comps'].append({'name': 'q', 'kind': 'arith', 'expr': ['add', 'x', 'y']}),
                                  sp['links'].extend([{'kind': 'LinkSame', 'a': [0, 'x'], 'b': [1, 'x']}, {'kind': 'LinkSame', 'a': [0, 'y'], 'b': [1, 'y']}])))
    add('func', lambda sp: sp['datasets'][0]['comps'].append({'name': 'q', 'kind': 'func', 'from': ['x'], 'fn': 'double'}))
    add('parsed', lambda sp: sp['datasets'][0]['comps'].append({'name': 'q', 'kind': 'parsed', 'cmd': '{a} * 3', 'refs': {'a': 'x'}}))
    add('join', lambda sp: sp['links'].append({'kind': 'join_on_key', 'a': [0, 'z'], 'b': [1, 'z']}))
    add('join+link', lambda sp: sp['links'].extend([{'kind': 'join_on_key', 'a': [0, 'c'], 'b': [1, 'c']}, {'kind': 'LinkSame', 'a': [0, 'y'], 'b': [1, 'y']}]))
    add('affine2d', lambda sp: sp['datasets'].__setitem__(0, c02.image_ds('t1', (3, 4), 5, coords='affine', affine_units=True)))
    add('identity3d', lambda sp: sp['datasets'].__setitem__(0, c02.image_ds('t1', (2, 3, 2), 5, coords='identity')))
    add('nocoords2d', lambda sp: sp['datasets'].__setitem__(0, c02.image_ds('t1', (3, 4), 5)))
    add('style+meta', lambda sp: sp['datasets'][0].update(style={'color': '#ff0000', 'alpha': 0.3, 'markersize': 9}, meta={'a': 1, 'b': ['x', 2]}))
    add('datetime', lambda sp: sp['datasets'][0]['comps'].append({'name': 'when', 'kind': 'datetime', 'seed': 4}))
    add('states', lambda sp: sp['subsets'].extend([
        {'label': 'roi', 'state': {'cls': 'RoiSubsetState', 'd': 0, 'x': 'x', 'y': 'y', 'roi': c02.ROI_SPECS['PolygonalROI'][0]}},
        {'label': 'cmp', 'state': {'cls': 'AndState', 'a': {'cls': 'InequalitySubsetState', 'd': 0, 'left': 'x', 'right': 3, 'op': 'gt'},
                                   'b': {'cls': 'InvertState', 'a': {'cls': 'RangeSubsetState', 'd': 1, 'att': 'y', 'lo': 1, 'hi': 4}}}},
        {'label': 'empty', 'state': {'cls': 'SubsetState'}}]))
    add('equal-labels', lambda sp: (sp['datasets'][1].update(label='t1'), sp['subsets'].append(
        {'label': 's', 'state': {'cls': 'RangeSubsetState', 'd': 1, 'att': 'y', 'lo': 1, 'hi': 4}})))
    out.append(('regiondata', {'include_data': True, 'datasets': [{'label': 'reg', 'shape': [4], 'region': True, 'comps': [{'name': 'v', 'kind': 'float', 'seed': 3}]},
                                                                 c02.table_ds('t2', 4, 81)],
                               'links': [], 'subsets': [{'label': 's', 'state': {'cls': 'RangeSubsetState', 'd': 0, 'att': 'v', 'lo': 2, 'hi': 6}}]}))
    for i in range(n_random):
        sp = c02.random_spec(rng, None)
        sp['include_data'] = True
        for ds in sp['datasets']:
            ds.pop('file', None)
        if registry_only(sp):
            out.append(('random%d' % i, sp))
    return out


REG_STATES = {'SubsetState', 'RangeSubsetState', 'RoiSubsetState', 'InequalitySubsetState', 'AndState', 'OrState', 'XorState', 'InvertState',
              'CategoricalROISubsetState', 'CategorySubsetState', 'MaskSubsetState', 'SliceSubsetState', 'ElementSubsetState', 'CategoricalMultiRangeSubsetState'}


def registry_only(sp):
    def ok(st):
        if st['cls'] not in REG_STATES:
            return False
        return all(ok(st[k]) for k in ('a', 'b') if k in st)
    return all(ok(sb['state']) for sb in sp['subsets']) and all(ln['kind'] not in ('LinkAligned', 'LinkTwoWay') for ln in sp['links'])


def stream_protocol(R, T):
    from glue.core.data import Data
    from glue.core.data_collection import DataCollection
    from glue.core import state as S
    rng = R.subrng('protocol')
    sessions = protocol_sessions(rng, R.pick(12, 120))
    sv = {k: dict(v) for k, v in S.GlueSerializer.dispatch._data.items() if v}
    multi = {k: sorted(v) for k, v in sv.items() if len(v) > 1}
    covered = set()
    combos = []
    for T_, vs in multi.items():
        for v in vs:
            combos.append({T_: v})
    # era-consistent pairs of old versions
    if Data in multi and DataCollection in multi:
        for dv, cv in ((1, 1), (2, 2), (3, 3), (4, 3)):
            if dv in multi[Data] and cv in multi[DataCollection]:
                combos.append({Data: dv, DataCollection: cv})
    nfail = 0
    for force in combos:
        aspects = None
        for T_, v in force.items():
            if T_ is Data:
                a = ASPECTS_DATA.get(v, ASPECTS_DATA[5])
            elif T_ is DataCollection:
                a = ASPECTS_DC.get(v, ASPECTS_DC[4])
            else:
                a = None     # a type that gains versions later: full comparison
            if a is not None:
                aspects = a if aspects is None else (aspects & a)
        fname = {c02_qn(k): v for k, v in force.items()}
        ser = forced_serializer(force)
        c02.GEOM_DECIMALS[0] = 6 if fname.get('shapely.lib.Geometry') == 1 else None
        for name, sp in sessions:
            if force.get(Data, 5) < 3 and any(ln['kind'] == 'join_on_key' for ln in sp['links']):
                continue      # key joins are not recorded before Data v3: nothing to compare them with
            if force.get(Data, 5) < 4 and 'ElementSubsetState' in json.dumps(sp['subsets']):
                continue      # an ElementSubsetState is bound to its dataset by the uuid, which is recorded since Data v4 only
            asp = aspects
            if name == 'regiondata' and Data in force:
                continue      # RegionData has its own single protocol
            r = c02.trip(sp, R.scratch, serializer_cls=ser, aspects=asp)
            st = r['status']
            used = st in ('ok',) or st in c02.BAD
            for k, v in force.items():
                if used:
                    covered.add((c02_qn(k), v))
            if used:
                for tn in r.get('types', []):
                    reg = registry_type_of(tn)
                    if reg is not None and reg not in force:
                        covered.add((c02_qn(reg), max(sv[reg])))
            R.count(('protocol', tuple(sorted(fname.items())), name), nontrivial=st == 'ok' and r.get('nontrivial', False),
                    stream='protocol', protocol_status=st, protocol_force=json.dumps(fname, sort_keys=True))
            if st in c02.BAD and nfail < 12:
                nfail += 1
                small = c02.shrink(sp, lambda s: c02.trip(s, R.scratch, serializer_cls=ser, aspects=asp)['status'] == st)
                rr = c02.trip(small, R.scratch, serializer_cls=ser, aspects=asp)
                R.fail('oracle', {'stream': 'protocol', 'force': fname, 'aspects': sorted(asp) if asp else None, 'spec': small},
                       {'status': rr['status'], 'detail': rr['detail']})
            elif st == 'build-failed':
                R.fail('correspondence', {'stream': 'protocol', 'spec': sp}, {'why': 'the harness could not build its own session', 'detail': r['detail']})
    c02.GEOM_DECIMALS[0] = None
    # ---- registry types outside sessions: the object alone, written with its registered (newest) saver and read back
    singles = single_type_cases()
    for tname, make, same in singles:
        try:
            obj = make()
        except Exception as e:
            R.note('protocol: could not build an object of %s: %r' % (tname, e))
            continue
        R.count(('protocol1', tname), nontrivial=True, stream='protocol_single')
        try:
            gs = S.GlueSerializer(obj, include_data=True)
            text = gs.dumps()
            for tn in c02.types_in(text):
                reg = registry_type_of(tn)
                if reg is not None:
                    covered.add((c02_qn(reg), max(sv[reg])))
        except Exception as e:
            R.note('protocol: saving %s fails loudly: %s' % (tname, type(e).__name__))
            continue
        try:
            back = S.GlueUnSerializer.loads(text).object('__main__')
            ok = same(obj, back)
            why = None if ok else 'restored object differs: %r vs %r' % (obj, back)
        except Exception as e:
            ok = False
            why = 'load failed: %s: %s' % (type(e).__name__, str(e)[:200])
        if not ok:
            R.fail('oracle', {'stream': 'protocol_single', 'type': tname}, {'why': why})
    missing = []
    shapes = {r['name']: r['shape'] for r in T['savers']}
    for k, vs in sv.items():
        for v in vs:
            if shapes.get(c02_qn(k), {}).get(v) == 'raises':
                continue      # a saver that only raises writes nothing that could fail to load
            if (c02_qn(k), v) not in covered and c02_qn(k) not in T['write_only']:
                missing.append('%s v%d' % (c02_qn(k), v))
    if missing:
        R.note('protocol: (type, version) pairs not exercised: ' + ', '.join(missing))
    R.sample({'stream': 'protocol', 'force': {'glue.core.data.Data': 3}, 'spec': sessions[7][1]})
    R.stream('protocol', sessions=len(sessions), forced_version_sets=len(combos), single_types=len(singles), pairs_covered=len(covered), pairs_not_covered=missing,
             bound='every version of every multi-version registry type x %d sessions (16 directed + random ones built from registry types); '
                   'every single-version registry type as a stand-alone object' % len(sessions))


def registry_type_of(tname):
    """the registry type whose saver writes records of _type tname (None when a __gluestate__ method does)"""
    from glue.core import state as S
    import types
    if tname == 'types.FunctionType':
        return types.FunctionType
    if tname == 'types.MethodType':
        return types.MethodType
    if tname.endswith('.builtin_function_or_method'):
        return types.BuiltinFunctionType
    try:
        cls = S.lookup_class(tname)
    except Exception:
        return None
    if not isinstance(cls, type) or hasattr(cls, '__gluestate__'):
        return None
    for k in cls.__mro__:
        if S.GlueSerializer.dispatch._data.get(k):
            return k
    return None


def single_type_cases():
    """(type name, constructor, equality) for registry types exercised outside a session"""
    import astropy.units as u
    from astropy.wcs import WCS
    import shapely
    from matplotlib import cm
    from glue.core.component_id import ComponentID, PixelComponentID
    from glue.core.component import Component, CategoricalComponent
    from glue.core.visual import VisualAttributes
    from glue.core.roi_pretransforms import RadianTransform

    def arr_eq(a, b):
        return type(a) is type(b) and a.dtype == b.dtype and a.shape == b.shape and (np.array_equal(a, b) or (a.dtype.kind == 'f' and np.array_equal(a, b, equal_nan=True)))

    def wcs():
        w = WCS(naxis=2)
        w.wcs.ctype = ['RA---TAN', 'DEC--TAN']
        w.wcs.crval = [10, 20]
        w.wcs.cdelt = [-0.1, 0.1]
        w.wcs.crpix = [5, 5]
        return w
    cid = ComponentID('lbl')
    out = [
        ('builtins.dict', lambda: {'a': np.arange(3), 'b': (1, 2)}, lambda a, b: set(a) == set(b) and arr_eq(a['a'], b['a']) and list(a['b']) == list(b['b'])),
        ('builtins.list', lambda: [np.arange(2.), 'x', 3], lambda a, b: isinstance(b, list) and arr_eq(a[0], b[0]) and a[1:] == b[1:]),
        ('builtins.tuple', lambda: (np.arange(2.), 'x', 3), lambda a, b: isinstance(b, tuple) and arr_eq(a[0], b[0]) and a[1:] == b[1:]),
        ('builtins.set', lambda: {ComponentID('q')}, lambda a, b: isinstance(b, set) and [c.label for c in b] == ['q']),
        ('builtins.slice', lambda: slice(1, 7, 2), lambda a, b: a == b),
        ('astropy.units.core.UnitBase', lambda: u.km / u.s, lambda a, b: a == b),
        ('astropy.wcs.wcs.WCS', wcs, lambda a, b: a.to_header_string() == b.to_header_string()),
        ('glue.core.visual.VisualAttributes', lambda: VisualAttributes(color='#112233', alpha=0.4, markersize=8, linewidth=3, linestyle='dashed', marker='x'),
         lambda a, b: c02.style_of(a) == c02.style_of(b)),
        ('glue.core.component_id.ComponentID', lambda: cid, lambda a, b: type(b) is ComponentID and a.label == b.label and a.uuid == b.uuid),
        ('glue.core.component_id.PixelComponentID', lambda: PixelComponentID(2, 'Pixel Axis 2 [x]'), lambda a, b: type(b) is PixelComponentID and (a.axis, a.label) == (b.axis, b.label)),
        ('glue.core.component.Component', lambda: Component(np.array([1.5, np.nan, 3]), units='m'), lambda a, b: type(b) is Component and arr_eq(a.data, b.data) and a.units == b.units),
        ('glue.core.component.CategoricalComponent', lambda: CategoricalComponent(np.array(['b', 'a', 'b']), units='k'),
         lambda a, b: type(b) is CategoricalComponent and list(a.labels) == list(b.labels) and list(a.categories) == list(b.categories) and arr_eq(np.asarray(a.codes), np.asarray(b.codes))),
        ('builtins.builtin_function_or_method', lambda: len, lambda a, b: a is b),
        ('builtins.function', lambda: c02.double, lambda a, b: a is b),
        ('builtins.method', lambda: RadianTransform(coords=['x']).__call__, lambda a, b: getattr(b, '__name__', None) == '__call__' and type(b.__self__) is RadianTransform and b.__self__._coords == ['x']),
        ('matplotlib.colors.Colormap', lambda: cm.viridis, lambda a, b: a.name == b.name),
        ('numpy.datetime64', lambda: [np.datetime64('2021-03-04T05:06:07')], lambda a, b: a[0] == b[0] and type(b[0]) is np.datetime64),
        ('shapely.lib.Geometry', lambda: [shapely.Point(1.5, 2.25), shapely.box(0, 0, 2, 3)], lambda a, b: all(x.equals_exact(y, 0) for x, y in zip(a, b))),
    ]
    from glue.core.component_link import CoordinateComponentLink
    from glue.core.coordinates import IdentityCoordinates
    from glue.core.data import Data
    from echo import CallbackList

    def ccl():
        return CoordinateComponentLink([PixelComponentID(0, 'p0'), PixelComponentID(1, 'p1')], ComponentID('w'), IdentityCoordinates(n_dim=2), 1, True)
    out.append(('glue.core.component_link.CoordinateComponentLink', ccl,
                lambda a, b: type(b) is CoordinateComponentLink and (a.index, a.pixel2world) == (b.index, b.pixel2world)
                and [c.label for c in a._from_all] == [c.label for c in b._from_all] and a.get_to_id().label == b.get_to_id().label and type(b.coords) is IdentityCoordinates))
    out.append(('echo.containers.CallbackList', lambda: CallbackList(lambda *a: None, [1, 'two', ComponentID('k')]),
                lambda a, b: list(a[:2]) == list(b[:2]) and b[2].label == 'k'))

    def data_with_subset():
        d = Data(x=np.arange(6.), label='alone')
        d.add_subset(d.id['x'] > 2, label='plain')
        d.subsets[0].style.color = '#010203'
        return d
    out.append(('glue.core.subset.Subset', data_with_subset,
                lambda a, b: [s.label for s in b.subsets] == ['plain'] and type(b.subsets[0]).__name__ == 'Subset'
                and np.array_equal(a.subsets[0].to_mask(), b.subsets[0].to_mask()) and c02.style_of(a.subsets[0].style) == c02.style_of(b.subsets[0].style)))
    for dt in ('float64', 'int32', 'bool', 'U3', 'datetime64[ns]'):
        def mk(dt=dt):
            if dt.startswith('datetime'):
                return (np.datetime64('2020-01-01') + np.arange(6).astype('timedelta64[h]')).astype(dt).reshape(2, 3)
            if dt == 'U3':
                return np.array([['a', 'bb', 'ccc'], ['d', 'e', 'f']])
            return (np.arange(6).reshape(2, 3) % 2 == 0) if dt == 'bool' else np.arange(6).reshape(2, 3).astype(dt)
        out.append(('numpy.ndarray', mk, arr_eq))
    return out


# ====================================================================================== entry points
def load_tables():
    import gen_tables
    return gen_tables.collect()


def run(R):
    from glue.core.state import VersionedDict
    R.rule = ('versioned_dict: exhaustive operation sequences (bounds in coverage.streams) + seeded random longer ones, non-trivial when a version gets stored; '
              'dispatch / patches: every row of the regenerated tables; protocol: every registered (type, version) x generated sessions, non-trivial when the '
              'restored session has a subset mask that is neither empty nor full or an attribute reachable across datasets; distinct = distinct canonical case keys')
    R.exhaustive = True
    T = load_tables()
    if R.model_available:
        sizes = to_zs(R.model([enc((14, []))])[0])
        mine = [len(T['classes']), len(T['patches']), len(T['savers']), len(T['loaders']),
                sum(T['names'][r['name']] for r in T['classes']), sum(T['names'][p['to']] for p in T['patches'])]
        if sizes != mine:
            R.fail('correspondence', {'stream': 'tables'}, {'why': 'the tables compiled into the model differ from the tables of the running package', 'model': sizes, 'now': mine})
            return
    for fn, args in ((stream_versioned_dict, (R, VersionedDict)), (stream_registration, (R,)), (stream_dispatch, (R, T)), (stream_translated, (R, T)), (stream_patches, (R, T)), (stream_protocol, (R, T))):
        try:
            fn(*args)
        except Exception:                 # keep going: another stream may still find the failing input
            import traceback
            R.fail('correspondence', {'stream': fn.__name__}, {'why': 'stream crashed', 'trace': traceback.format_exc()[-1500:]})


def replay(R, case):
    from glue.core import state as S
    st = case.get('stream')
    out = {'case': case}
    if st == 'versioned_dict':
        ops = [tuple(o) for o in case['ops']]
        res, state, bad = vd_impl(S.VersionedDict, ops)
        out.update(impl_results=res, impl_state=state, oracle=bad, violates=bool(bad))
        if R.model_available:
            out['model'] = vd_model_parse(R.model([vd_enc(ops)])[0])
    elif st == 'registration':
        ops = [tuple(o) for o in case['ops']]
        res, mops, bad = reg_run_case(S, ops)
        out.update(results=res, oracle=bad, violates=bool(bad))
    elif st == 'patches':
        patches = dict(S.PATH_PATCHES)
        if 'cycle' in case:
            n = case['cycle'][0]
            seen = []
            while n in patches and n not in seen:
                seen.append(n)
                n = patches[n]
            out.update(walk=seen + [n], violates=n in seen)
        else:
            frm = case['entry'][0]
            tgt = resolve_live(patches, frm)
            try:
                obj = S.lookup_class_with_patches(frm) if frm in patches else None
                res = repr(obj)
            except Exception as e:
                res = 'raises %s: %s' % (type(e).__name__, e)
            try:
                from glue.utils import lookup_class
                direct = lookup_class(frm)
            except Exception:
                direct = None
            out.update(entry_present=frm in patches, resolves_to=tgt, lookup_with_patches=res, live_class=repr(direct),
                       violates=bool(frm in patches and direct is not None and isinstance(direct, type) and has_saver(direct)
                                     and c02_qn(direct) == frm) or (tgt.startswith('glue.') and res.startswith('raises')))
    elif st == 'protocol':
        from glue.utils import lookup_class
        force = {lookup_class(k): v for k, v in case['force'].items()}
        asp = set(case['aspects']) if case.get('aspects') else None
        r = c02.trip(case['spec'], R.scratch, serializer_cls=forced_serializer(force), aspects=asp)
        out.update(result=r, violates=r['status'] in c02.BAD)
    elif st == 'protocol_single':
        for tname, make, same in single_type_cases():
            if tname == case['type']:
                obj = make()
                text = S.GlueSerializer(obj, include_data=True).dumps()
                try:
                    back = S.GlueUnSerializer.loads(text).object('__main__')
                    ok = same(obj, back)
                except Exception as e:
                    ok = False
                    out['error'] = repr(e)
                out['violates'] = not ok
                break
    else:
        out['note'] = 'replay by re-running the stream: ./check C12 --tier quick'
        out['violates'] = False
    return out
