"""C14 — derived attributes compute their defining expression and go with their inputs.

Expression trees over + - * / ** with dyadic constants and stored / pixel / world / derived attributes are turned into
derived attributes in three ways (ComponentID arithmetic -> BinaryComponentLink; text over the {label} grammar ->
ParsedCommand/ParsedComponentLink; a user function -> ComponentLink(using=)), on real Data objects whose inputs have
different broadcasting structures, and read through views.  Histories add such attributes, remove attributes and
replace identifiers.

* correspondence: values (exact rationals; division by zero etc. as a class) and the dependency structure after every
  structural call are compared with the extracted Coq model (coq/C14/Model.v);
* oracle (independent of the model): the expression is evaluated with exact rational arithmetic on the full input
  arrays and indexed by the view with numpy; the removal closure and the order are computed from the harness' own
  record of the expressions.
"""
import itertools
import operator
from fractions import Fraction

import numpy as np

from harness.common import enc, Z, B, kids, tag, to_zs, is_err, err_code
from harness import c14_syntax

PROP = 'C14'
GENERATORS = ['gen_datamut', 'gen_parse', 'gen_linkcompute']
TRUSTED = [
    'hand model coq/C14/Model.v of BinaryComponentLink.compute, ParsedCommand.evaluate and update_id (with the two fix commits): tied by '
    'correspondence only; ComponentLink.compute is regenerated from component_link.py (tools/gen/gen_linkcompute.py) over opaque array '
    'operations and proved equal to the model (coq/C14/LinkEquiv.v); a stored array is its logical value list: independence from the '
    'memory layout (C / Fortran / transposed / negative stride / non-contiguous / stride 0) is tested, not proved',
    'the removal cascade (Data.remove_component + _removed_derived_that_depend_on) is regenerated from data.py by tools/gen/gen_datamut.py '
    '(coq/gen/Gen_datamut.v) and proved equal to the model (coq/C14/GenEquiv.v); trusted there: the translator, its prelude, the instance '
    'env14 (link.get_from_ids() = leaves of the defining expression); the generated update_id / reorder_components run against the code only',
    'numpy arithmetic, indexing and stride bookkeeping are the platform; the model keeps per axis a length and a stride-0 flag',
    'ParsedCommand: eval of the dereferenced command and user functions are arbitrary Python: exercised by correspondence and oracle only; '
    'the tag grammar is modelled: parse._validate is regenerated from parse.py (tools/gen/gen_parse.py -> coq/gen/Gen_parse.v) and proved to '
    'build the model\'s replacement table; the tokenizer for TAG_RE is fixed text emitted only for the verbatim pattern (\\s table read from the '
    'live re module) and tied by exhaustive correspondence; str.replace on the string vs the rewrite on token lists: correspondence only',
    'floating point: only elements whose exact rational evaluation is representable at every intermediate step are compared (dyadic inputs make that almost all)',
    'slice resolution (slice.indices) is done by CPython in the harness; the model receives per-axis position lists',
]
ASSUMPTIONS = [
    'exponents of ** are integer valued (constants or attributes); other exponents fall in the non-exact class',
    'expressions built with operators never have two constant operands (Python folds them before glue sees them)',
    'world attributes come from coordinates with independent axes (identity / diagonal affine)',
    'fancy views (index arrays, boolean masks) are checked by the oracle only',
]

OPS = ['+', '-', '*', '/', '**']
PYOP = {'+': operator.add, '-': operator.sub, '*': operator.mul, '/': operator.truediv, '**': operator.pow}
CONSTS = [Fraction(2), Fraction(1, 2), Fraction(-1), Fraction(3), Fraction(0), Fraction(1), Fraction(-3, 2), Fraction(4)]
VALUES = [Fraction(0), Fraction(1), Fraction(-1), Fraction(2), Fraction(1, 2), Fraction(-2), Fraction(3), Fraction(4), Fraction(1, 4), Fraction(3, 2)]


# ------------------------------------------------------------------ exact arithmetic (the oracle's own evaluator)
def exact_float(fr):
    d = fr.denominator
    return (d & (d - 1)) == 0 and abs(fr.numerator).bit_length() <= 53 and d.bit_length() <= 200


def fop(op, a, b):
    """(value or None, exact flag) ; None = non finite / outside the exact class"""
    if a is None or b is None:
        return None
    if op == '+':
        return a + b
    if op == '-':
        return a - b
    if op == '*':
        return a * b
    if op == '/':
        return None if b == 0 else a / b
    if op == '**':
        if b.denominator != 1:
            return None
        n = b.numerator
        if abs(n) > 64:          # same bound as the model: such powers are never exactly representable anyway
            return None
        if n >= 0:
            return a ** n
        if a == 0:
            return None
        return (1 / a) ** (-n)
    raise ValueError(op)


UFUNC = {'+': np.add, '-': np.subtract, '*': np.multiply, '/': np.true_divide, '**': np.power}


def representable(v, dt):
    """is the exact value v representable in dtype dt (or, for a weak Python scalar, in Python)?"""
    if v is None:
        return False
    if isinstance(dt, tuple):
        return True if dt[1] is int else exact_float(v)
    if dt.kind in 'iu':
        info = np.iinfo(dt)
        return v.denominator == 1 and info.min <= v.numerator <= info.max
    if dt.kind == 'b':
        return v in (0, 1)
    if not exact_float(v):
        return False
    if dt.itemsize < 8:
        with np.errstate(all='ignore'):
            return Fraction(float(np.asarray(float(v)).astype(dt))) == v
    return True


def result_dtype(op, da, db, bvals):
    """dtype numpy gives op(a, b) (its own type resolution; Python scalars are weak) and whether the operation is
    defined for every element (numpy refuses integer ** negative integer and out-of-range Python integers)"""
    wa, wb = isinstance(da, tuple), isinstance(db, tuple)
    if wa and wb:
        isfloat = da[1] is float or db[1] is float or op == '/' or (op == '**' and db[2] < 0)
        return ('weak', float if isfloat else int, fop(op, da[2], db[2])), True
    try:
        dt = UFUNC[op].resolve_dtypes((da[1] if wa else da, db[1] if wb else db, None))[2]
    except Exception:
        return np.dtype('float64'), False
    ok = True
    for w, d in ((wa, da), (wb, db)):
        if w and d[1] is int and dt.kind in 'iu' and not representable(d[2], dt):
            ok = False          # OverflowError: Python integer out of bounds for the dtype
    if op == '**' and dt.kind in 'iu' and any(y is not None and y < 0 for y in bvals.ravel()):
        ok = False              # ValueError: integers to negative integer powers
    return dt, ok


LAYOUTS = ['C', 'F', 'T', 'neg', 'slice', 'negF']


def with_layout(full, layout):
    """the same logical array held in memory in another way (glue keeps a stored array as it is given)"""
    if layout == 'F':
        out = np.asfortranarray(full)                          # Fortran order, owns its data
    elif layout == 'T':
        out = np.ascontiguousarray(full.T).T                   # transposed view of a C-ordered array
    elif layout == 'neg':
        out = np.ascontiguousarray(full[::-1])[::-1]           # negative stride on the first axis
    elif layout == 'slice':
        big = np.zeros(full.shape[:-1] + (2 * full.shape[-1] + 1,), dtype=full.dtype)
        big[..., 1::2] = full
        out = big[..., 1::2]                                   # every second element of a wider buffer: not contiguous
    elif layout == 'negF':
        out = np.asfortranarray(full[..., ::-1])[..., ::-1]    # Fortran order with a negative stride on the last axis
    else:
        out = full
    assert out.shape == full.shape and np.array_equal(out, full, equal_nan=True)
    return out


def layouts_of(spec):
    return '+'.join(sorted(set((st[3] if len(st) > 3 and not any(st[0]) else ('stride0' if any(st[0]) else 'C')) for st in spec['stored'])))


def leaves(t):
    if t[0] == 'cid':
        return [t[1]]
    if t[0] in ('const', 'ref'):
        return []
    return leaves(t[2]) + leaves(t[3])


def depth(t):
    return 0 if t[0] != 'bin' else 1 + max(depth(t[2]), depth(t[3]))


def has_ref(t):
    """('ref', n): the expression OBJECT that is registered as derived attribute n, re-used as an operand (shared link)"""
    return t[0] == 'ref' or (t[0] == 'bin' and (has_ref(t[2]) or has_ref(t[3])))


def tree_str(t, names):
    if t[0] == 'cid':
        return '{%s}' % names[t[1]]
    if t[0] == 'const':
        return ('(%d)' % int(t[1])) if len(t) > 2 else ('(%r)' % float(t[1]))
    return '(%s %s %s)' % (tree_str(t[2], names), t[1], tree_str(t[3], names))


def dedup(l):
    out = []
    for x in l:
        if x not in out:
            out.append(x)
    return out


# ------------------------------------------------------------------ the real dataset
class World(object):
    def __init__(self, spec):
        """spec: dict(shape, coords (None|0|1), stored=[(flags, small_values_as_fractions)])"""
        from glue.core import Data
        from glue.core.coordinates import IdentityCoordinates, AffineCoordinates
        from glue.core.component import Component
        self.spec = spec
        shape = tuple(spec['shape'])
        nd = len(shape)
        coords = None
        if spec['coords'] == 0:
            coords = IdentityCoordinates(n_dim=nd)
        elif spec['coords'] == 1:
            m = np.diag([2.0, 4.0, 0.5][:nd] + [1.0])
            m[:nd, nd] = [0.5, -1.0, 2.0][:nd]
            coords = AffineCoordinates(m)
        self.d = Data(label='d', coords=coords)
        self.num = {}
        self.objs = {}
        self.names = {}
        self.next = 0
        self.base = {}      # number -> object array of Fractions (full shape): the oracle's inputs
        self.defs = {}      # number -> (how, tree): the oracle's record of the derived attributes
        self.linkobj = {}   # number -> the link object the attribute was registered with (any kind of definition)
        self.links = {}     # number -> the BinaryComponentLink object of an attribute defined by operators (for sharing)
        self.model_comps = []
        self.nlabel = 0
        self.dtype = {}     # number -> numpy dtype of a stored / pixel / world attribute (what data[cid] returns)
        for j, st in enumerate(spec['stored']):
            flags, small = st[0], st[1]
            dts = st[2] if len(st) > 2 else 'float64'
            small_shape = tuple(1 if f else n for n, f in zip(shape, flags))
            if dts == 'float64':
                arr = np.array([float(x) for x in small], dtype=float).reshape(small_shape)
            elif dts.startswith('float'):
                arr = np.array([float(x) for x in small], dtype=dts).reshape(small_shape)
            else:
                arr = np.array([int(x) for x in small], dtype=dts).reshape(small_shape)
            full = np.broadcast_to(arr, shape) if any(flags) else arr.copy()
            if len(st) > 3 and not any(flags):
                full = with_layout(full, st[3])
            lab = self.fresh_label()
            self.d.add_component(Component(full), lab)
            self.register_new()
            n = self.next - 1
            obj = np.empty(small_shape, dtype=object)
            obj.ravel()[:] = list(small)
            self.base[n] = np.broadcast_to(obj, shape)
            self.dtype[n] = np.asarray(self.d[self.objs[n]]).dtype      # (bool is stored as int64 by glue)
            self.model_comps.append((n, (1, [B(flags), (0, [fr_enc(x) for x in small])])))
        # pixel / world components were numbered when the first component was added: describe them for model and oracle
        pre = []
        for k, c in enumerate(self.d.pixel_component_ids):
            n = self.num[id(c)]
            idx = np.indices(shape)[k]
            o = np.empty(shape, dtype=object)
            o.ravel()[:] = [Fraction(int(x)) for x in idx.ravel()]
            self.base[n] = o
            self.dtype[n] = np.asarray(self.d[c]).dtype
            pre.append((n, (2, [k])))
        for k, c in enumerate(self.d.world_component_ids):
            n = self.num[id(c)]
            vals = np.asarray(self.d[c], dtype=float)
            o = np.empty(shape, dtype=object)
            o.ravel()[:] = [Fraction(float(x)) for x in vals.ravel()]
            self.base[n] = o
            self.dtype[n] = np.asarray(self.d[c]).dtype
            line = np.moveaxis(vals, k, 0).reshape(shape[k], -1)[:, 0]
            off = Fraction(float(line[0]))
            sc = Fraction(float(line[1])) - off if shape[k] > 1 else Fraction(0)
            pre.append((n, (3, [k, fr_enc(sc), fr_enc(off)])))
        self.model_comps = sorted(pre + self.model_comps, key=lambda x: [self.num[id(c)] for c in self.d.components].index(x[0]))

    def fresh_label(self):
        self.nlabel += 1
        return 'c%d' % self.nlabel

    def register_new(self):
        for c in self.d.components:
            if id(c) not in self.num:
                self.num[id(c)] = self.next
                self.objs[self.next] = c
                self.next += 1

    def order(self):
        return [self.num.get(id(c), -1) for c in self.d.components]

    def structure(self):
        from glue.core.component import DerivedComponent
        out = []
        for c in self.d.components:
            comp = self.d._components[c]
            fr = []
            if isinstance(comp, DerivedComponent):
                fr = sorted(set(self.num.get(id(f), -1) for f in comp.link.get_from_ids()))
            out.append((self.num.get(id(c), -1), fr))
        return out

    # -- building derived attributes
    def build_ops(self, t):
        if t[0] == 'cid':
            return self.objs[t[1]]
        if t[0] == 'const':
            return int(t[1]) if len(t) > 2 else float(t[1])      # ('const', q, 'int'): handed to glue as a Python int
        if t[0] == 'ref':
            return self.links[t[1]]       # the very link object of attribute t[1]: a shared sub-expression
        return PYOP[t[1]](self.build_ops(t[2]), self.build_ops(t[3]))

    def inline(self, t):
        """the expression a tree with shared sub-expressions stands for (what model and oracle work with)"""
        if t[0] == 'ref':
            return self.defs[t[1]][1]
        if t[0] == 'bin':
            return ('bin', t[1], self.inline(t[2]), self.inline(t[3]))
        return t

    def add_derived(self, how, t, target=None):
        """target: number of an existing attribute to re-define in place (add_component_link(link, label=its id))"""
        from glue.core.component_id import ComponentID
        from glue.core.component_link import ComponentLink
        from glue.core.parse import ParsedCommand, ParsedComponentLink
        lab = self.fresh_label() if target is None else None
        to_id = ComponentID(lab) if target is None else self.objs[target]
        ti = self.inline(t)
        t_real, t = t, ti       # parsed text / user functions work on the inlined expression (no sharing there)
        link0 = None
        if how == 0:
            link = self.build_ops(t_real)
            link0 = link
            self.d.add_component(link, lab if target is None else to_id)
        elif how == 1:
            ids = dedup(leaves(t))
            names = dict((n, self.objs[n].label) for n in ids)
            cmd = tree_str(t, names)
            pc = ParsedCommand(cmd, dict((names[n], self.objs[n]) for n in ids))
            link = ParsedComponentLink(to_id, pc)
            self.d.add_component_link(link, label=None if target is None else to_id)
        else:
            ids = dedup(leaves(t))

            def ev(t, env):
                if t[0] == 'cid':
                    return env[t[1]]
                if t[0] == 'const':
                    return float(t[1])
                return PYOP[t[1]](ev(t[2], env), ev(t[3], env))

            def using(*args):
                args = [np.asarray(a, dtype=float) for a in args]      # the user function computes in 64-bit floats
                with np.errstate(all='ignore'):
                    r = np.asarray(ev(t, dict(zip(ids, args))), dtype=float)
                return r.ravel() if how == 3 else r
            link = ComponentLink([self.objs[n] for n in ids], to_id, using=using)
            self.d.add_component_link(link, label=None if target is None else to_id)
        before = self.next
        self.register_new()
        if target is not None:
            if self.next != before:
                raise RuntimeError('re-defining an attribute in place created a component')
            self.defs[target] = (how, ti)
            self.links.pop(target, None)
            if link0 is not None:
                self.links[target] = link0
            self.linkobj[target] = link
            return target
        if self.next != before + 1:
            raise RuntimeError('add_derived did not create exactly one component')
        self.defs[before] = (how, ti)
        if link0 is not None:
            self.links[before] = link0
        self.linkobj[before] = link
        return before

    def add_alias(self, n):
        """register the link object of attribute n under a second name (add_component_link stamps the link with the new name)"""
        lab = self.fresh_label()
        self.d.add_component_link(self.linkobj[n], lab)
        before = self.next
        self.register_new()
        if self.next != before + 1:
            raise RuntimeError('registering a link under a second name did not create exactly one component')
        self.defs[before] = self.defs[n]
        self.linkobj[before] = self.linkobj[n]
        if n in self.links:
            self.links[before] = self.links[n]
        return before

    def add_targeting(self, how, t, target):
        """a link that says "attribute <target> can be computed as t", registered as a derived attribute under a NEW name"""
        from glue.core.component import DerivedComponent
        from glue.core.component_link import ComponentLink
        from glue.core.parse import ParsedCommand, ParsedComponentLink
        t = self.inline(t)
        ids = dedup(leaves(t))
        to_id = self.objs[target]
        if how == 0:
            link = self.build_ops(t)
            link.set_to_id(to_id)
        elif how == 1:
            names = dict((n, self.objs[n].label) for n in ids)
            link = ParsedComponentLink(to_id, ParsedCommand(tree_str(t, names), dict((names[n], self.objs[n]) for n in ids)))
        else:
            def ev(t, env):
                if t[0] == 'cid':
                    return env[t[1]]
                if t[0] == 'const':
                    return float(t[1])
                return PYOP[t[1]](ev(t[2], env), ev(t[3], env))

            def using(*args):
                args = [np.asarray(a, dtype=float) for a in args]
                with np.errstate(all='ignore'):
                    return np.asarray(ev(t, dict(zip(ids, args))), dtype=float)
            link = ComponentLink([self.objs[n] for n in ids], to_id, using=using)
        self.d.add_component(DerivedComponent(self.d, link), self.fresh_label())
        before = self.next
        self.register_new()
        if self.next != before + 1:
            raise RuntimeError('adding the derived component did not create exactly one component')
        self.defs[before] = (how, t)
        self.linkobj[before] = link
        return before

    # -- oracle
    def expected_full(self, n, memo=None):
        """object array (full shape) of Fraction/None, and boolean array 'exact at every step'"""
        v, ex, dt = self._eval(n, {} if memo is None else memo)
        return v, ex

    def _eval(self, n, memo):
        if n in memo:
            return memo[n]
        shape = tuple(self.spec['shape'])
        if n in self.base:
            memo[n] = (self.base[n], np.ones(shape, dtype=bool), self.dtype.get(n, np.dtype('float64')))
        else:
            how, t = self.defs[n]
            memo[n] = self.eval_tree(t, memo, how)
        return memo[n]

    def eval_tree(self, t, memo, how):
        """-> (values, exact mask, dtype).  The dtype of every node is the one numpy's own type resolution gives for the way
        the UNCHANGED code evaluates that kind of definition: operator links turn a constant into a 64-bit array, parsed text
        leaves it a weak Python scalar, the user functions of this harness compute in float64.  An element is in the exact
        class when every intermediate value is representable in the dtype of its node."""
        shape = tuple(self.spec['shape'])
        if t[0] == 'cid':
            v, ex, dt = self._eval(t[1], memo)
            if how in (2, 3):
                ex = ex & np.array([x is not None and exact_float(x) for x in v.ravel()]).reshape(shape)
                dt = np.dtype('float64')
            return v, ex, dt
        if t[0] == 'const':
            o = np.empty(shape, dtype=object)
            o.ravel()[:] = [t[1]] * int(np.prod(shape))
            isint = len(t) > 2
            if how == 1:
                dt = ('weak', int if isint else float, t[1])
            elif how == 0 and isint:
                dt = np.dtype('int64')
            else:
                dt = np.dtype('float64')
            ok = representable(t[1], np.dtype('int64') if (isint and how != 2 and how != 3) else np.dtype('float64'))
            return o, np.full(shape, bool(ok)), dt
        a, ea, da = self.eval_tree(t[2], memo, how)
        b, eb, db = self.eval_tree(t[3], memo, how)
        dt, ok_all = result_dtype(t[1], da, db, b)
        o = np.empty(shape, dtype=object)
        ex = np.empty(shape, dtype=bool)
        fo, fe = [], []
        for x, y, e1, e2 in zip(a.ravel(), b.ravel(), ea.ravel(), eb.ravel()):
            r = fop(t[1], x, y)
            fo.append(r)
            fe.append(bool(ok_all and e1 and e2 and r is not None and representable(r, dt)))
        o.ravel()[:] = fo
        ex.ravel()[:] = fe
        return o, ex, dt

    def closure(self, n):
        out = {n}
        changed = True
        while changed:
            changed = False
            for m, (how, t) in self.defs.items():
                if m not in out and m in self.live() and any(x in out for x in leaves(t)):
                    out.add(m)
                    changed = True
        return out

    def live(self):
        return set(self.order())


def fr_enc(x):
    return (1, [x.numerator, x.denominator])


def val_enc(x):
    return (0, []) if x is None else fr_enc(x)


def tree_enc(t):
    if t[0] == 'cid':
        return (1, [t[1]])
    if t[0] == 'const':
        return (2, [fr_enc(t[1])])
    return (3, [OPS.index(t[1]), tree_enc(t[2]), tree_enc(t[3])])


def resolve_view(view, shape):
    """numpy basic view -> per-axis model entries ; None if not a basic view of that shape"""
    if view is None:
        return []
    if not isinstance(view, tuple):
        view = (view,)
    out = []
    for e, n in zip(view, shape):
        if isinstance(e, slice):
            out.append((0, list(range(*e.indices(n)))))
        else:
            i = int(e)
            if i < 0:
                i += n
            out.append((1, [i]))
    return out


def view_key(view):
    if view is None:
        return None
    if not isinstance(view, tuple):
        view = (view,)
    return tuple((e.start, e.stop, e.step) if isinstance(e, slice) else int(e) for e in view)


def view_from_key(k):
    if k is None:
        return None
    return tuple(slice(*e) if isinstance(e, (tuple, list)) else int(e) for e in k)


def dec_value(t):
    if is_err(t):
        return ('err', err_code(t))
    k = kids(t)
    if tag(t) == 2:
        return ('scalar', dec_val(k[0]))
    return ('arr', tuple(to_zs(k[0])), [dec_val(x) for x in kids(k[1])])


def dec_val(t):
    if tag(t) == 0:
        return None
    k = kids(t)
    return Fraction(k[0][0], k[1][0])


# ------------------------------------------------------------------ running one case
class Runner(object):
    """applies the steps of a history to a real dataset, one at a time"""

    def __init__(self, spec):
        self.W = World(spec)
        self.res = []

    def do(self, op):
        from glue.core.component_id import ComponentID
        W = self.W
        k = op[0]
        r = {'oracle': []}
        d = W.d
        if k == 'add':
            try:
                n = W.add_derived(op[1], op[2])
                r['new'] = n
                r['tree'] = W.defs[n][1]
            except Exception as e:
                r['error'] = type(e).__name__
            r['structure'] = W.structure()
        elif k == 'remove':
            before = W.order()
            target = op[1]
            exp_removed = W.closure(target) if target in before else set()
            if target in W.objs:
                try:
                    d.remove_component(W.objs[target])
                except Exception as e:      # removing an existing attribute must not fail (a half-done cascade is a violation)
                    r['oracle'].append('remove_component(%d) raised %s' % (target, type(e).__name__))
            after = W.order()
            want = [x for x in before if x not in exp_removed]
            if after != want:
                r['oracle'].append('remove_component(%d): components %r, expected %r (removed set must be %r)' % (target, after, want, sorted(exp_removed)))
            r['structure'] = W.structure()
            r['oracle'] += check_all_values(W, 'after remove_component')
        elif k == 'updid':
            before = W.order()
            old = op[1]
            new = ComponentID(W.fresh_label())
            newn = W.next
            W.num[id(new)] = newn
            W.objs[newn] = new
            W.next += 1
            if old in W.objs:
                d.update_id(W.objs[old], new)
            after = W.order()
            want = [newn if x == old else x for x in before]
            r['new'] = newn
            if after != want:
                r['oracle'].append('update_id(%d -> %d): components %r, expected %r' % (old, newn, after, want))
            if old in before:
                # the oracle's record follows the renaming
                W.defs = dict(((newn if m == old else m), (h, rename_tree(t, old, newn))) for m, (h, t) in W.defs.items())
                if old in W.base:
                    W.base[newn] = W.base.pop(old)
                    W.dtype[newn] = W.dtype.pop(old)
                for table in (W.links, W.linkobj):
                    if old in table:
                        table[newn] = table.pop(old)
            r['structure'] = W.structure()
            r['oracle'] += check_all_values(W, 'after update_id')
        elif k in ('alias', 'addto'):
            before = W.order()
            try:
                n = W.add_alias(op[1]) if k == 'alias' else W.add_targeting(op[1], op[2], op[3])
                r['new'] = n
                r['how'], r['tree'] = W.defs[n]
                if W.order() != before + [n]:
                    r['oracle'].append('adding a derived attribute changed the other components: %r, expected %r' % (W.order(), before + [n]))
            except Exception as e:
                r['error'] = type(e).__name__
            r['structure'] = W.structure()
            r['oracle'] += check_all_values(W, 'after adding a derived attribute')
        elif k == 'redef':
            before = W.order()
            try:
                W.add_derived(op[2], op[3], target=op[1])
                r['tree'] = W.defs[op[1]][1]
            except Exception as e:
                r['error'] = type(e).__name__
            if W.order() != before:
                r['oracle'].append('re-defining attribute %d in place changed the components: %r, expected %r' % (op[1], W.order(), before))
            r['structure'] = W.structure()
            r['oracle'] += check_all_values(W, 'after re-defining an attribute in place')
        elif k == 'reorder':
            want = list(op[1])
            try:
                d.reorder_components([W.objs[i] for i in want])
            except Exception as e:
                r['error'] = type(e).__name__
            if W.order() != want:
                r['oracle'].append('reorder_components: components %r, expected %r' % (W.order(), want))
            r['structure'] = W.structure()
            r['oracle'] += check_all_values(W, 'after reorder_components')
        elif k == 'query':
            r.update(query(W, op[1], view_from_key(op[2])))
        self.res.append(r)
        return r


def run_case_real(case):
    """case: dict(spec, ops) ; ops: ['add', how, tree] | ['remove', n] | ['updid', old] | ['query', n, viewkey]"""
    rn = Runner(case['spec'])
    for op in case['ops']:
        rn.do(op)
    return rn.W, rn.res


def read(W, n, view):
    from glue.core.exceptions import IncompatibleAttribute
    c = W.objs[n]
    with np.errstate(all='ignore'):
        try:
            if view is None:
                got = W.d[c]
            elif isinstance(view, tuple) and all(isinstance(e, (slice, int)) for e in view):
                got = W.d[(c,) + view]
            else:
                got = W.d[c, view]
        except IncompatibleAttribute:
            return ('err', 3)
        except IndexError:
            return ('err', 4)
        except Exception as e:
            return ('err', type(e).__name__)
    return ('val', np.asarray(got, dtype=float))


def compare_values(got, exp, ex):
    """got: float array ; exp: object array of Fraction/None ; ex: exactness mask. returns (n_compared, first mismatch or None)"""
    if tuple(got.shape) != tuple(exp.shape):
        return 0, 'shape %r, expected %r' % (tuple(got.shape), tuple(exp.shape))
    n = 0
    for g, e, x in zip(got.ravel().tolist(), exp.ravel().tolist(), np.asarray(ex).ravel().tolist()):
        if e is None or not x:
            continue
        n += 1
        if not (g == float(e)):
            return n, 'value %r, expected %s' % (g, e)
    return n, None


def base_inputs(W, n, seen=None):
    seen = set() if seen is None else seen
    if n in seen:
        return seen
    seen.add(n)
    if n in W.defs:
        for x in leaves(W.defs[n][1]):
            base_inputs(W, x, seen)
    return seen


def inputs_ok(W, n, view):
    """can every stored / pixel / world attribute the expression rests on be read correctly through this view?
    (a world attribute that cannot is a defect of the coordinate component, decided under C04 / C15, not here)"""
    idx = Ellipsis if view is None else view
    for m in base_inputs(W, n):
        if m not in W.base:
            continue
        rd = read(W, m, view)
        if rd[0] != 'val':
            return False
        try:
            e = W.base[m][idx]
        except IndexError:
            return False
        if not isinstance(e, np.ndarray):
            o = np.empty((), dtype=object)
            o[()] = e
            e = o
        if compare_values(rd[1], e, np.ones(e.shape, dtype=bool))[1] is not None:
            return False
        if isinstance(view, tuple) and len(view) == 1:
            # links hand a one-element tuple on as the bare view object (F-C04a: world attributes mis-read a bare array view)
            rd = read(W, m, view[0])
            if rd[0] != 'val' or compare_values(rd[1], e, np.ones(e.shape, dtype=bool))[1] is not None:
                return False
    return True


def query(W, n, view):
    out = {'oracle': []}
    if n not in W.live():
        out['real'] = read(W, n, view) if n in W.objs else ('err', 3)
        return out
    real = read(W, n, view)
    out['real'] = real
    exp, ex = W.expected_full(n)
    idx = Ellipsis if view is None else view
    try:
        ev, xv = exp[idx], ex[idx]
        inside = True
    except IndexError:
        inside = False
    if not inside:
        if real[0] != 'err':
            out['oracle'].append('view outside the array did not raise')
        return out
    if not isinstance(ev, np.ndarray):      # every axis indexed by an integer: one element
        o = np.empty((), dtype=object)
        o[()] = ev
        ev, xv = o, np.asarray(xv)
    if real[0] != 'val':
        # a stored / pixel / world input that cannot itself be read through this view is not this property's business
        if not inputs_ok(W, n, view):
            out['skip'] = 'an input attribute cannot be read through this view'
            return out
        out['oracle'].append('reading attribute %d with view %r raised %r' % (n, view_key(view), real[1]))
        return out
    cnt, bad = compare_values(real[1], ev, xv)
    out['compared'] = cnt
    out['expected'] = ev
    out['exact'] = xv
    if bad:
        if not inputs_ok(W, n, view):
            out['skip'] = 'an input attribute is not read correctly through this view'
            return out
        out['oracle'].append('attribute %d view %r: %s' % (n, view_key(view), bad))
    return out


def check_all_values(W, when):
    fails = []
    for n in W.order():
        q = query(W, n, None)
        for f in q['oracle']:
            fails.append('%s: %s' % (when, f))
    return fails


def enc_case(case, W, tag_=1):
    ops = []
    for op in case['ops']:
        if op[0] == 'add':
            ops.append((1, [op[3], op[1], tree_enc(op[2])]))
        elif op[0] == 'remove':
            ops.append((2, [op[1]]))
        elif op[0] == 'updid':
            ops.append((3, [op[1], op[2]]))
        elif op[0] == 'redef':
            ops.append((5, [op[1], op[2], tree_enc(op[3])]))
        elif op[0] == 'reorder':
            ops.append((6, [Z(op[1])]))
        else:
            ops.append((4, [op[1], (0, [(1, [e[1][0]]) if e[0] == 1 else (0, e[1]) for e in op[3]])]))
    return enc((tag_, [Z(case['spec']['shape']), (0, [(0, [n, c]) for n, c in W.model_comps]), (0, ops)]))


GEN_OPS = ('remove', 'updid', 'reorder')
GEN_STATS = {'cases': 0, 'ops': 0}


def evaluate(R, cases, stream, done=None):
    """run the cases on implementation, oracle and model; returns failures [(case, kind, detail)]"""
    fails = []
    lines = []
    glines = []
    gidx = []
    reals = []
    for j, case in enumerate(cases):
        W, res = done[j] if done is not None else run_case_real(case)
        # complete the ops with what the model needs (new ids, resolved views)
        mops = []
        ok_model = True
        for op, r in zip(case['ops'], res):
            if op[0] == 'add':
                if 'new' not in r:
                    ok_model = False
                    break
                mops.append(['add', op[1], r['tree'], r['new']])
            elif op[0] in ('alias', 'addto'):
                if 'new' not in r:
                    ok_model = False
                    break
                mops.append(['add', r['how'], r['tree'], r['new']])
            elif op[0] == 'redef':
                if 'tree' not in r:
                    ok_model = False
                    break
                mops.append(['redef', op[1], op[2], r['tree']])
            elif op[0] == 'updid':
                mops.append(['updid', op[1], r['new']])
            elif op[0] == 'query':
                rv = resolve_view(view_from_key(op[2]), case['spec']['shape'])
                mops.append(['query', op[1], op[2], rv])
            else:
                mops.append(op)
        reals.append((W, res, ok_model))
        lines.append(enc_case({'spec': case['spec'], 'ops': mops if ok_model else []}, W))
        # the same case through the code generated from data.py (tag 2), when it has a structural mutation
        if ok_model and any(op[0] in GEN_OPS for op in case['ops']):
            glines.append(enc_case({'spec': case['spec'], 'ops': mops}, W, tag_=2))
            gidx.append(j)
    outs = R.model(lines)
    gouts = R.model(glines) if glines else []
    GEN_STATS['cases'] += len(glines)
    for j, go in zip(gidx, gouts):
        case, (W, res, ok_model) = cases[j], reals[j]
        if is_err(go) or len(kids(go)) != len(res):
            fails.append((case, 'correspondence', {'generated': True, 'model': 'wire error / wrong length from the generated code'}))
            continue
        for i, (op, r, mt) in enumerate(zip(case['ops'], res, kids(go))):
            if op[0] in ('add', 'remove', 'updid', 'redef', 'reorder', 'alias', 'addto'):
                if op[0] in GEN_OPS:
                    GEN_STATS['ops'] += 1
                if is_err(mt):
                    fails.append((case, 'correspondence', {'step': i, 'op': op, 'generated': True, 'model': 'error %r' % err_code(mt), 'impl': r['structure']}))
                    break
                ms = [(kids(x)[0][0], sorted(set(to_zs(kids(x)[1])))) for x in kids(kids(mt)[0])]
                if ms != [(a, b) for a, b in r['structure']]:
                    fails.append((case, 'correspondence', {'step': i, 'op': op, 'field': 'structure (generated code)', 'generated': True,
                                                           'model': ms, 'impl': r['structure']}))
                    break
    for case, (W, res, ok_model), o in zip(cases, reals, outs):
        nq = sum(1 for op in case['ops'] if op[0] == 'query')
        ncmp = sum(r.get('compared', 0) for r in res)
        maxd = max([depth(op[2]) for op in case['ops'] if op[0] in ('add', 'addto')] + [depth(op[3]) for op in case['ops'] if op[0] == 'redef'] + [0])
        R.count(repr((case['spec'], case['ops'])), nontrivial=ncmp > 0 or any(op[0] in ('remove', 'redef', 'reorder', 'updid', 'alias', 'addto') for op in case['ops']), stream=stream, depth=maxd, ndim=len(case['spec']['shape']),
                layout=layouts_of(case['spec']))
        for op in case['ops']:
            R.hist['op_kind'][op[0]] += 1
            if op[0] in ('add', 'redef'):
                R.hist['defined_by'][['operators', 'parsed text', 'user function', 'user function (ravelled)'][op[1] if op[0] == 'add' else op[2]]] += 1
        for i, r in enumerate(res):
            if r.get('oracle'):
                fails.append((case, 'oracle', {'step': i, 'op': case['ops'][i], 'why': r['oracle'][:3]}))
                break
            if 'error' in r:
                fails.append((case, 'oracle', {'step': i, 'op': case['ops'][i], 'why': ['adding the derived attribute raised %s' % r['error']]}))
                break
        if not ok_model:
            continue
        if is_err(o):
            fails.append((case, 'correspondence', {'model': 'wire error %r' % err_code(o)}))
            continue
        mk = kids(o)
        if len(mk) != len(res):
            fails.append((case, 'correspondence', {'model': '%d results for %d ops' % (len(mk), len(res))}))
            continue
        for i, (op, r, mt) in enumerate(zip(case['ops'], res, mk)):
            if op[0] in ('add', 'remove', 'updid', 'redef', 'reorder', 'alias', 'addto'):
                if is_err(mt):
                    fails.append((case, 'correspondence', {'step': i, 'op': op, 'model': 'error %r' % err_code(mt), 'impl': r['structure']}))
                    break
                ms = [(kids(x)[0][0], sorted(set(to_zs(kids(x)[1])))) for x in kids(kids(mt)[0])]
                if ms != [(a, b) for a, b in r['structure']]:
                    fails.append((case, 'correspondence', {'step': i, 'op': op, 'field': 'structure', 'model': ms, 'impl': r['structure']}))
                    break
            else:
                mv = dec_value(kids(mt)[0])
                real = r['real']
                if r.get('skip'):
                    R.hist['query_result']['skipped: input unreadable through the view'] += 1
                    continue
                R.hist['query_result'][real[0] if real[0] == 'err' else 'values'] += 1
                if real[0] == 'err':
                    if mv != ('err', real[1]):
                        fails.append((case, 'correspondence', {'step': i, 'op': op, 'model': mv[:2], 'impl': real}))
                        break
                    continue
                got = real[1]
                if mv[0] == 'err':
                    fails.append((case, 'correspondence', {'step': i, 'op': op, 'model': mv, 'impl': 'values of shape %r' % (got.shape,)}))
                    break
                if mv[0] == 'scalar':
                    mshape, mvals = (), [mv[1]]
                else:
                    mshape, mvals = mv[1], mv[2]
                if tuple(mshape) != tuple(got.shape):
                    fails.append((case, 'correspondence', {'step': i, 'op': op, 'field': 'shape', 'model': mshape, 'impl': got.shape}))
                    break
                ex = np.asarray(r.get('exact', np.ones(got.shape, dtype=bool))).ravel().tolist()
                expv = r['expected'].ravel().tolist() if 'expected' in r else [None] * len(mvals)
                bad = None
                for j, (g, m_, x, e) in enumerate(zip(got.ravel().tolist(), mvals, ex, expv)):
                    if m_ != e:
                        bad = {'field': 'model vs exact evaluation', 'element': j, 'model': str(m_), 'exact': str(e)}
                        break
                    if m_ is None or not x:
                        R.hist['element_class']['non-finite or inexact (not compared)'] += 1
                        continue
                    R.hist['element_class']['exact (compared)'] += 1
                    if not (g == float(m_)):
                        bad = {'field': 'value', 'element': j, 'model': str(m_), 'impl': g}
                        break
                if bad:
                    bad.update(step=i, op=op)
                    fails.append((case, 'correspondence', bad))
                    break
    return fails


def shrink(R, case, kind):
    def fails(c):
        try:
            fl = evaluate(Quiet(R), [c], 'shrink')
        except Exception:
            return None
        for f in fl:
            if f[1] == kind:
                return f
        return None

    class Quiet(object):
        def __init__(self, R):
            self.R = R
            self.hist = R.hist

        def model(self, lines):
            return self.R.model(lines)

        def count(self, *a, **k):
            pass
    best, bf = case, fails(case)
    if bf is None:
        return case, None
    kind0 = (bf[2].get('op') or [None])[0]
    fails0 = fails

    def fails(c):      # the shrunk case must fail at the same kind of step (not because an id no longer exists)
        f = fails0(c)
        if f is not None and (f[2].get('op') or [None])[0] != kind0:
            return None
        if f is not None and any('raised KeyError' in w for w in f[2].get('why', [])):
            return None
        return f
    step = bf[2].get('step')
    if step is not None:
        cand = dict(best, ops=best['ops'][:step + 1])
        f = fails(cand)
        if f:
            best, bf = cand, f
    budget = 40
    progress = True
    while progress and budget > 0:
        progress = False
        for i in reversed(range(len(best['ops']) - 1)):
            budget -= 1
            if budget <= 0:
                break
            cand = dict(best, ops=best['ops'][:i] + best['ops'][i + 1:])
            f = fails(cand)
            if f:
                best, bf = cand, f
                progress = True
    return best, bf


def report(R, fails):
    seen = set()
    for case, kind, detail in fails:
        sig = (kind, repr(detail.get('why', detail.get('field')))[:60])
        if sig in seen or len(seen) > 5:
            continue
        seen.add(sig)
        small, f = shrink(R, case, kind)
        if f is not None:
            case, detail = small, f[2]
        detail = dict(detail)
        if detail.get('op') is not None:
            detail['op'] = jsonable_case({'spec': case['spec'], 'ops': [detail['op']]})['ops'][0]
        R.fail(kind, jsonable_case(case), detail, key=None)


def jsonable_case(case):
    def jt(t):
        if t[0] in ('cid', 'ref'):
            return [t[0], t[1]]
        if t[0] == 'const':
            return ['const', str(t[1])] + list(t[2:])
        return ['bin', t[1], jt(t[2]), jt(t[3])]
    spec = dict(case['spec'])
    spec['stored'] = [[list(st[0]), [str(x) for x in st[1]]] + list(st[2:]) for st in spec['stored']]
    ops = []
    for op in case['ops']:
        if op[0] == 'add':
            ops.append(['add', op[1], jt(op[2])])
        elif op[0] == 'redef':
            ops.append(['redef', op[1], op[2], jt(op[3])])
        elif op[0] == 'addto':
            ops.append(['addto', op[1], jt(op[2]), op[3]])
        else:
            ops.append(list(op))
    return {'spec': spec, 'ops': ops}


def case_from_json(j):
    def tj(t):
        if t[0] in ('cid', 'ref'):
            return (t[0], t[1])
        if t[0] == 'const':
            return ('const', Fraction(t[1])) + tuple(t[2:])
        return ('bin', t[1], tj(t[2]), tj(t[3]))
    spec = dict(j['spec'])
    spec['stored'] = [(tuple(st[0]), [Fraction(x) for x in st[1]]) + tuple(st[2:]) for st in spec['stored']]
    ops = []
    for op in j['ops']:
        if op[0] == 'add':
            ops.append(['add', op[1], tj(op[2])])
        elif op[0] == 'redef':
            ops.append(['redef', op[1], op[2], tj(op[3])])
        elif op[0] == 'addto':
            ops.append(['addto', op[1], tj(op[2]), op[3]])
        elif op[0] == 'query':
            ops.append(['query', op[1], None if op[2] is None else tuple(tuple(e) if isinstance(e, list) else e for e in op[2])])
        else:
            ops.append(list(op))
    return {'spec': spec, 'ops': ops}


# ------------------------------------------------------------------ generators
def all_views(shape, rich=True):
    per_axis = []
    for n in shape:
        es = [0, n - 1, -1, slice(None), slice(1, None), slice(None, None, 2), slice(None, None, -1), slice(0, 0), slice(1, 3)]
        if rich:
            es += [slice(-2, None), slice(None, None, 3)]
        seen, uniq = set(), []
        for e in es:
            k = (e.start, e.stop, e.step) if isinstance(e, slice) else e
            if k not in seen:
                seen.add(k)
                uniq.append(e)
        per_axis.append(uniq)
    views = [None]
    for ln in range(1, len(shape) + 1):
        for v in itertools.product(*per_axis[:ln]):
            views.append(tuple(v))
    return views


def make_spec(rng, shape, coords, nstored=3):
    stored = []
    for j in range(nstored):
        flags = tuple(rng.random() < 0.35 for _ in shape) if j > 0 else tuple(False for _ in shape)
        small_n = int(np.prod([1 if f else n for n, f in zip(shape, flags)]))
        if j == nstored - 1:
            vals = [Fraction(rng.choice([0, 1, 2, 3, -1])) for _ in range(small_n)]     # integer valued: usable as exponent
        else:
            vals = [rng.choice(VALUES) for _ in range(small_n)]
        if not any(flags) and rng.random() < 0.5:
            stored.append((flags, vals, 'float64', rng.choice(LAYOUTS[1:])))     # memory layout is an input dimension of its own
        else:
            stored.append((flags, vals))
    return {'shape': list(shape), 'coords': coords, 'stored': stored}


def random_tree(rng, avail, d, expo=None):
    """avail: list of ids usable as leaves ; expo: ids with integer values"""
    if d == 0 or rng.random() < 0.15:
        if rng.random() < 0.7 and avail:
            return ('cid', rng.choice(avail))
        return ('const', rng.choice(CONSTS))
    op = rng.choice(OPS)
    l = random_tree(rng, avail, d - 1, expo)
    if op == '**':
        if expo and rng.random() < 0.3:
            r = ('cid', rng.choice(expo))
        else:
            r = ('const', Fraction(rng.choice([0, 1, 2, 3, -1, 2])))
    else:
        r = random_tree(rng, avail, d - 1, expo)
    if l[0] == 'const' and r[0] == 'const':
        l = ('cid', rng.choice(avail))
    return ('bin', op, l, r)


def share(rng, t, refs, p=0.35):
    """replace some operands of t by ('ref', m): the link OBJECT of attribute m is re-used as that operand"""
    if t[0] != 'bin':
        return ('ref', rng.choice(refs)) if (refs and rng.random() < p) else t
    if refs and rng.random() < p / 3:
        return ('ref', rng.choice(refs))
    # the exponent of ** stays what the generator chose (a small integer constant or an integer-valued attribute)
    return ('bin', t[1], share(rng, t[2], refs, p), t[3] if t[1] == '**' else share(rng, t[3], refs, p))


def expanded_size(W, t, memo=None):
    """number of nodes of the expression with every shared operand and every derived input written out: what one element
    costs to evaluate (model, oracle and glue itself do not memoise)"""
    memo = {} if memo is None else memo
    if t[0] == 'const':
        return 1
    if t[0] in ('cid', 'ref'):
        n = t[1]
        if n not in W.defs:
            return 1
        if n not in memo:
            memo[n] = expanded_size(W, W.defs[n][1], memo)
        return memo[n]
    return 1 + expanded_size(W, t[2], memo) + expanded_size(W, t[3], memo)


def force_depth(rng, avail, d, expo):
    for _ in range(30):
        t = random_tree(rng, avail, d, expo)
        if depth(t) >= max(1, d - 1):
            return t
    return t


def stream_exhaustive(R):
    """every one-operator expression over every pair of leaves, every way of defining it, every basic view"""
    rng = R.subrng('exh')
    cases = []
    fl_all = []
    ncases = 0
    sample_case = None
    shapes = R.pick([(3,), (2, 3)], [(3,), (2, 3), (3, 1, 2)])
    for shape in shapes:
        for coords in (None, 1):
            spec = make_spec(rng, shape, coords, nstored=3)
            W = World(spec)
            ids = W.order()
            leaves_ = [('cid', n) for n in ids] + [('const', Fraction(2)), ('const', Fraction(0)), ('const', Fraction(-1, 2))]
            views = all_views(shape, rich=not R.quick())
            if len(views) > 160:      # 3-d shapes: a fixed, evenly spread subset of the ~1500 basic views
                step = len(views) // 160 + 1
                views = views[:1] + views[1::step]
            trees = []
            for op in OPS:
                for l in leaves_:
                    for r in leaves_:
                        if l[0] == 'const' and r[0] == 'const':
                            continue
                        trees.append(('bin', op, l, r))
            if R.quick():
                trees = [t for k, t in enumerate(trees) if k % 3 == (len(shape) + (coords or 0)) % 3]
            for k, t in enumerate(trees):
                for how in (0, 1, 2, 3):
                    if how == 3 and k % 4:
                        continue
                    vs = views if (k + how) % R.pick(6, 3) == 0 else [views[(k * 7 + how) % len(views)], None]
                    ops = [['add', how, t]] + [['query', len(ids), view_key(v)] for v in vs]
                    cases.append({'spec': spec, 'ops': ops})
            # evaluate block by block (bounds the memory held by the recorded results)
            for i in range(0, len(cases), 500):
                fl_all.extend(evaluate(R, cases[i:i + 500], 'exhaustive'))
            ncases += len(cases)
            if cases:
                sample_case = cases[len(cases) // 3]
            cases = []
    # constant expressions (parsed text only) with every view
    for shape in shapes:
        spec = make_spec(rng, shape, None, nstored=1)
        nbase = len(shape) + 1
        for t in [('const', Fraction(7, 2)), ('bin', '+', ('const', Fraction(1)), ('const', Fraction(1, 2)))]:
            cases.append({'spec': spec, 'ops': [['add', 1, t]] + [['query', nbase, view_key(v)] for v in all_views(shape, rich=False)]})
    fl_all.extend(evaluate(R, cases, 'exhaustive'))
    ncases += len(cases)
    report(R, fl_all)
    if sample_case is not None:
        R.sample({'stream': 'exhaustive', 'case': jsonable_case(sample_case)})
    R.stream('exhaustive', cases=ncases, exhaustive=True,
             bound='shapes %r x coordinates {none, affine}; every expression "leaf op leaf" over stored (plain and broadcast) / pixel / world '
                   'attributes and 3 constants%s, defined by operators, parsed text, user function (plain / ravelled); all basic views (ints, 6-8 slice forms, '
                   'shorter tuples) for a rotating subset, two views for the rest' % (shapes, ' (one third of them per shape in the quick tier)' if R.quick() else ''))


def stream_random(R):
    n = R.pick(900, 8000)
    cases, done = [], []
    fl = []
    first_case = None
    for i in range(n):
        if len(cases) >= 500:
            fl += evaluate(R, cases, 'random', done=done)
            cases, done = [], []
        rng = R.subrng('rand', i)
        nd = rng.choice([1, 2, 2, 3])
        shape = tuple(rng.choice([1, 2, 3]) for _ in range(nd))
        coords = rng.choice([None, None, 0, 1])
        spec = make_spec(rng, shape, coords, nstored=rng.choice([2, 3]))
        rn = Runner(spec)
        W = rn.W
        expo = [W.order()[-1]]
        ops = []
        views = all_views(shape, rich=True)

        def do(op):
            ops.append(op)
            return rn.do(op)
        for step in range(rng.randint(3, 9)):
            live = W.order()
            derived = [x for x in live if x in W.defs]
            if not live:
                break
            r = rng.random()
            if r < 0.5 or not derived:
                d = rng.choice([1, 2, 2, 3, 3, 4, 4, 5, 5])
                t = force_depth(rng, live, d, [e for e in expo if e in live])
                how = rng.choice([0, 0, 1, 1, 2, 3])
                if how in (2, 3) and not leaves(t):
                    how = 1
                if how == 0 and t[0] == 'const':
                    how = 1
                if how == 0 and t[0] == 'cid':
                    t = ('bin', '*', t, ('const', Fraction(1)))
                refs = [x for x in live if x in W.links]
                if refs and rng.random() < 0.45:
                    # re-use the expression objects of existing attributes as operands (shared links)
                    how = 0
                    t = share(rng, t, refs)
                    if t[0] != 'bin':
                        t = ('bin', rng.choice(['+', '*', '-']), t, ('cid', rng.choice(live)))
                    elif t[2][0] == 'const' and t[3][0] == 'const':
                        t = ('bin', t[1], ('ref', rng.choice(refs)), t[3])
                if expanded_size(W, t) > 2500:
                    continue
                do(['add', how, t])
            elif r < 0.62:
                do(['remove', rng.choice(live)])
            elif r < 0.72:
                tgt = rng.choice(live)
                res = do(['updid', tgt])
                expo = [res['new'] if x == tgt else x for x in expo]
            elif r < 0.84:
                # re-define a derived attribute in place: it may now depend on attributes positioned after it
                tgt = rng.choice(derived)
                avail = [x for x in live if x not in W.closure(tgt)]
                if avail:
                    t = force_depth(rng, avail, rng.choice([1, 2, 3]), [e for e in expo if e in avail])
                    how = rng.choice([0, 1, 2, 3])
                    if t[0] == 'const' or not leaves(t):
                        t = ('bin', '+', ('cid', rng.choice(avail)), t)
                    if how == 0 and t[0] == 'cid':
                        t = ('bin', '*', t, ('const', Fraction(1)))
                    refs = [x for x in avail if x in W.links]
                    if refs and rng.random() < 0.4:
                        how = 0
                        t = share(rng, t, refs)
                        if t[0] != 'bin':
                            t = ('bin', '+', t, ('cid', rng.choice(avail)))
                        elif t[2][0] == 'const' and t[3][0] == 'const':
                            t = ('bin', t[1], ('ref', rng.choice(refs)), t[3])
                    if expanded_size(W, t) <= 2500:
                        do(['redef', tgt, how, t])
            elif r < 0.90:
                perm = list(live)
                rng.shuffle(perm)
                do(['reorder', perm])
            elif r < 0.94:
                do(['alias', rng.choice(derived)])
            elif r < 0.98:
                # a link that targets an existing attribute, registered under a new name
                tgt = rng.choice(live)
                t = force_depth(rng, live, rng.choice([1, 2]), [e for e in expo if e in live])
                how = rng.choice([0, 1, 2])
                if not leaves(t):
                    t = ('bin', '+', ('cid', rng.choice(live)), t)
                if how == 0 and t[0] != 'bin':
                    t = ('bin', '*', t, ('const', Fraction(1)))
                if expanded_size(W, t) <= 2500:
                    do(['addto', how, t, tgt])
            live = W.order()
            derived = [x for x in live if x in W.defs]
            for _ in range(rng.choice([1, 2, 3])):
                if live:
                    tgt = rng.choice(derived) if derived and rng.random() < 0.8 else rng.choice(live)
                    do(['query', tgt, view_key(rng.choice(views))])
        cases.append({'spec': spec, 'ops': ops})
        done.append((W, rn.res))
        if first_case is None:
            first_case = cases[0]
    fl += evaluate(R, cases, 'random', done=done)
    report(R, fl)
    R.sample({'stream': 'random', 'case': jsonable_case(first_case)})
    R.stream('random', cases=n, exhaustive=False,
             bound='seeded histories of 3..9 add / re-define in place / reorder_components (random permutation) / remove / update_id steps with '
                   '1..3 reads each; trees of depth <= 5; shapes of 1..3 axes with lengths 1..3')


def rename_tree(t, old, new):
    if t[0] == 'cid':
        return ('cid', new if t[1] == old else t[1])
    if t[0] == 'const':
        return t
    return ('bin', t[1], rename_tree(t[2], old, new), rename_tree(t[3], old, new))


def stream_closure(R):
    """dependency graphs with every insertion order: remove each input, check the closure"""
    cases = []
    rng = R.subrng('closure')
    spec = make_spec(rng, (3,), None, nstored=2)
    nb = 3    # pixel, s0, s1
    # derived attributes A..D over inputs 1, 2 with a fixed dependency pattern (names are positions in the insertion order)
    patterns = [
        {'A': [1], 'B': ['A'], 'C': ['B', 2], 'D': [2]},
        {'A': [1, 2], 'B': ['A'], 'C': ['A'], 'D': ['B', 'C']},
        {'A': [1], 'B': [2], 'C': ['A', 'B'], 'D': ['C', 1]},
    ]
    for pat in patterns:
        names = sorted(pat)
        for perm in itertools.permutations(names):
            pos = {}
            ok = True
            for k, nm in enumerate(perm):
                if any(isinstance(x, str) and x not in pos for x in pat[nm]):
                    ok = False
                    break
                pos[nm] = nb + k
            if not ok:
                continue
            adds = []
            for k, nm in enumerate(perm):
                ins = [pos[x] if isinstance(x, str) else x for x in pat[nm]]
                t = ('cid', ins[0])
                for x in ins[1:]:
                    t = ('bin', '+', t, ('cid', x))
                if t[0] == 'cid':
                    t = ('bin', '*', t, ('const', Fraction(2)))
                adds.append(['add', [0, 1, 2][k % 3], t])
            for victim in [1, 2] + [pos[nm] for nm in names]:
                cases.append({'spec': spec, 'ops': adds + [['remove', victim]]})
            cases.append({'spec': spec, 'ops': adds + [['updid', 1], ['remove', nb + len(names)]]})
            cases.append({'spec': spec, 'ops': adds + [['updid', pos['A']], ['query', pos[names[-1]], None], ['remove', 2]]})
    # ---- expression objects shared between derived attributes (the same BinaryComponentLink object is registered as an
    #      attribute of its own and re-used as left / right operand of larger expressions; diamonds through sharing)
    c = lambda n: ('cid', n)
    k = lambda q: ('const', Fraction(q))
    b = lambda o, l, r: ('bin', o, l, r)
    rf = lambda n: ('ref', n)
    S, T, U, V, Wd = nb, nb + 1, nb + 2, nb + 3, nb + 4
    defs_shared = {
        'S': b('+', c(1), k(1)),
        'T': b('*', rf(S), c(2)),                 # shared object as LEFT operand
        'U': b('-', c(2), rf(S)),                 # shared object as RIGHT operand
        'V': b('+', rf(T), rf(U)),                # diamond: both operands contain the object of S
        'W': b('-', b('*', rf(S), k(2)), c(1)),   # shared object two levels down on the left
    }
    nshared0 = len(cases)
    for order in (['S', 'T', 'U', 'V', 'W'], ['S', 'U', 'T', 'V', 'W'], ['S', 'W', 'T', 'U', 'V']):
        pos = dict((nm, nb + i) for i, nm in enumerate(order))

        def fix(t):
            if t[0] == 'ref':
                return ('ref', pos['STUVW'[t[1] - nb]])
            if t[0] == 'bin':
                return ('bin', t[1], fix(t[2]), fix(t[3]))
            return t
        adds = [['add', 0, fix(defs_shared[nm])] for nm in order]
        for upto in (2, 3, 5):
            for victim in [1, 2] + [nb + i for i in range(upto)]:
                cases.append({'spec': spec, 'ops': adds[:upto] + [['remove', victim]]})
        cases.append({'spec': spec, 'ops': adds + [['updid', 1], ['remove', 2]]})
        cases.append({'spec': spec, 'ops': adds + [['updid', 2], ['query', pos['V'], None], ['remove', nb + 5]]})
        cases.append({'spec': spec, 'ops': adds + [['updid', pos['S']], ['remove', 2]]})
        cases.append({'spec': spec, 'ops': adds + [['redef', pos['S'], 0, b('*', c(2), k(2))], ['remove', 1]]})
    # ---- links whose target differs from the name they are registered under
    #      (A) one link object registered under two names  (B) a link "target can be computed as ..." to an existing attribute,
    #      registered as a derived attribute under a new name.  Dependencies are the from-ids only.
    for how in (0, 1, 2):
        a_def = b('+', c(1), c(2))
        regs = [['add', how, a_def], ['alias', nb], ['add', 0, b('*', c(nb), k(2))], ['add', 1, b('-', c(nb + 1), k(1))]]
        for victim in range(1, nb + 4):
            cases.append({'spec': spec, 'ops': regs + [['remove', victim]]})
        cases.append({'spec': spec, 'ops': regs[:2] + [['remove', nb]]})
        cases.append({'spec': spec, 'ops': regs[:2] + [['remove', nb + 1]]})
        cases.append({'spec': spec, 'ops': regs + [['updid', nb + 1], ['remove', nb + 4], ['query', nb + 2, None]]})
        cases.append({'spec': spec, 'ops': regs + [['alias', nb + 2], ['remove', nb + 4]]})
        model = [['addto', how, b('*', c(1), k(2)), 2], ['add', 0, b('-', c(nb), c(1))]]       # y_model := 2 x targets y; resid
        for victim in range(1, nb + 2):
            cases.append({'spec': spec, 'ops': model + [['remove', victim]]})
        cases.append({'spec': spec, 'ops': model + [['updid', 2], ['remove', nb + 2]]})
        # a link that targets another DERIVED attribute, and a chain on top of it
        deep = [['add', 0, b('+', c(2), k(1))], ['addto', how, b('*', c(1), c(1)), nb], ['add', 2, b('+', c(nb + 1), k(3))],
                ['add', 0, b('*', c(nb), c(nb + 2))]]
        for victim in range(1, nb + 4):
            cases.append({'spec': spec, 'ops': deep + [['remove', victim]]})
    nshared = len(cases) - nshared0
    # ---- position order decoupled from dependency order (a dependent may precede its input)
    patterns4 = patterns + [{'A': [2], 'B': ['A'], 'C': ['B'], 'D': ['C']}]        # + a chain of depth 4
    ncoupled = len(cases)
    k = None

    def real_tree(pat, nm, pos):
        ins = [pos[x] if isinstance(x, str) else x for x in pat[nm]]
        t = ('cid', ins[0])
        for x in ins[1:]:
            t = ('bin', '+', t, ('cid', x))
        if t[0] == 'cid':
            t = ('bin', '*', t, ('const', Fraction(2)))
        return t

    def topo(pat):
        done, out = set(), []
        while len(out) < len(pat):
            for nm in sorted(pat):
                if nm not in done and all((not isinstance(x, str)) or x in done for x in pat[nm]):
                    done.add(nm)
                    out.append(nm)
        return out
    for pi, pat in enumerate(patterns4):
        names = sorted(pat)
        order = topo(pat)
        for perm in itertools.permutations(names):
            # (a) placeholders in the position order perm, then every attribute re-defined in place in dependency order
            pos = dict((nm, nb + k) for k, nm in enumerate(perm))
            ops = [['add', 0, ('bin', '*', ('cid', 1), ('const', Fraction(1)))] for _ in perm]
            for k, nm in enumerate(order):
                ops.append(['redef', pos[nm], (k + pi) % 4, real_tree(pat, nm, pos)])
            for victim in [1, 2] + [pos[nm] for nm in names]:
                cases.append({'spec': spec, 'ops': ops + [['remove', victim]]})
            # (b) added in dependency order, then reorder_components puts the derived block in the order perm
            pos2 = dict((nm, nb + k) for k, nm in enumerate(order))
            adds = [['add', (k + pi) % 3, real_tree(pat, nm, pos2)] for k, nm in enumerate(order)]
            block = [pos2[nm] for nm in perm]
            layouts = [list(range(nb)) + block]
            if perm == tuple(reversed(order)):
                layouts.append(block + list(reversed(range(nb))))                 # derived attributes before everything else
                layouts.append([block[0], 0, block[1], 1, block[2], 2, block[3]])     # interleaved
            for lay in layouts:
                for victim in [1, 2] + [pos2[nm] for nm in names]:
                    cases.append({'spec': spec, 'ops': adds + [['reorder', lay], ['remove', victim]]})
    fl = []
    for i in range(0, len(cases), 400):
        fl += evaluate(R, cases[i:i + 400], 'closure')
    report(R, fl)
    R.stream('closure', cases=len(cases), exhaustive=True, insertion_order_cases=ncoupled - nshared, shared_expression_cases=nshared,
             decoupled_order_cases=len(cases) - ncoupled,
             bound='dependency patterns of 4 derived attributes over 2 stored ones (two chains of depth 3 and 4, a diamond, a join); (i) every insertion '
                   'order compatible with the dependencies; (ii) every one of the 24 position orders of the derived attributes, reached by re-defining '
                   'placeholders in place (add_component_link(link, label=existing id)) and by reorder_components (derived block permuted, moved in front, '
                   'interleaved), so that dependents precede their inputs; then removal of each attribute / update_id of an input followed by removal')


DTYPES = ['uint8', 'int8', 'uint16', 'int16', 'int32', 'uint32', 'int64', 'float32', 'float64', 'bool']


def dtype_values(dt):
    """three values per dtype: near the upper limit, small, near the lower limit / zero"""
    if dt == 'bool':
        return [1, 0, 1]
    if dt.startswith('float'):
        return [Fraction(3, 2), Fraction(-200), Fraction(16777216 if dt == 'float32' else 2 ** 52)]
    info = np.iinfo(dt)
    return [int(info.max) if info.bits < 64 else 2 ** 40, 3, int(info.min) + (1 if info.min < 0 else 0) if info.bits < 64 else -7]


def stream_dtypes(R):
    """stored attributes of every numeric dtype combined with constants near and beyond the dtype's range"""
    ic = lambda n: ('const', Fraction(n), 'int')
    fc = lambda q: ('const', Fraction(q))
    cases = []
    consts = [ic(1), ic(2), ic(100), ic(300), ic(70000), ic(-1), ic(-129), ic(2 ** 31), ic(2 ** 33), fc(Fraction(1, 2)), fc(2), fc(-3)]
    for di, dt in enumerate(DTYPES):
        other = DTYPES[(di + 3) % len(DTYPES)]
        spec = {'shape': [3], 'coords': None,
                'stored': [((False,), [Fraction(v) for v in dtype_values(dt)], dt),
                           ((False,), [Fraction(v) for v in dtype_values(other)], other),
                           ((False,), [Fraction(2), Fraction(0), Fraction(3)], 'uint8')]}
        x, y, e, new = ('cid', 1), ('cid', 2), ('cid', 3), 4
        trees = []
        for op in OPS:
            for cst in consts:
                if op == '**':
                    if cst[1] < 0 or cst[1] > 3 or cst[1].denominator != 1:
                        continue
                    trees.append(('bin', op, x, cst))
                    if cst[1] in (1, 2):
                        trees.append(('bin', op, cst, e))
                    continue
                trees.append(('bin', op, x, cst))
                trees.append(('bin', op, cst, x))
            if op != '**':
                trees += [('bin', op, x, y), ('bin', op, y, x), ('bin', op, ('cid', 0), x),
                          ('bin', op, ('bin', '*', x, ic(2)), y), ('bin', op, ('bin', '+', x, ic(300)), ic(3)),
                          ('bin', op, x, ('bin', '-', ic(1000), y))]
        for ti, t in enumerate(trees):
            hows = [0] if ti % 3 else [0, 1, 2]
            for how in hows:
                if how == 1 and any(leaf_weak_overflow(c_, dt, other) for c_ in consts_of(t)):
                    continue      # numpy refuses a Python integer that does not fit the operand's dtype (OverflowError): not an expression value
                q = [['query', new, None]] + ([['query', new, view_key((slice(None, None, -2),))]] if ti % 4 == 0 else [])
                cases.append({'spec': spec, 'ops': [['add', how, t]] + q})
    fl = []
    for i in range(0, len(cases), 600):
        fl += evaluate(R, cases[i:i + 600], 'dtypes')
    report(R, fl)
    R.sample({'stream': 'dtypes', 'case': jsonable_case(cases[7])})
    R.stream('dtypes', cases=len(cases), exhaustive=True,
             bound='stored attributes of dtype %s (values at the limits of the dtype) x {attribute op constant, constant op attribute} for 12 constants '
                   '(Python ints up to 2**33 and floats, near and beyond the dtype range), attribute op attribute of another dtype, pixel op attribute, '
                   'three nested forms; defined by operators (all), parsed text / user function (every third); exact class = every intermediate fits the '
                   'dtype numpy resolves for the way the unchanged code evaluates that kind of definition' % ', '.join(DTYPES))


def stream_layout(R):
    """memory layout of the stored arrays: every pair of layouts for the two inputs of a link, 2-d and 3-d, all three kinds of definition,
    nested user functions, pixel inputs, every kind of basic view"""
    fc = lambda q: ('const', Fraction(q))
    cases = []
    for shape in ([2, 3], [2, 3, 2]):
        nd = len(shape)
        n = int(np.prod(shape))
        va = [Fraction(k + 1) for k in range(n)]
        vb = [Fraction((k * k) % 7, 2) for k in range(n)]
        flags = tuple(False for _ in shape)
        bflags = tuple(k == 0 for k in range(nd))
        vc = [Fraction(k - 1) for k in range(n // shape[0])]
        views = [None, tuple(slice(None, None, -1) for _ in shape), (slice(1, None),) + tuple(slice(None) for _ in shape[1:]),
                 (0,), tuple(slice(None) for _ in shape[:-1]) + (shape[-1] - 1,), (slice(None), slice(None, None, 2))]
        for la in LAYOUTS:
            for lb in LAYOUTS:
                spec = {'shape': shape, 'coords': None,
                        'stored': [(flags, va, 'float64', la), (flags, vb, 'float64', lb), (bflags, vc)]}
                a, b, c, pix = ('cid', nd), ('cid', nd + 1), ('cid', nd + 2), ('cid', nd - 1)
                new = nd + 3
                trees = [('bin', '+', a, ('bin', '*', b, fc(100))), ('bin', '-', ('bin', '*', a, pix), ('bin', '/', b, fc(2))),
                         ('bin', '+', ('bin', '*', c, b), a)]
                for ti, t in enumerate(trees):
                    for how in (0, 1, 2):
                        q = [['query', new, None if v is None else view_key(v)] for v in views]
                        cases.append({'spec': spec, 'ops': [['add', how, t]] + q})
                # a user function over a user function over the two layouts
                for how2 in (2, 0, 1):
                    ops = [['add', 2, ('bin', '*', a, fc(3))], ['add', how2, ('bin', '-', ('cid', new), b)]]
                    ops += [['query', new + 1, None if v is None else view_key(v)] for v in views[:4]]
                    cases.append({'spec': spec, 'ops': ops})
    fl = []
    for i in range(0, len(cases), 400):
        fl += evaluate(R, cases[i:i + 400], 'layout')
    report(R, fl)
    R.sample({'stream': 'layout', 'case': jsonable_case(cases[40])})
    R.stream('layout', cases=len(cases), exhaustive=True,
             bound='stored arrays held in memory as %s (same logical values): every ordered pair of layouts for the two inputs of a link, next to '
                   'a stride-0 (broadcast) input and a pixel attribute, on 2 x 3 and 2 x 3 x 2 datasets; defined by operators / parsed text / user '
                   'function, and a user function nested in each of the three; read whole and through reversed, sliced, integer and strided '
                   'views; in the model a stored array is its logical row-major value list, so a dependence on the layout is a disagreement'
                   % ', '.join(LAYOUTS))


def consts_of(t):
    if t[0] == 'const':
        return [t]
    if t[0] == 'bin':
        return consts_of(t[2]) + consts_of(t[3])
    return []


def leaf_weak_overflow(cst, *dts):
    if len(cst) <= 2:
        return False
    for dt in dts:
        if dt == 'bool' or dt.startswith('float'):
            continue
        if not representable(cst[1], np.dtype(dt)):
            return True
    return not representable(cst[1], np.dtype('uint8'))


def stream_fancy(R):
    """oracle only: index arrays and boolean masks"""
    from glue.core.component_id import ComponentID
    n = 0
    bad = []
    for i in range(R.pick(30, 200)):
        rng = R.subrng('fancy', i)
        shape = tuple(rng.choice([2, 3]) for _ in range(rng.choice([1, 2])))
        spec = make_spec(rng, shape, rng.choice([None, 1]), nstored=2)
        W = World(spec)
        live = W.order()
        t = force_depth(rng, live, rng.choice([1, 2, 3]), [live[-1]])
        how = rng.choice([0, 1, 2])
        if not leaves(t):
            how = 1
        if how == 0 and t[0] != 'bin':
            continue
        try:
            nn = W.add_derived(how, t)
        except Exception as e:
            bad.append(({'spec': spec, 'ops': [['add', how, t]]}, 'adding raised %s' % type(e).__name__))
            continue
        exp, ex = W.expected_full(nn)
        mask = np.array([rng.random() < 0.6 for _ in range(int(np.prod(shape)))]).reshape(shape)
        index = tuple(np.array([rng.randrange(s) for _ in range(4)]) for s in shape)
        for view in (mask, index):
            n += 1
            rd = read(W, nn, view)
            if not inputs_ok(W, nn, view):
                R.count(('fancy', i, view is mask), nontrivial=False, stream='fancy-oracle-only', fancy='skipped: an input is not read correctly through the view')
                continue
            if rd[0] != 'val':
                bad.append(({'spec': spec, 'ops': [['add', how, t]], 'view': 'mask' if view is mask else 'index arrays'}, 'reading raised %r' % (rd[1],)))
                continue
            got = rd[1]
            cnt, b = compare_values(got, exp[view], ex[view])
            R.count(('fancy', i, view is mask), nontrivial=cnt > 0, stream='fancy-oracle-only')
            if b:
                bad.append(({'spec': spec, 'ops': [['add', how, t]], 'view': 'mask' if view is mask else 'index arrays'}, b))
    for case, why in bad[:3]:
        c = jsonable_case({'spec': case['spec'], 'ops': case['ops']})
        c['view'] = case.get('view')
        R.fail('oracle', c, {'why': [why]}, key=None)
    R.stream('fancy-oracle-only', cases=n, exhaustive=False, bound='boolean masks and integer index arrays on random derived attributes (oracle only)')


def run(R):
    R.rule = ('a case is a dataset (shape, coordinates, stored arrays with a chosen broadcast structure) plus a history of add-derived / remove / '
              'update_id / read steps; non-trivial when at least one element was compared exactly; distinct = distinct (dataset, history)')
    stream_closure(R)
    stream_layout(R)
    stream_dtypes(R)
    stream_exhaustive(R)
    stream_random(R)
    stream_fancy(R)
    c14_syntax.stream(R)
    R.stream('generated-code', cases=GEN_STATS['cases'], exhaustive=True, structural_ops=GEN_STATS['ops'],
             bound='every case of the streams above that has a remove_component / update_id / reorder_components step, re-run with these '
                   'three taken from coq/gen/Gen_datamut.v (translated from data.py) instead of the hand-written model; structure compared '
                   'with the implementation after every step')


def replay(R, case):
    if isinstance(case, dict) and case.get('kind') == 'syntax':
        return c14_syntax.replay(R, case)
    c = case_from_json(case)
    out = {'case': case}
    W, res = run_case_real(c)
    out['implementation'] = [{'op': jsonable_case({'spec': c['spec'], 'ops': [o]})['ops'][0], 'structure': r.get('structure'),
                              'result': (r['real'][1].tolist() if r.get('real', ('',))[0] == 'val' else r.get('real')),
                              'oracle': r.get('oracle')} for o, r in zip(c['ops'], res)]
    out['violates'] = any(r.get('oracle') or 'error' in r for r in res)
    if R.model_available:
        fl = evaluate(R, [c], 'replay')
        out['model_differences'] = [f[2] for f in fl if f[1] == 'correspondence']
    return out
