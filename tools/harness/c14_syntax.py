"""
C14 -- the surface syntax of parsed text expressions (glue/core/parse.py: TAG_RE, _validate, _dereference, _reference_list,
ParsedCommand, ParsedComponentLink, ParsedSubsetState).

A case is a small dataset whose attributes carry labels from a pool of awkward but legal names (inner blanks, brackets,
regular-expression metacharacters, quotes, unicode, one label a prefix of another), an arithmetic expression tree over
them, and for every reference in the rendered command a *spelling*: the blanks (any character class \\s accepts) between
the curly brackets and the name, and whether operators are set off by blanks.  The grammar of parse.py accepts all of them.

Oracle (the property, independent of the model): the attribute defined by the command evaluates, on the whole dataset
and through views, to the expression applied elementwise to the current values of the named inputs (the same numpy
operations in the same association order, so the comparison is exact); its inputs are exactly the referenced
attributes and it is removed with them; re-validating the rewritten command (what restoring a session does) changes
nothing; a ParsedSubsetState over the same command selects exactly the elements the expression says.

Correspondence: the tokenizer and the _validate rewrite of the model (coq/gen/Gen_parse.v + coq/C14/ParseModel.v) against
TAG_RE.finditer and parse._validate on every small string over { } blank a b and on the commands of the cases.
"""
import itertools
import operator
import warnings

import numpy as np

from harness.common import enc, Z, kids, tag, to_zs, is_err, err_code

PYOP = {'+': operator.add, '-': operator.sub, '*': operator.mul, '/': operator.truediv}
PADS = ['', ' ', '  ', '\t', '\n', ' \t ', '\u00a0', '\u2003 ']
LABELS = ['x', 'y', 'a', 'ab', 'a b', 'a  b', 'f(x)', 'v[0]', 'a.b', 'a*', 'x+y', 'a|b', '^p$', 'w\\d', 'q"r', "s't", '50%',
          'a\\b', '\u03b1', '\u00e9 t', '\u6e29\u5ea6', '-', '1', 'x:y', 'a,b', 'data', '__view', 'np', 'a\tb', 'x\u00a0y']
MODEL_READY = True
VIEWS = [None, (slice(None), slice(1, 3)), (1, slice(None)), (slice(None, None, -1), 0), 'mask', 'index']


def make_data(shape, labels):
    from glue.core import Data
    d = Data(label='d')
    size = int(np.prod(shape))
    for j, lab in enumerate(labels):
        arr = ((np.arange(size) * (j + 2)) % 7 - 2.0 + 0.5 * j).reshape(shape)
        d.add_component(arr, lab)
    return d


def comp_list(d):
    """the attributes a command may reference: stored ones first (in order), then the pixel attributes"""
    stored = [c for c in d.main_components]
    return stored + list(d.pixel_component_ids)


def leaves(t):
    if t[0] == 'cid':
        return [t[1]]
    if t[0] == 'const':
        return []
    return leaves(t[2]) + leaves(t[3])


def render(t, comps, spell, sp):
    """spell: iterator of (left pad, right pad) consumed leaf by leaf, left to right; sp: blank around operators"""
    if t[0] == 'cid':
        l, r = next(spell)
        return '{' + l + comps[t[1]].label + r + '}'
    if t[0] == 'const':
        return '(%r)' % (t[1],)
    a = render(t[2], comps, spell, sp)
    b = render(t[3], comps, spell, sp)
    return '(' + a + sp + t[1] + sp + b + ')'


def direct(t, vals):
    if t[0] == 'cid':
        return vals[t[1]]
    if t[0] == 'const':
        return t[1]
    return PYOP[t[1]](direct(t[2], vals), direct(t[3], vals))


def same(a, b):
    a, b = np.asarray(a), np.asarray(b)
    return a.shape == b.shape and bool(np.array_equal(a, b, equal_nan=True))


def view_of(v, shape):
    if v == 'mask':
        m = (np.arange(int(np.prod(shape))) % 3 != 1).reshape(shape)
        return m
    if v == 'index':
        return tuple(np.array([0, s - 1, 0]) for s in shape)
    return v


def command_of(case, d=None):
    d = d or make_data(tuple(case['shape']), case['labels'])
    comps = comp_list(d)
    return render(case['tree'], comps, iter([tuple(s) for s in case['spell']]), case['sp'])


def run_case(case):
    """-> (list of oracle failures, info for the correspondence: (cmd, refs labels, uuids, cmd_new or None))"""
    from glue.core.component_id import ComponentID
    from glue.core.parse import ParsedCommand, ParsedComponentLink, ParsedSubsetState
    why = []
    shape = tuple(case['shape'])
    d = make_data(shape, case['labels'])
    comps = comp_list(d)
    cmd = command_of(case, d)
    refs = dict((c.label, c) for c in d.components)
    info = {'cmd': cmd, 'refs': [(c.label, c.uuid) for c in d.components], 'cmd_new': None, 'error': None}
    with warnings.catch_warnings(), np.errstate(all='ignore'):
        warnings.simplefilter('ignore')
        vals = [np.asarray(d[c]) for c in comps]
        exp = direct(case['tree'], vals)
        used = sorted(set(leaves(case['tree'])))
        try:
            pc = ParsedCommand(cmd, refs)
            info['cmd_new'] = pc._cmd
            info['refs_new'] = sorted(pc._references.keys())
            out = ComponentID('out')
            link = ParsedComponentLink(out, pc)
            d.add_component_link(link)
        except Exception as e:
            info['error'] = type(e).__name__
            return ['defining the attribute by %r raised %s: %s' % (cmd, type(e).__name__, str(e)[:80])], info
        try:
            for v in VIEWS:
                vw = view_of(v, shape)
                got = d[out] if vw is None else d[out, vw]
                want = exp if vw is None else exp[vw]
                if not same(got, want):
                    why.append('command %r, view %r: got %r, the expression gives %r' % (cmd, v, np.asarray(got).tolist(), np.asarray(want).tolist()))
                    break
            pos = dict((id(c), k) for k, c in enumerate(comps))
            ins = sorted(set(pos.get(id(c), -1) for c in link.get_from_ids()))
            if ins != used or len(link.get_from_ids()) != len(used):
                why.append('command %r: inputs of the link are attributes %r, the command names %r' % (cmd, ins, used))
            # what restoring a session does: the rewritten command is validated again against the rewritten table
            pc2 = ParsedCommand(pc._cmd, pc._references)
            if pc2._cmd != pc._cmd or not same(pc2.evaluate(d), exp):
                why.append('command %r: re-validating the rewritten command %r changed it or its value' % (cmd, pc._cmd))
            if pc.render() != render(case['tree'], comps, itertools.repeat(('', '')), case['sp']):
                why.append('command %r: render() gives %r' % (cmd, pc.render()))
            # a subset state over the same expression
            thr = case.get('thr', 1)
            st = ParsedSubsetState(ParsedCommand(cmd + ' > (%r)' % (thr,), refs))
            for v in (None, VIEWS[1]):
                got = st.to_mask(d) if v is None else st.to_mask(d, v)
                want = (exp > thr) if v is None else (exp > thr)[v]
                if not same(got, want):
                    why.append('subset state %r, view %r: wrong mask' % (cmd + ' > (%r)' % (thr,), v))
                    break
            # the attribute goes with its inputs
            stored_used = [k for k in used if k < len(case['labels'])]
            if stored_used:
                d.remove_component(comps[stored_used[0]])
                if any(c is out for c in d.components):
                    why.append('command %r: the attribute survived the removal of its input %r' % (cmd, comps[stored_used[0]].label))
        except Exception as e:
            why.append('command %r: evaluating raised %s: %s' % (cmd, type(e).__name__, str(e)[:80]))
    return why, info


# ------------------------------------------------------------------ generators
def random_tree(rng, n, depth):
    if depth == 0 or rng.random() < 0.25:
        if rng.random() < 0.8:
            return ['cid', rng.randrange(n)]
        return ['const', rng.choice([2, 3, -1, 0.5, 1.5, 0, 4])]
    t = ['bin', rng.choice(['+', '-', '*', '/']), random_tree(rng, n, depth - 1), random_tree(rng, n, depth - 1)]
    if not leaves(t):       # constant-only arithmetic is Python's (ZeroDivisionError etc.), not the attribute's: always name an input
        t[2] = ['cid', rng.randrange(n)]
    return t


def exhaustive_cases():
    cases = []
    pads = PADS[:5]
    # one reference, every spelling, three kinds of label (plain, inner blank, the pixel attribute)
    for labs, k in ((['x'], 0), (['a b', 'a'], 0), (['x'], 2)):
        for l in PADS:
            for r in PADS:
                cases.append({'kind': 'syntax', 'shape': [3, 4], 'labels': labs, 'tree': ['bin', '*', ['cid', k], ['const', 2]],
                              'spell': [[l, r]], 'sp': ' '})
    # the same attribute twice, spelled in two ways (and a label that is a prefix of the other one next to it)
    for l1, r1, l2, r2 in itertools.product(pads[:4], repeat=4):
        cases.append({'kind': 'syntax', 'shape': [2, 3], 'labels': ['a', 'ab'],
                      'tree': ['bin', '-', ['bin', '*', ['cid', 0], ['const', 3]], ['bin', '+', ['cid', 0], ['cid', 1]]],
                      'spell': [[l1, r1], [l2, r2], [r1, l2]], 'sp': ''})
    # every label of the pool, padded and unpadded, operators with and without blanks
    for lab in LABELS:
        for sp in ('', ' '):
            for l, r in (('', ''), (' ', ' '), ('', '\t'), ('\n', '')):
                other = 'y' if lab != 'y' else 'x'
                cases.append({'kind': 'syntax', 'shape': [2, 3], 'labels': [lab, other],
                              'tree': ['bin', '/', ['bin', '+', ['cid', 0], ['cid', 1]], ['bin', '-', ['cid', 0], ['const', 0.5]]],
                              'spell': [[l, r], ['', ''], [r, l]], 'sp': sp})
    return cases


def random_case(rng):
    nd = rng.choice([1, 2, 2])
    shape = [rng.choice([2, 3, 4]) for _ in range(nd)]
    if nd == 1:
        shape = [3, 2]      # the fixed views index two axes
    labels = rng.sample(LABELS, rng.choice([1, 2, 3]))
    n = len(labels) + len(shape)
    t = random_tree(rng, n, rng.choice([1, 2, 3]))
    if not leaves(t):
        t = ['bin', '+', ['cid', 0], t]
    spell = [[rng.choice(PADS) if rng.random() < 0.6 else '', rng.choice(PADS) if rng.random() < 0.6 else ''] for _ in leaves(t)]
    return {'kind': 'syntax', 'shape': shape, 'labels': labels, 'tree': t, 'spell': spell, 'sp': rng.choice(['', ' ', '  ']),
            'thr': rng.choice([0, 1, 2.5])}


def shrink(case):
    """a smaller case that still fails the oracle: a single reference with one of the case's spellings"""
    for k, sp in zip(leaves(case['tree']), case['spell']):
        c = dict(case, tree=['bin', '*', ['cid', k], ['const', 2]], spell=[sp])
        why, _ = run_case(c)
        if why:
            return c, why
    return case, None


# ------------------------------------------------------------------ correspondence of the tokenizer / _validate model
def codes(s):
    return [ord(ch) for ch in s]


def enc_tok_case(cmd):
    return enc((3, [Z(codes(cmd))]))


def enc_val_case(cmd, refs):
    """refs: [(label, uuid)]"""
    return enc((4, [Z(codes(cmd)), (0, [(0, [Z(codes(l)), Z(codes(u))]) for l, u in refs])]))


def real_tokens(cmd):
    from glue.core.parse import TAG_RE
    return [(m.start(), m.end(), m.group('tag')) for m in TAG_RE.finditer(cmd)]


def real_validate(cmd, refs):
    from glue.core import parse

    class Obj(object):
        def __init__(self, u):
            self.uuid = u
    table = dict((l, Obj(u)) for l, u in refs)
    try:
        new, refs_new = parse._validate(cmd, table)
    except parse.InvalidTagError:
        return ('invalid-tag',)
    return ('ok', new, sorted(refs_new.keys()))


def dec_tokens(t):
    """model answer to tag 3: (0 (0 start end tagcodes)...)"""
    return [(kids(x)[0][0], kids(x)[1][0], ''.join(chr(c) for c in to_zs(kids(x)[2]))) for x in kids(t)]


def dec_validate(t):
    if is_err(t):
        return ('invalid-tag',) if err_code(t) == 1 else ('ERR', err_code(t))
    k = kids(t)
    return ('ok', ''.join(chr(c) for c in to_zs(k[0])), sorted(''.join(chr(c) for c in to_zs(x)) for x in kids(k[1])))


def dec_validate_tokens(t):
    """third component of the answer: the command re-assembled from the rewrite on token lists"""
    if is_err(t):
        return None
    k = kids(t)
    return None if is_err(k[2]) else ''.join(chr(c) for c in to_zs(k[2]))


def small_strings(maxlen):
    alpha = ['{', '}', ' ', 'a', 'b']
    for n in range(maxlen + 1):
        for tup in itertools.product(alpha, repeat=n):
            yield ''.join(tup)


def stream(R):
    fails = []
    cases = exhaustive_cases()
    nex = len(cases)
    for i in range(R.pick(400, 3000)):
        cases.append(random_case(R.subrng('syntax', i)))
    infos = []
    for j, case in enumerate(cases):
        why, info = run_case(case)
        infos.append(info)
        padded = sum(1 for l, r in case['spell'] if l or r)
        R.count(('syntax', repr(case)), nontrivial=True, stream='syntax', padded_references=min(padded, 3),
                op_kind='parsed command (spelling)')
        if why:
            fails.append((case, why))
    if len(cases) > 3:
        R.sample({'syntax_case': cases[nex + 1], 'command': infos[nex + 1]['cmd']})
    seen = set()
    for case, why in fails:
        sig = why[0].split(':')[0][:40] + repr(why[0].split(' raised ')[-1][:30])
        if sig in seen or len(seen) >= 3:
            continue
        seen.add(sig)
        small, w2 = shrink(case)
        if w2:
            case, why = small, w2
        c = dict(case, command=command_of(case))
        R.fail('oracle', c, {'why': why[:3]}, key=None)
    R.stream('syntax', cases=len(cases), exhaustive_part=nex, exhaustive=False,
             bound='spellings of references in parsed commands: every pair of paddings from %d blank strings on one reference, two spellings '
                   'of one attribute, %d awkward labels; random trees of depth <= 3 with random spellings; oracle = exact value on 6 views, '
                   'inputs, removal with the input, re-validation, subset state' % (len(PADS), len(LABELS)))
    # ---- correspondence of the model's tokenizer and _validate
    if not (MODEL_READY and getattr(R, 'model_available', False)):
        return
    strings = list(small_strings(R.pick(6, 7)))
    rng = R.subrng('syntax-strings')
    alpha2 = ['{', '}', ' ', '\t', 'a', 'b', 'c', '{a}', '{ b }', '{a b}', '\n', ' ', '+', '(', ')']
    for i in range(R.pick(3000, 20000)):
        strings.append(''.join(rng.choice(alpha2) for _ in range(rng.randrange(1, 14))))
    strings += [info['cmd'] for info in infos]
    outs = R.model([enc_tok_case(s) for s in strings])
    bad = 0
    for s, o in zip(strings, outs):
        real = real_tokens(s)
        mod = dec_tokens(o) if not is_err(o) else ('ERR', err_code(o))
        if mod != real:
            bad += 1
            if bad <= 2:
                R.fail('correspondence', {'kind': 'tokens', 'string': s}, {'field': 'TAG_RE.finditer', 'model': mod, 'impl': real})
    R.stream('syntax-tokenizer', cases=len(strings), exhaustive=True,
             bound='every string of length <= %d over { } blank a b, plus random strings over a richer alphabet and the commands of the '
                   'syntax stream: spans and tags of TAG_RE.finditer vs the model tokenizer' % R.pick(6, 7))
    # _validate: reference tables over a, b, 'a b' with uuid-like names
    table = [('a', 'u1-a'), ('b', 'u2'), ('a b', 'u3'), ('u2', 'u4')]
    vcases = [(s, table) for s in strings[:len(strings) - len(infos)] if '{' in s and '}' in s]
    vcases = vcases[:R.pick(12000, 60000)]
    vcases += [(info['cmd'], info['refs']) for info in infos]
    outs = R.model([enc_val_case(s, t) for s, t in vcases])
    bad = 0
    for (s, t), o in zip(vcases, outs):
        real = real_validate(s, t)
        mod = dec_validate(o)
        if mod != real:
            bad += 1
            if bad <= 2:
                R.fail('correspondence', {'kind': 'validate', 'string': s, 'refs': t}, {'field': 'parse._validate', 'model': mod, 'impl': real})
        elif real[0] == 'ok' and dec_validate_tokens(o) != real[1]:
            bad += 1
            if bad <= 2:
                R.fail('correspondence', {'kind': 'validate', 'string': s, 'refs': t},
                       {'field': 'parse._validate vs the rewrite on token lists', 'model': dec_validate_tokens(o), 'impl': real[1]})
    R.stream('syntax-validate', cases=len(vcases), exhaustive=True,
             bound='parse._validate (rewritten command, keys of the new reference table, InvalidTagError) vs the code generated from it '
                   '(coq/gen/Gen_parse.v), on the strings above that contain both brackets, with a table in which one label is the uuid of '
                   'another entry, and on the commands of the syntax stream with the real uuids')


def replay(R, case):
    why, info = run_case(case)
    return {'case': case, 'command': info['cmd'], 'rewritten': info['cmd_new'], 'oracle': why, 'violates': bool(why)}
