"""C13 — undo restores the previous session state and redo restores the undone one.

Implementation side: a real Session (DataCollection + EditSubsetMode + CommandStack) and the real command classes
AddData / RemoveData / ApplySubsetState / ApplyROI, driven by sequences of do / undo / redo.
Model side: coq/C13/Model.v (`run_case`), observation after every step.
Oracle (independent of the model): a shadow stack of observable snapshots; every successful undo must give back the
snapshot taken before the command's do, every successful redo the one taken before its undo; the command stack
never exceeds command.MAX_UNDO and a do empties the redo stack; the C06 invariant holds after every step.
"""
import itertools

from harness.common import enc
from harness import c06

PROP = 'C13'
# gen_groups: C06.Model (imported by the C13 model) uses Gen_groups; gen_combine: the mode functions Gen_commands calls
GENERATORS = ['gen_command', 'gen_cmdstack', 'gen_groups', 'gen_combine', 'gen_commands']
TRUSTED = [
    'hand model coq/C13/Model.v of CommandStack.do/undo/redo, AddData, RemoveData, ApplySubsetState/ApplyROI (do and undo) and '
    'EditSubsetMode._combine_data over the C06 model of the data collection (tied by correspondence on the explored sequences)',
    'tools/gen/gen_command.py reads MAX_UNDO and the truncation slice of CommandStack.do from the current source (ast, fail-closed) into coq/gen/Gen_command.v',
    'tools/gen/gen_cmdstack.py translates CommandStack.do/undo/redo statement by statement (fail-closed) into coq/gen/Gen_cmdstack.v; theorem stack_refines_generated ties the model to that text',
    'tools/gen/gen_commands.py translates, statement by statement (fail-closed), _snapshot_subsets, _restore_subsets, do/undo of AddData, RemoveData, ApplyROI, ApplySubsetState '
    '(command.py), EditSubsetMode.update/_combine_data/_broadcast/edit_subset (edit_subset_mode.py) and DataCollection.__contains__ into coq/gen/Gen_commands.v over the heap of '
    'Gen_groups and the mode functions of Gen_combine; C13/GenEquiv*.v prove that these make the steps of the hand model and the theorems are re-stated on them; the translator '
    'itself, its typing of variables (a command\'s data_collection is the session\'s; every subset is a GroupedSubset) and the checked facts about the surrounding code are trusted',
    'selections are expression trees over atomic states (ElementSubsetState on 4-element datasets); masks of the model are bitwise operations on 4 bits; '
    'numpy evaluation of the real states is the platform',
    'ApplyROI is driven with an apply_func that calls EditSubsetMode.update with the state built from the region (what viewers do); it is the same model command as ApplySubsetState',
]
ASSUMPTIONS = [
    'observable state = set of datasets in the collection, the live subset groups in order with their selection (structure and mask on every dataset) and their '
    'members, and the edit-subset choice; group identity is up to renaming (a redone selection creates a new group object), counters (_sg_count), auto labels '
    'and colours are not observable',
    'order of datasets inside the collection is not observable (undoing RemoveData appends the dataset at the end)',
    'the session edit mode and the edit-subset choice are changed only by commands during a sequence (they are set freely before it starts)',
    'commands other than AddData / RemoveData / ApplySubsetState / ApplyROI (viewer and layer commands) are outside this property',
]

MODES = ['replace', 'and', 'or', 'xor', 'andnot', 'new']

# session ops: ('do', cmd) | ('undo',) | ('redo',)
# cmd: ('add', d) | ('rem', d) | ('apply', e, ov|None, use_roi)


def enc_cmd(c, gen=False):
    if c[0] == 'add':
        return (1, [c[1]])
    if c[0] == 'rem':
        return (2, [c[1]])
    ov = (0, []) if c[2] is None else (1, [MODES.index(c[2])])
    return (4 if gen and c[3] else 3, [c06.enc_expr(c[1]), ov])


def enc_sop(o, gen=False):
    if o[0] == 'do':
        return (1, [enc_cmd(o[1], gen)])
    return (2, []) if o[0] == 'undo' else (3, [])


def case_line(case, ncolors, gen=False):
    """tag 1: the hand model; tag 2 (gen): the machine made of the functions translated from command.py / edit_subset_mode.py"""
    return enc((2 if gen else 1, [case['pool'], ncolors, MODES.index(case['mode']), (0, [c06.enc_op(o) for o in case['pre']]),
                                  (0, list(case['edit'])), (0, [enc_sop(o, gen) for o in case['ops']])]))


def both_lines(cases, ncolors):
    return [case_line(c, ncolors) for c in cases] + [case_line(c, ncolors, gen=True) for c in cases]


def cmd_key(c):
    """what is compared about a command sitting on a stack"""
    if c[0] in ('add', 'rem'):
        return (c[0], c[1])
    return ('apply', c[1], c[2])


def dec_cmd_tree(t):
    tg, ks = t
    if tg == 1:
        return ('add', ks[0][0])
    if tg == 2:
        return ('rem', ks[0][0])
    ov = None if ks[1][0] == 0 else MODES[ks[1][1][0][0]]
    return ('apply', c06.tree_to_expr(ks[0]), ov)


class Impl13:
    def __init__(self, case):
        from glue.core.session import Session
        from glue.core import edit_subset_mode as esm
        from glue.core import command
        self.command = command
        self.mode_fn = {'replace': esm.ReplaceMode, 'and': esm.AndMode, 'or': esm.OrMode, 'xor': esm.XorMode,
                        'andnot': esm.AndNotMode, 'new': esm.NewMode}
        self.im = c06.Impl(case['pool'])
        for o in case['pre']:
            self.im.apply(o)
        self.session = Session(data_collection=self.im.dc)
        self.session.edit_subset_mode.mode = self.mode_fn[case['mode']]
        self.session.edit_subset_mode.edit_subset = [self.im.grps[g] for g in case['edit']]
        self.stack = self.session.command_stack
        # EditSubsetMessages handed to the hub during a step (compared with the translated setter / _broadcast)
        from glue.core.hub import HubListener
        from glue.core.message import EditSubsetMessage
        self.edit_events = []
        self.listener = HubListener()
        self.im.dc.hub.subscribe(self.listener, EditSubsetMessage,
                                 handler=lambda msg: self.edit_events.append((list(msg.subset), msg.mode)))
        self.last_cmd = None
        self.cmd_of = {}          # id(command object) -> cmd tuple
        self.keep = []
        # oracle shadow stacks
        self.undo_snaps = []
        self.redo_snaps = []
        self.max_undo = command.MAX_UNDO

    def make(self, c):
        C = self.command
        dc = self.im.dc
        if c[0] == 'add' and c[1] < 0:
            obj = C.AddData(data='not a dataset')
        elif c[0] == 'add':
            obj = C.AddData(data=self.im.data(c[1]))
        elif c[0] == 'rem':
            obj = C.RemoveData(data=self.im.data(c[1]))
        else:
            state = self.im.mk_state(c[1])
            ov = None if c[2] is None else self.mode_fn[c[2]]
            if c[3]:
                mode = self.session.edit_subset_mode

                def apply_func(roi, state=state, ov=ov, mode=mode, dc=dc):
                    mode.update(dc, state, override_mode=ov)
                obj = C.ApplyROI(data_collection=dc, roi=('region', c[1]), apply_func=apply_func)
            elif ov is None:
                obj = C.ApplySubsetState(data_collection=dc, subset_state=state)
            else:
                obj = C.ApplySubsetState(data_collection=dc, subset_state=state, override_mode=ov)
        self.cmd_of[id(obj)] = cmd_key(c)
        self.keep.append(obj)
        return obj

    def register_new_groups(self):
        for g in self.im.dc.subset_groups:
            if self.im._gid(g) < 0:
                self.im.grps.append(g)

    def apply(self, o):
        """returns (status, oracle violations of this step)"""
        bad = []
        before = self.obs()
        st = 0
        self.edit_events = []
        self.last_cmd = None
        try:
            if o[0] == 'do':
                self.stack.do(self.make(o[1]))
                self.last_cmd = self.stack._command_stack[-1]
            elif o[0] == 'undo':
                self.stack.undo()
                self.last_cmd = self.stack._undo_stack[-1]
            else:
                self.stack.redo()
                self.last_cmd = self.stack._command_stack[-1]
        except IndexError:
            st = 3
        except TypeError as exc:
            if o[0] == 'do' and o[1][0] == 'add' and o[1][1] < 0:
                st = 13              # DataCollection.append refuses what is not a dataset: the documented answer, not a failure of the property
            else:
                st = 9
                bad.append('%s raised %s: %s' % (o[0], type(exc).__name__, str(exc)[:120]))
        except Exception as exc:     # a command that cannot be executed / undone / redone at all
            st = 9
            bad.append('%s raised %s: %s' % (o[0], type(exc).__name__, str(exc)[:120]))
        # bookkeeping identical to c06.Impl.apply for removed datasets / groups
        self.register_new_groups()
        now = list(self.im.dc.data)
        for i, d in enumerate(self.im.datas):
            if d is None:
                continue
            if any(d is x for x in now):
                self.im.removed_d.discard(i)
            elif i in before['_coll_ids']:
                self.im.removed_d.add(i)
        live = list(self.im.dc.subset_groups)
        for gi in before['_group_ids']:
            if not any(self.im.grps[gi] is x for x in live):
                self.im.removed_g.add(gi)
        after = self.obs()
        # ---- oracle: shadow stack of observable snapshots
        if st == 0:
            if o[0] == 'do':
                self.undo_snaps.append(before)
                self.undo_snaps = self.undo_snaps[-self.max_undo:]
                self.redo_snaps = []
                if len(self.stack._undo_stack) != 0:
                    bad.append('a new command did not clear the redo history (%d left)' % len(self.stack._undo_stack))
            elif o[0] == 'undo':
                if self.undo_snaps:
                    want = self.undo_snaps.pop()
                    d = obs_diff(want, after)
                    if d:
                        bad.append('undo did not restore the state before the command: ' + d)
                self.redo_snaps.append(before)
            else:
                if self.redo_snaps:
                    want = self.redo_snaps.pop()
                    d = obs_diff(want, after)
                    if d:
                        bad.append('redo did not restore the state before the undo: ' + d)
                self.undo_snaps.append(before)
        elif st == 3:
            d = obs_diff(before, after)
            if d:
                bad.append('a refused undo/redo changed the state: ' + d)
        if len(self.stack._command_stack) > self.max_undo:
            bad.append('undo history has %d entries, documented bound MAX_UNDO = %d' % (len(self.stack._command_stack), self.max_undo))
        for v in self.im.oracle():
            bad.append('collection invariant: ' + v)
        return st, bad

    def obs(self):
        """observable state of the property, group identity by position"""
        dc = self.im.dc
        live = list(dc.subset_groups)
        groups = []
        for g in live:
            members = sorted((self.im._did(s.data), mask_of(s)) for s in g.subsets)
            groups.append((repr(self.im.read_state(g.subset_state)), tuple(members)))
        per_data = {}
        for d in dc.data:
            per_data[self.im._did(d)] = sorted((pos_in(live, getattr(s, 'group', None)), mask_of(s)) for s in d.subsets)
        edit = [pos_in(live, g) for g in self.session.edit_subset_mode.edit_subset]
        return {'coll': sorted(self.im._did(d) for d in dc.data), 'groups': groups, 'per_data': per_data, 'edit': edit,
                '_coll_ids': set(self.im._did(d) for d in dc.data), '_group_ids': [self.im._gid(g) for g in live]}

    def snapshot(self, status):
        snap = self.im.snapshot()
        live = list(self.im.dc.subset_groups)
        snap['status'] = status
        snap['edit'] = [self.im._gid(g) for g in self.session.edit_subset_mode.edit_subset]
        snap['cmds'] = [self.cmd_of.get(id(c), ('?',)) for c in reversed(self.stack._command_stack)]
        snap['undone'] = [self.cmd_of.get(id(c), ('?',)) for c in reversed(self.stack._undo_stack)]
        masks = []
        for g in live:
            ms = set(mask_of(s) for s in g.subsets)
            # one entry per group: the common mask of its members (None when it has no member, a tuple when they differ)
            masks.append(None if not ms else (ms.pop() if len(ms) == 1 else tuple(sorted(ms))))
        snap['masks'] = masks
        rev = {id(f): n for n, f in self.mode_fn.items()}
        snap['events'] = [(MODES.index(rev[id(m)]) if id(m) in rev else -1, [self.im._gid(g) for g in subs]) for subs, m in self.edit_events]
        c = self.last_cmd
        if c is None or status != 0:
            snap['record'] = None
        else:
            snap['record'] = ([(self.im._gid(g), self.im.read_state(st)) for g, st in getattr(c, 'old_groups', {}).items()],
                              [(self.im._did(sb.data), self.im._gid(getattr(sb, 'group', None)), self.im.read_state(st))
                               for sb, st in getattr(c, 'old_states', {}).items()],
                              [self.im._gid(g) for g in getattr(c, 'old_edit_subset', [])],
                              int(bool(getattr(c, '_added', False))), int(bool(getattr(c, '_removed', False))))
        return snap


def pos_in(l, x):
    for i, y in enumerate(l):
        if y is x:
            return i
    return -1


def mask_of(s):
    m = s.to_mask()
    return sum(1 << i for i, v in enumerate(m.ravel().tolist()) if v)


def obs_diff(a, b):
    for f in ('coll', 'groups', 'per_data', 'edit'):
        if a[f] != b[f]:
            return '%s: expected %r, got %r' % (f, a[f], b[f])
    return ''


def model_steps(tree, pool):
    """decode the model's answer: list of snapshots (start state first) in the canonical form of Impl13.snapshot"""
    out = []
    obs06 = []
    extra = []
    for ob in tree[1]:
        if ob[0] == -1:
            obs06.append(ob)
            extra.append(None)
            continue
        k = ob[1]
        obs06.append(k[1])
        extra.append((k[0][0], [x[0] for x in k[2][1]], [dec_cmd_tree(t) for t in k[3][1]], [dec_cmd_tree(t) for t in k[4][1]],
                      [x[0] for x in k[5][1]]))
    snaps = c06.model_snapshots((0, obs06), pool)
    for sn, ex in zip(snaps, extra):
        if ex is None or 'error' in sn:
            out.append({'error': True})
            continue
        sn = dict(sn)
        sn['status'], sn['edit'], sn['cmds'], sn['undone'], masks = ex
        sn['masks_raw'] = masks
        out.append(sn)
    return out


def gen_model_steps(tree, pool):
    """the answer of the translated machine (tag 2): as model_steps, plus the EditSubsetMessages of the step and the record
    do() left on the command; an observation with a single child is `the command raised` (status 10 + code)"""
    obs = list(tree[1])
    raised = None
    if obs and obs[-1][0] == 0 and len(obs[-1][1]) == 1:
        raised = obs[-1][1][0][0]
        obs = obs[:-1]
    out = model_steps((0, obs), pool)
    for ob, m in zip(obs, out):
        if 'error' in m:
            continue
        k = ob[1]
        m['events'] = [(t[0], [x[0] for x in t[1][0][1]]) for t in k[6][1]]
        r = k[7]
        if r[0] == 9:
            m['record'] = None
        else:
            rk = r[1]
            m['record'] = ([(p[1][0][0], c06.tree_to_expr(p[1][1])) for p in rk[0][1]],
                           [(p[1][0][0], p[1][1][0], c06.tree_to_expr(p[1][2])) for p in rk[1][1]],
                           [x[0] for x in rk[2][1]], rk[3][0], rk[4][0])
    if raised is not None:
        out.append({'raised': raised})
    return out


FIELDS = ('status', 'coll', 'groups', 'dsubs', 'gsubs', 'gattr', 'edit', 'cmds', 'undone')
GEN_FIELDS = FIELDS + ('events', 'record')


def compare(snap, m, n_members, fields=FIELDS):
    diff = [f for f in fields if snap[f] != m[f]]
    # masks: the model gives one mask per live group; groups without members have nothing to compare
    mm = [x if n else None for x, n in zip(m['masks_raw'], n_members)]
    if snap['masks'] != mm:
        diff.append('masks')
    return diff


def run_case_impl(case):
    im = Impl13(case)
    steps = [(im.snapshot(0), [])]
    for o in case['ops']:
        st, bad = im.apply(o)
        steps.append((im.snapshot(st), bad))
    return steps


def first_oracle_failure(case):
    steps = run_case_impl(case)
    for i, (sn, bad) in enumerate(steps):
        if bad:
            return i, bad
    return None


def case_valid(case):
    """ids used exist when they are used (for shrinking)"""
    if not c06.valid_for(case['pool'], case['pre']):
        return False
    ng = sum(1 for o in case['pre'] if o[0] == 'newgroup')
    nd = case['pool'] + sum(1 for o in case['pre'] if o[0] == 'merge' and len(o[1]) >= 2)
    if any(not (0 <= g < ng) for g in case['edit']):
        return False
    for o in case['ops']:
        if o[0] == 'do' and o[1][0] in ('add', 'rem') and not (0 <= o[1][1] < nd):
            return False
    return True


def shrink_case(case, pred):
    case = dict(case)
    changed = True
    while changed:
        changed = False
        for field in ('ops', 'pre', 'edit'):
            seq = list(case[field])
            for i in range(len(seq)):
                cand = dict(case)
                cand[field] = seq[:i] + seq[i + 1:]
                try:
                    ok = case_valid(cand) and pred(cand)
                except Exception:
                    ok = False
                if ok:
                    case = cand
                    changed = True
                    break
            if changed:
                break
    return case


def case_key(case):
    return repr((case['pool'], case['mode'], case['pre'], case['edit'], case['ops']))


def nontrivial(case):
    kinds = [o[0] for o in case['ops']]
    return 'do' in kinds and ('undo' in kinds)


def check_generated(R, case, steps, gtree, stream):
    """the functions translated from command.py / edit_subset_mode.py (run by the extracted model, tag 2) against the same run of the real code"""
    ms = gen_model_steps(gtree, case['pool'])
    for i, (sn, _) in enumerate(steps):
        if i >= len(ms):
            R.fail('correspondence', dict(case, stream=stream, machine='generated'), {'step': i, 'why': 'translated machine returned %d observations for %d' % (len(ms), len(steps))})
            return
        m = ms[i]
        if 'raised' in m or sn['status'] == 13:
            if m.get('raised') != sn['status']:
                R.fail('correspondence', dict(case, ops=case['ops'][:i], stream=stream, machine='generated'),
                       {'step': i, 'why': 'exception', 'impl_status': sn['status'], 'model': m.get('raised', m.get('status'))})
            return          # the case ends at the command that raised
        if 'error' in m:
            R.fail('correspondence', dict(case, stream=stream, machine='generated'), {'step': i, 'why': 'translated machine could not decode the case'})
            return
        n_members = [len(sn['gsubs'][g]) for g in sn['groups']]
        diff = compare(sn, m, n_members, GEN_FIELDS)
        if diff:
            R.fail('correspondence', dict(case, ops=case['ops'][:i], stream=stream, machine='generated'),
                   {'step': i, 'fields': diff, 'impl': {f: sn.get(f) for f in diff},
                    'model': {f: (m.get(f) if f != 'masks' else m['masks_raw']) for f in diff}})
            return


def check_case(R, case, mtree, stream, gtree=None):
    steps = run_case_impl(case)
    if gtree is not None:
        check_generated(R, case, steps, gtree, stream)
    # oracle
    for i, (sn, bad) in enumerate(steps):
        if bad:
            R._c13_oracle = getattr(R, '_c13_oracle', 0) + 1
            if R._c13_oracle > 8:
                break               # enough replays; shrinking every further failing case only costs time
            small = shrink_case(dict(case, ops=case['ops'][:i]), lambda c: first_oracle_failure(c) is not None)
            ff = first_oracle_failure(small)
            R.fail('oracle', dict(small, stream=stream), {'step': ff[0], 'violations': ff[1][:5], 'original_length': len(case['ops'])}, key=None)
            break
    if mtree is None:
        return
    ms = model_steps(mtree, case['pool'])
    if len(ms) != len(steps):
        R.fail('correspondence', dict(case, stream=stream), {'why': 'model returned %d observations for %d' % (len(ms), len(steps))})
        return
    for i, ((sn, _), m) in enumerate(zip(steps, ms)):
        if 'error' in m:
            R.fail('correspondence', dict(case, stream=stream), {'step': i, 'why': 'model could not decode the case'})
            return
        n_members = [len(sn['gsubs'][g]) for g in sn['groups']]
        diff = compare(sn, m, n_members)
        if diff:
            R.fail('correspondence', dict(case, ops=case['ops'][:i], stream=stream),
                   {'step': i, 'fields': diff, 'impl': {f: sn.get(f) for f in diff},
                    'model': {f: (m.get(f) if f != 'masks' else m['masks_raw']) for f in diff}})
            return


# ------------------------------------------------------------------ streams
E1 = ('leaf', 5)
E2 = ('leaf', 12)

CONFIGS = [
    {'pool': 2, 'mode': 'replace', 'pre': [], 'edit': []},
    {'pool': 2, 'mode': 'and', 'pre': [('append', 0)], 'edit': []},
    {'pool': 2, 'mode': 'or', 'pre': [('append', 0), ('newgroup', ('leaf', 6)), ('newgroup', None)], 'edit': [0]},
    {'pool': 2, 'mode': 'replace', 'pre': [('newgroup', ('leaf', 3))], 'edit': [0]},
]


def alphabet():
    al = [('do', ('add', 0)), ('do', ('add', 1)), ('do', ('rem', 0)), ('do', ('rem', 1))]
    al += [('do', ('apply', E1, None, False)), ('do', ('apply', E2, 'and', False)), ('do', ('apply', E2, 'new', False)),
           ('do', ('apply', E1, 'andnot', True)), ('do', ('apply', E2, None, True))]
    al += [('undo',), ('redo',)]
    return al


def stream_exhaustive(R, ncolors):
    al = alphabet()
    kmax = R.pick(3, 4)
    cases = []
    for cfg in CONFIGS:
        for k in range(1, kmax + 1):
            for seq in itertools.product(al, repeat=k):
                cases.append(dict(cfg, ops=list(seq)))
    n_exh = len(cases)
    extra = []
    rng = R.subrng('exh-extra')
    for _ in range(R.pick(3000, 20000)):
        cfg = rng.choice(CONFIGS)
        k = rng.choice([kmax + 1, kmax + 2, kmax + 3])
        extra.append(dict(cfg, ops=[rng.choice(al) for _ in range(k)]))
    cases += extra
    outs = R.model(both_lines(cases, ncolors))
    R._c13_gen = getattr(R, '_c13_gen', 0) + len(cases)
    for c, mt, gt in zip(cases, outs[:len(cases)], outs[len(cases):]):
        R.count(case_key(c), nontrivial=nontrivial(c), stream='exhaustive', length=len(c['ops']))
        check_case(R, c, mt, 'exhaustive', gt)
    R.sample({'exhaustive': cases[len(al) * 3 + 5]})
    R.stream('exhaustive', cases=n_exh, sampled_longer=len(extra), exhaustive=True,
             bound='all sequences of length 1..%d over %d letters (AddData/RemoveData of 2 datasets, 5 selections: ApplySubsetState and ApplyROI, no override / '
                   'and / new / andnot, undo, redo) from %d start configurations (empty session; one dataset; one dataset with two groups, one being edited; '
                   'a group without data being edited), plus %d sampled sequences of length %d..%d' % (kmax, len(al), len(CONFIGS), len(extra), kmax + 1, kmax + 3))


def ladder_walks(k, length):
    """all undo/redo sequences of exactly `length` steps after k commands in which no step is refused"""
    out = []

    def go(c, u, acc):
        if len(acc) == length:
            out.append(list(acc))
            return
        if c > 0:
            go(c - 1, u + 1, acc + [('undo',)])
        if u > 0:
            go(c + 1, u - 1, acc + [('redo',)])
    go(k, 0, [])
    return out


LADDER_CONFIGS = [
    {'pool': 2, 'mode': 'and', 'pre': [('append', 0)], 'edit': []},            # one dataset, no group: the first selection creates one
    {'pool': 2, 'mode': 'replace', 'pre': [], 'edit': []},                     # empty session
    {'pool': 2, 'mode': 'xor', 'pre': [('append', 0), ('newgroup', ('leaf', 6))], 'edit': [0]},
]


def ladder_alphabet():
    return [('apply', E1, None, False),        # creates a group when nothing is edited, otherwise combines in the session mode
            ('apply', E2, 'and', False),       # combines (creates when nothing is edited)
            ('apply', E2, 'new', True),        # always creates (ApplyROI)
            ('add', 1), ('rem', 0)]


def stream_ladders(R, ncolors):
    """do^k followed by every undo/redo interleaving that stays inside the stacks: depth-k undo/redo across commands that
    create groups and commands that combine into them (every step is compared and checked, so only maximal walks are run)"""
    kmax = 3
    length = R.pick(6, 7)
    al = ladder_alphabet()
    cases = []
    for ci, cfg in enumerate(LADDER_CONFIGS):
        for k in range(1, kmax + 1):
            if k == kmax and ci == 2 and R.quick():
                continue        # quick tier: depth 3 from the first two configurations only
            walks = ladder_walks(k, length)
            for cmds in itertools.product(al, repeat=k):
                for w in walks:
                    cases.append(dict(cfg, ops=[('do', c) for c in cmds] + w))
    outs = R.model(both_lines(cases, ncolors))
    R._c13_gen = getattr(R, '_c13_gen', 0) + len(cases)
    for c, mt, gt in zip(cases, outs[:len(cases)], outs[len(cases):]):
        R.count(case_key(c), nontrivial=True, stream='ladders', length=len(c['ops']))
        check_case(R, c, mt, 'ladders', gt)
    R.sample({'ladders': cases[len(cases) // 2]})
    R.stream('ladders', cases=len(cases), exhaustive=True,
             bound='do^k for k = 1..%d over %d commands (selection without override, selection with and, ApplyROI with new, AddData, RemoveData) followed by every '
                   'sequence of %d undo/redo steps none of which is refused, from %d start configurations (one dataset and no group; empty session; one group being edited)'
                   % (kmax, len(al), length, len(LADDER_CONFIGS)))


def rand_cmd(rng, nd):
    r = rng.random()
    if r < 0.22:
        return ('add', rng.randrange(nd))
    if r < 0.40:
        return ('rem', rng.randrange(nd))
    e = c06.rand_expr(rng, 1)
    ov = rng.choice([None, None, None, 'replace', 'and', 'or', 'xor', 'andnot', 'new'])
    return ('apply', e, ov, rng.random() < 0.3)


def rand_case(rng, burst=False, max_undo=50, ladder=False):
    pool = rng.choice([1, 2, 3])
    pre = []
    ng = 0
    for _ in range(rng.choice([0, 1, 2, 4])):
        r = rng.random()
        if r < 0.5:
            pre.append(('append', rng.randrange(pool)))
        elif r < 0.85:
            pre.append(('newgroup', None if rng.random() < 0.4 else c06.rand_expr(rng, 1)))
            ng += 1
        else:
            pre.append(('remove', rng.randrange(pool)))
    edit = [g for g in range(ng) if rng.random() < 0.5]
    if rng.random() < 0.3:
        edit = edit[:1]
    mode = rng.choice(MODES)
    ops = []
    if burst:
        n = max_undo + rng.choice([1, 2, 5, 13])
        for _ in range(n):
            ops.append(('do', rand_cmd(rng, pool)))
        for _ in range(max_undo + rng.choice([0, 1, 3])):
            ops.append(('undo',))
        for _ in range(rng.choice([3, max_undo, max_undo + 2])):
            ops.append(('redo',))
        for _ in range(rng.choice([0, 4])):
            ops.append(('do', rand_cmd(rng, pool)))
            ops.append(('undo',))
    elif ladder:
        # a few commands, then a long run of undo / redo that stays inside the stacks most of the time, possibly twice
        for _ in range(rng.choice([1, 2])):
            k = rng.choice([2, 3, 4, 5])
            for _ in range(k):
                ops.append(('do', rand_cmd(rng, pool)))
            c, u = k, 0
            for _ in range(rng.choice([5, 8, 12])):
                r = rng.random()
                if (c > 0 and (u == 0 or r < 0.5)) or (c == 0 and u == 0) or r < 0.04:
                    ops.append(('undo',))
                    if c > 0:
                        c, u = c - 1, u + 1
                else:
                    ops.append(('redo',))
                    if u > 0:
                        c, u = c + 1, u - 1
    else:
        length = rng.choice([5, 8, 12, 20, 30])
        depth = 0
        for _ in range(length):
            r = rng.random()
            if r < 0.5:
                ops.append(('do', rand_cmd(rng, pool)))
            elif r < 0.8:
                ops.append(('undo',))
            else:
                ops.append(('redo',))
    return {'pool': pool, 'mode': mode, 'pre': pre, 'edit': edit, 'ops': ops}


def stream_random(R, ncolors, max_undo):
    n = R.pick(700, 6000)
    nb = R.pick(16, 120)
    nl = R.pick(400, 2000)
    cases = [rand_case(R.subrng('rand', i)) for i in range(n)]
    cases += [rand_case(R.subrng('ladder', i), ladder=True) for i in range(nl)]
    cases += [rand_case(R.subrng('burst', i), burst=True, max_undo=max_undo) for i in range(nb)]
    outs = R.model(both_lines(cases, ncolors))
    R._c13_gen = getattr(R, '_c13_gen', 0) + len(cases)
    for c, mt, gt in zip(cases, outs[:len(cases)], outs[len(cases):]):
        R.count(case_key(c), nontrivial=nontrivial(c), stream='random', length=min(len(c['ops']), 60) // 10 * 10, mode=c['mode'])
        for o in c['ops']:
            R.hist['op_kind'][o[0] if o[0] != 'do' else 'do ' + o[1][0]] += 1
        check_case(R, c, mt, 'random', gt)
    R.sample({'random': dict(cases[0])})
    R.stream('random', cases=n, ladders=nl, bursts=nb, exhaustive=False,
             bound='pool 1..3 datasets, random prelude (append / new group / remove), random edit choice and session mode, 5..30 steps of do/undo/redo with all '
                   'five combine modes and new, ApplySubsetState and ApplyROI; %d ladder cases (2..5 commands, then 5..12 undo/redo that mostly stay inside the stacks, once or twice); %d burst cases with more than MAX_UNDO=%d commands, then undo past the bottom, then redo' % (nl, nb, max_undo))


def stream_malformed(R, ncolors):
    cases = [
        {'pool': 1, 'mode': 'replace', 'pre': [], 'edit': [], 'ops': [('undo',)]},
        {'pool': 1, 'mode': 'replace', 'pre': [], 'edit': [], 'ops': [('redo',)]},
        {'pool': 1, 'mode': 'replace', 'pre': [], 'edit': [], 'ops': [('do', ('add', 0)), ('undo',), ('undo',), ('redo',), ('redo',)]},
        {'pool': 1, 'mode': 'replace', 'pre': [('append', 0)], 'edit': [], 'ops': [('do', ('apply', E1, None, False)), ('redo',), ('undo',), ('undo',)]},
    ]
    outs = R.model(both_lines(cases, ncolors))
    R._c13_gen = getattr(R, '_c13_gen', 0) + len(cases)
    for c, mt, gt in zip(cases, outs[:len(cases)], outs[len(cases):]):
        R.count(case_key(c), nontrivial=False, stream='malformed')
        check_case(R, c, mt, 'malformed', gt)
    R.stream('malformed', cases=len(cases), exhaustive=False, bound='undo / redo on an empty stack (IndexError, nothing changes)')


def stream_generated_raise(R, ncolors):
    """commands whose do() raises, on the translated machine only (the hand model has no exceptions): AddData of something that is not a dataset"""
    cases = []
    for cfg in CONFIGS:
        for prefix in ([], [('do', ('add', 0))], [('do', ('apply', E1, None, False)), ('undo',)]):
            cases.append(dict(cfg, ops=prefix + [('do', ('add', -1))]))
    outs = R.model([case_line(c, ncolors, gen=True) for c in cases])
    for c, gt in zip(cases, outs):
        R.count(case_key(c), nontrivial=False, stream='generated-raise')
        check_case(R, c, None, 'generated-raise', gt)
    R.stream('generated-raise', cases=len(cases), exhaustive=False,
             bound='AddData of a non-dataset after 0..2 steps from the %d start configurations: TypeError on both sides' % len(CONFIGS))


def run(R):
    from glue.config import settings
    from glue.core import command
    ncolors = len(settings.SUBSET_COLORS)
    R.rule = ('sequences of do/undo/redo on a real Session with the real command classes, from several start configurations; exhaustive short sequences, '
              'seeded random longer ones and bursts longer than MAX_UNDO; a case is non-trivial when it executes at least one command and at least one undo; '
              'distinct = distinct (start configuration, sequence)')
    stream_malformed(R, ncolors)
    stream_ladders(R, ncolors)
    stream_random(R, ncolors, command.MAX_UNDO)
    stream_exhaustive(R, ncolors)
    stream_generated_raise(R, ncolors)
    R.stream('generated', cases=getattr(R, '_c13_gen', 0), exhaustive=True,
             bound='every case of the streams malformed, ladders, random and exhaustive is also run on the machine made of the functions translated from '
                   'command.py / edit_subset_mode.py / data_collection.py (run_case tag 2) and compared step by step with the same run of the real code: '
                   'collection, groups, members, selections, labels, colours, edit choice, both stacks, masks, plus the EditSubsetMessages of the step and '
                   'what do() recorded on the command (old_groups, old_states, old_edit_subset, _added, _removed)')
    R.exhaustive = True


def _fix(x):
    """JSON round trip: lists back to the tuples the harness uses"""
    if isinstance(x, list):
        return tuple(_fix(y) for y in x)
    return x


def replay(R, case):
    from glue.config import settings
    ncolors = len(settings.SUBSET_COLORS)
    c = {'pool': case['pool'], 'mode': case['mode'], 'edit': list(case['edit']),
         'pre': [c06_op(o) for o in case['pre']], 'ops': [sop(o) for o in case['ops']]}
    steps = run_case_impl(c)
    out = {'case': case, 'steps': []}
    viol = False
    for o, (sn, bad) in zip([None] + c['ops'], steps):
        out['steps'].append({'op': o, 'coll': sn['coll'], 'groups': sn['groups'], 'edit': sn['edit'], 'masks': sn['masks'],
                             'cmds': len(sn['cmds']), 'undone': len(sn['undone']), 'oracle': bad})
        viol = viol or bool(bad)
    if R.model_available:
        mt = R.model([case_line(c, ncolors)])[0]
        ms = model_steps(mt, c['pool'])
        out['model_agrees'] = len(ms) == len(steps) and all(
            'error' not in m and not compare(sn, m, [len(sn['gsubs'][g]) for g in sn['groups']]) for (sn, _), m in zip(steps, ms))
        gt = R.model([case_line(c, ncolors, gen=True)])[0]
        gs = gen_model_steps(gt, c['pool'])
        out['translated_machine_agrees'] = len(gs) == len(steps) and all(
            'error' not in m and 'raised' not in m and not compare(sn, m, [len(sn['gsubs'][g]) for g in sn['groups']], GEN_FIELDS)
            for (sn, _), m in zip(steps, gs))
    out['violates'] = viol
    return out


def c06_op(o):
    o = list(o)
    if o[0] in ('newgroup',):
        return ('newgroup', _fix(o[1]))
    if o[0] == 'setstate':
        return ('setstate', o[1], _fix(o[2]))
    if o[0] == 'merge':
        return ('merge', list(o[1]))
    return tuple(o)


def sop(o):
    if o[0] != 'do':
        return (o[0],)
    c = o[1]
    if c[0] in ('add', 'rem'):
        return ('do', (c[0], c[1]))
    return ('do', ('apply', _fix(c[1]), c[2], bool(c[3])))
