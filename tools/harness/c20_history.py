"""C20 — call-history stream: the helpers of glue/utils/array.py are exact AND pure.

A *history* is a sequence of calls made in one process on one copy of the module.  The oracle is the property's
exactness carried over to histories:

  (a) every call of a history returns what the same call returns in isolation (a freshly executed copy of
      glue/utils/array.py, freshly built arguments, only the calls it really depends on before it);
  (b) no call changes its arguments or any earlier result (values, dtype, shape, strides, write flag, and for
      categorical arrays the observable `.categories` / `.codes`);
  (c) the direct statement of the property for the result: view_shape == numpy's own indexing, categorical arrays
      satisfy categories[codes] == values (NaN code <=> value not among the categories), sorted unique categories
      when none were given, the categories that were asked for when some were given.

Arguments are built from JSON-able *specs* (so a replay file carries the whole history) over an alphabet of values that
are equal but not identical for Python (1 / True / 1.0 / np.int64(1) / np.bool_(True), 0 / False, -0.0 / 0.0, tuples vs
lists, slice(None) vs slice(0, n), NaN).  Each history runs on its own fresh copy of the module, so a failing history
is self-contained and replays from its spec alone.
"""
import itertools
import json
import types

import numpy as np

KEY_SETTER = 'categories-setter-keeps-stale-codes'

# ------------------------------------------------------------------ fresh copies of the module under test
_CODE = {}


def fresh_module():
    import glue.utils.array as A
    path = A.__file__
    if path not in _CODE:
        _CODE[path] = compile(open(path).read(), path, 'exec')
    m = types.ModuleType('glue.utils.array')
    m.__file__ = path
    m.__package__ = 'glue.utils'
    exec(_CODE[path], m.__dict__)
    return m


# ------------------------------------------------------------------ specs -> values
def build(spec, results):
    if spec is None or isinstance(spec, (bool, int, str)):
        return spec          # plain JSON scalars stand for themselves (bool / int / str / None)
    k = spec[0]
    if k == 'int':
        return int(spec[1])
    if k == 'bool':
        return bool(spec[1])
    if k == 'float':
        return float(spec[1])
    if k == 'npint':
        return np.int64(spec[1])
    if k == 'npbool':
        return np.bool_(spec[1])
    if k == 'npfloat':
        return np.float64(spec[1])
    if k == 'nan':
        return float('nan')
    if k == 'none':
        return None
    if k == 'ell':
        return Ellipsis
    if k == 'str':
        return spec[1]
    if k == 'slice':
        return slice(*[build(x, results) for x in spec[1:]])
    if k == 'tuple':
        return tuple(build(x, results) for x in spec[1])
    if k == 'list':
        return [build(x, results) for x in spec[1]]
    if k == 'arr':                       # ['arr', dtype or None, nested plain list]
        return np.array(spec[2], dtype=spec[1])
    if k == 'bcast':                     # ['bcast', small_shape, shape]: an array with stride-0 axes
        small = (np.arange(int(np.prod(spec[1]))) * 7 + 3).reshape(spec[1])
        return np.broadcast_to(small, spec[2])
    if k == 'farr':                      # Fortran-ordered copy
        return np.asfortranarray(np.array(spec[2], dtype=spec[1]))
    if k == 'res':
        return results[spec[1]]
    raise ValueError('bad spec %r' % (spec,))


def refs(spec):
    """indices of earlier results a spec refers to"""
    if isinstance(spec, list):
        if spec and spec[0] == 'res':
            return {spec[1]}
        out = set()
        for x in spec:
            out |= refs(x)
        return out
    if isinstance(spec, dict):
        out = set()
        for x in spec.values():
            out |= refs(x)
        return out
    return set()


def shift_refs(spec, removed):
    if isinstance(spec, list):
        if spec and spec[0] == 'res':
            return ['res', spec[1] - 1 if spec[1] > removed else spec[1]]
        return [shift_refs(x, removed) for x in spec]
    if isinstance(spec, dict):
        return {k: shift_refs(v, removed) for k, v in spec.items()}
    return spec


# ------------------------------------------------------------------ canonical, type-aware snapshots
def canon(x):
    if x is None:
        return 'None'
    if x is Ellipsis:
        return 'Ellipsis'
    if isinstance(x, bool):
        return ['bool', x]
    if isinstance(x, int):
        return ['int', x]
    if isinstance(x, float):
        return ['float', repr(x)]
    if isinstance(x, str):
        return ['str', x]
    if isinstance(x, np.generic):
        return ['np.' + x.dtype.name, canon(x.item())]
    if isinstance(x, slice):
        return ['slice', canon(x.start), canon(x.stop), canon(x.step)]
    if isinstance(x, (tuple, list)):
        return [type(x).__name__, [canon(v) for v in x]]
    if isinstance(x, np.ndarray):
        flat = np.asarray(x).ravel(order='C').tolist() if x.dtype != object else list(np.asarray(x).ravel(order='C'))
        return ['ndarray', type(x).__name__, x.dtype.str, list(x.shape), list(x.strides), bool(x.flags.writeable),
                [canon(v) for v in flat]]
    return ['obj', type(x).__name__]


def is_cat(x):
    return isinstance(x, np.ndarray) and type(x).__name__ == 'categorical_ndarray'


def observe(x):
    """everything a caller can see of a value; for categorical arrays this reads .categories and .codes"""
    if is_cat(x):
        try:
            cats = canon(np.asarray(x.categories))
        except Exception as exc:
            cats = 'raises ' + type(exc).__name__
        try:
            codes = canon(np.asarray(x.codes))
        except Exception as exc:
            codes = 'raises ' + type(exc).__name__
        return ['cat', canon(x), cats, codes]
    if isinstance(x, (tuple, list)) and any(isinstance(v, np.ndarray) for v in x):
        return [type(x).__name__, [observe(v) for v in x]]
    return canon(x)


# ------------------------------------------------------------------ calls
# a call spec: {'fn': name, 'args': [spec...], 'kw': {name: spec}}; pseudo-functions act on categorical arrays
PSEUDO = ('cat.codes', 'cat.categories', 'cat.getitem', 'cat.view', 'cat.setcats', 'cat.asarray', 'cat.copy')


def invoke(mod, fn, args, kw):
    if fn == 'cat.codes':
        return args[0].codes
    if fn == 'cat.categories':
        return args[0].categories
    if fn == 'cat.getitem':
        return args[0][args[1]]
    if fn == 'cat.view':
        return args[0].view(type(args[0]))
    if fn == 'cat.copy':
        return args[0].copy()
    if fn == 'cat.asarray':
        return np.array(args[0], copy=None, subok=True)
    if fn == 'cat.setcats':
        args[0].categories = args[1]
        return None
    r = getattr(mod, fn)(*args, **kw)
    if isinstance(r, types.GeneratorType):
        r = list(r)
    return r


def mutates(call):
    """result index a call mutates on purpose (the categories setter), or None"""
    if call['fn'] == 'cat.setcats':
        return call['args'][0][1]
    return None


def chain_of(calls, k, upto):
    """indices of the calls call k really depends on: the calls whose results it uses, and the deliberate mutations
    (categories setter) applied to those results before call `upto` (= k when the result is observed right after the
    call, = the end of the history when it is observed at the end) -- transitively"""
    need = {k}
    changed = True
    while changed:
        changed = False
        for i in sorted(need):
            for j in refs(calls[i]):
                if j not in need:
                    need.add(j)
                    changed = True
        for i in range(upto):
            m = mutates(calls[i])
            if m is not None and m in need and i not in need:
                need.add(i)
                changed = True
    return sorted(need)


def renumber(calls, keep):
    pos = {old: new for new, old in enumerate(keep)}

    def rn(spec):
        if isinstance(spec, list):
            if spec and spec[0] == 'res':
                return ['res', pos[spec[1]]]
            return [rn(x) for x in spec]
        if isinstance(spec, dict):
            return {a: rn(b) for a, b in spec.items()}
        return spec
    return [rn(calls[i]) for i in keep]


def run_history(calls, eager, mod=None):
    """run a history on a fresh copy of the module.  Returns (outcomes, problems): outcomes[k] = ['ok', observation]
    or ['raise', type name]; problems = list of (call index, what, detail) for purity violations (b)."""
    mod = mod or fresh_module()
    results, outcomes, problems = [], [], []
    last_obs = {}
    for k, call in enumerate(calls):
        args = [build(a, results) for a in call.get('args', [])]
        kw = {n: build(v, results) for n, v in call.get('kw', {}).items()}
        before = [canon(a) for a in args] + [canon(kw[n]) for n in sorted(kw)]
        try:
            r = invoke(mod, call['fn'], args, kw)
            out = ['ok', None]
        except Exception as exc:
            r = None
            out = ['raise', type(exc).__name__]
        results.append(r)
        m = mutates(call)
        if m is None:
            after = [canon(a) for a in args] + [canon(kw[n]) for n in sorted(kw)]
            if before != after:
                problems.append((k, 'a call changed one of its arguments', {'before': before, 'after': after}))
        if eager:
            for i in range(k + 1):
                if results[i] is None and outcomes[i:i + 1] and outcomes[i][0] == 'raise':
                    continue
                o = observe(results[i])
                if i in last_obs and last_obs[i] != o and m != i:
                    problems.append((k, 'a call changed an earlier result (#%d)' % i, {'before': last_obs[i], 'after': o}))
                last_obs[i] = o
            if out[0] == 'ok':
                out[1] = last_obs[k]
        outcomes.append(out)
    # final observation: in the lazy mode nothing was read until now
    final = []
    for i, o in enumerate(outcomes):
        if o[0] == 'raise':
            final.append(o)
            continue
        ob = observe(results[i])
        if not eager:
            o[1] = ob
        final.append(['ok', ob])
    return outcomes, final, problems, results


_ISO = {}


def isolated(calls, k, eager):
    """observation of call k's result when only its dependency chain is run, on a fresh copy of the module"""
    keep = chain_of(calls, k, k if eager else len(calls))
    sub = renumber(calls, keep)
    key = json.dumps([sub, keep.index(k)], sort_keys=True)
    if key not in _ISO:
        if len(_ISO) > 200000:
            _ISO.clear()
        outcomes, final, _p, _r = run_history(sub, eager=False)
        _ISO[key] = final[keep.index(k)]
    return _ISO[key]


# ------------------------------------------------------------------ direct statements of the property
def np_view_shape(shape, view):
    if view is None:
        return ['ok', tuple(int(s) for s in shape)]
    try:
        return ['ok', tuple(np.zeros(tuple(shape))[view].shape)]
    except Exception as exc:
        return ['raise', type(exc).__name__]


def cat_consistent(x, expect):
    """categories[codes] == values; a NaN code <=> the value is not among the categories.  expect = ('auto',) |
    ('given', list) | ('superset',)"""
    vals = np.asarray(x).ravel().tolist()
    cats = np.asarray(x.categories).tolist()
    codes = np.asarray(x.codes)
    if codes.shape != np.asarray(x).shape:
        return 'codes have shape %r, the array %r' % (codes.shape, np.asarray(x).shape)
    for v, c in zip(vals, codes.ravel().tolist()):
        if c != c:
            if v in cats:
                return 'value %r is among the categories but its code is NaN' % (v,)
        elif not (0 <= c < len(cats)) or int(c) != c:
            return 'code %r out of range for %d categories' % (c, len(cats))
        elif cats[int(c)] != v:
            return 'categories[%d] = %r but the value is %r' % (int(c), cats[int(c)], v)
    if expect[0] == 'auto' and cats != sorted(set(vals)):
        return 'categories %r are not the sorted unique values %r' % (cats, sorted(set(vals)))
    if expect[0] == 'superset' and (cats != sorted(set(cats)) or not set(vals) <= set(cats)):
        return 'inherited categories %r are not sorted unique / do not contain the values' % (cats,)
    if expect[0] == 'given' and cats != list(expect[1]):
        return 'categories %r are not the ones that were given %r' % (cats, list(expect[1]))
    return None


def expectation(calls, k):
    """what the categories of result k have to be, from the history alone"""
    c = calls[k]
    fn = c['fn']
    if fn == 'categorical_ndarray':
        given = c.get('kw', {}).get('categories')
        if given is not None:
            g = build(given, [])
            return ('given', np.asarray(g).tolist())
        src = c['args'][0]
        if isinstance(src, list) and src and src[0] == 'res':
            e = expectation(calls, src[1])
            # later setcats on the source before this call change what is inherited
            for i in range(src[1] + 1, k):
                if mutates(calls[i]) == src[1]:
                    e = ('given', np.asarray(build(calls[i]['args'][1], [])).tolist())
            return e if e[0] != 'auto' else ('superset',)
        return ('auto',)
    if fn in ('cat.getitem', 'cat.view', 'cat.copy', 'cat.asarray'):
        src = c['args'][0][1]
        e = expectation(calls, src)
        for i in range(src + 1, k):
            if mutates(calls[i]) == src:
                e = ('given', np.asarray(build(calls[i]['args'][1], [])).tolist())
        return e if e[0] != 'auto' else ('superset',)
    return None


def check_history(calls, eager, info=None):
    """returns list of failures: dicts with at / why / detail / key.  info (a dict) receives the live results and outcomes"""
    outcomes, final, problems, results = run_history(calls, eager)
    if info is not None:
        info['outcomes'] = outcomes
        info['results'] = results
    fails = []
    # results whose categories were assigned through the setter after the array had been used: reading .codes or
    # .categories, or deriving a view / copy / re-wrapped array from it (__array_finalize__ reads the parent's
    # categories), computes and caches the codes, which the setter does not drop (known finding)
    setter_after_codes = set()
    used = set()
    for k, c in enumerate(calls):
        m = mutates(c)
        if m is not None:
            if m in used:
                setter_after_codes.add(m)
        else:
            used |= refs(c)
        if eager and outcomes[k][0] == 'ok' and is_cat(results[k]):
            used.add(k)              # the eager mode reads the observables of every result after every call

    def keyfor(obj_indices):
        return KEY_SETTER if any(i in setter_after_codes for i in obj_indices) else None

    for k, what, detail in problems:
        fails.append({'at': k, 'why': what, 'detail': detail, 'key': None})
    for k, c in enumerate(calls):
        if mutates(c) is not None:
            continue
        objs = [j for j in refs(c)] + [k]
        # (a) the same call in isolation
        iso = isolated(calls, k, eager)
        if outcomes[k] != iso:
            fails.append({'at': k, 'why': 'differs from the same call in isolation', 'key': keyfor(objs),
                          'detail': {'in_history': outcomes[k], 'in_isolation': iso}})
        if not eager and final[k] != outcomes[k]:
            pass
        # (c) direct statements
        if c['fn'] == 'view_shape':
            want = np_view_shape(build(c['args'][0], []), build(c['args'][1], []))
            got = outcomes[k]
            gotc = ['ok', tuple(int(s) for s in results[k])] if got[0] == 'ok' else got
            if gotc != want:
                fails.append({'at': k, 'why': 'view_shape differs from numpy indexing', 'key': None,
                              'detail': {'view_shape': gotc, 'numpy': want}})
    # every categorical array alive at the end is consistent
    for k, c in enumerate(calls):
        if outcomes[k][0] == 'ok' and is_cat(results[k]):
            e = expectation(calls, k)
            # a deliberate setcats on this very result replaces the expectation
            for i in range(k + 1, len(calls)):
                if mutates(calls[i]) == k:
                    e = ('given', np.asarray(build(calls[i]['args'][1], [])).tolist())
            why = cat_consistent(results[k], e or ('superset',))
            if why:
                fails.append({'at': k, 'why': 'categorical array #%d: %s' % (k, why), 'key': keyfor([k]),
                              'detail': {'values': np.asarray(results[k]).tolist(), 'categories': np.asarray(results[k].categories).tolist(),
                                         'codes': np.asarray(results[k].codes).tolist()}})
    # lazy mode: results that were not read until the end must equal their isolated observation too (covered by (a):
    # outcomes[k][1] is the final observation in the lazy mode)
    return fails


def shrink(calls, eager, pred):
    """drop calls nobody refers to while the failure persists"""
    cur = list(calls)
    changed = True
    while changed and len(cur) > 1:
        changed = False
        for i in reversed(range(len(cur))):
            used = any(i in refs(c) for c in cur[i + 1:])
            if used:
                continue
            cand = [shift_refs(c, i) for j, c in enumerate(cur) if j != i]
            try:
                if pred(check_history(cand, eager)):
                    cur = cand
                    changed = True
                    break
            except Exception:
                pass
    return cur


# ------------------------------------------------------------------ alphabets
def I(n):
    return ['int', n]


def view_alphabet(shape):
    n0 = shape[0]
    sl = ['slice', None, None, None]
    al = [I(0), I(1), I(-1), ['bool', True], ['bool', False], ['npbool', True], ['npbool', False], ['npint', 1], ['npint', 0],
          ['float', 1.0], ['float', 0.0], ['float', -0.0], ['npfloat', 1.0], ['nan'],
          ['none'], ['ell'], sl, ['slice', 0, n0, None], ['slice', 0, n0, 1], ['slice', None, None, 1], ['slice', 0, None, None],
          ['slice', None, None, True], ['slice', False, None, None],
          ['list', [I(0), I(1)]], ['list', [['bool', False], ['bool', True]] + [['bool', False]] * (n0 - 2)],
          ['tuple', [I(0), I(1)]] if len(shape) > 1 else ['tuple', [I(0)]],
          ['arr', None, [0, 1]], ['arr', None, [False, True] + [False] * (n0 - 2)], ['arr', None, [1]], ['arr', None, [True] + [False] * (n0 - 1)],
          ['tuple', [I(0), sl]], ['tuple', [['bool', False], sl]], ['tuple', [sl, I(1)]], ['tuple', [sl, ['bool', True]]],
          ['tuple', [sl, ['npbool', True]]], ['tuple', [['none'], I(1)]], ['tuple', [['none'], ['bool', True]]],
          ['tuple', [['ell'], I(1)]], ['tuple', [['ell'], ['bool', True]]], ['tuple', [I(1), I(1)]], ['tuple', [['bool', True], I(1)]],
          ['tuple', [I(1), ['bool', True]]], ['tuple', [['bool', True], ['bool', True]]], ['tuple', [I(0), I(0)]],
          ['tuple', [['bool', False], I(0)]], ['tuple', [I(0), ['bool', False]]], ['tuple', [['bool', False], ['bool', False]]],
          ['tuple', []], ['tuple', [I(1)]], ['tuple', [['bool', True]]], ['tuple', [['float', 1.0]]], ['list', [I(1)]], ['list', [['bool', True]]],
          ['tuple', [I(-1), ['ell']]], ['tuple', [['list', [I(0), I(1)]], sl]], ['tuple', [sl, ['list', [I(0), I(1)]]]]]
    return al


def shape_specs():
    return [['tuple', [I(3), I(4)]], ['list', [I(3), I(4)]], ['tuple', [I(2)]], ['tuple', [I(2), I(5)]],
            ['tuple', [['npint', 3], ['npint', 4]]]]


def plain_shape(spec):
    return tuple(int(build(x, [])) for x in spec[1])


def view_shape_calls():
    out = []
    for sh in shape_specs():
        for v in view_alphabet(plain_shape(sh)):
            out.append({'fn': 'view_shape', 'args': [sh, v]})
    return out


def other_helper_calls():
    sl = ['slice', None, None, None]
    out = []
    # combine_slices: equal-but-not-identical slices and lengths
    for s1, s2, n in [(sl, sl, I(4)), (['slice', 0, 4, None], sl, I(4)), (['slice', 0, 4, 1], ['slice', None, None, 1], I(4)),
                      (['slice', 1, None, 2], ['slice', None, 3, None], I(4)), (['slice', True, None, 2], ['slice', None, 3, None], I(4)),
                      (['slice', 1, None, 2], ['slice', None, 3, None], ['npint', 4]), (sl, sl, I(1)), (sl, sl, ['bool', True]),
                      (sl, sl, ['float', 1.0]), (sl, sl, I(0)), (sl, sl, ['bool', False]), (['slice', None, None, -1], sl, I(4)),
                      (['slice', False, None, None], ['slice', 1, None, None], I(4)), (['slice', 0, None, None], ['slice', True, None, None], I(4))]:
        out.append({'fn': 'combine_slices', 'args': [s1, s2, n]})
    # find_chunk_shape / iterate_chunks
    for sh in (['tuple', [I(3), I(4)]], ['list', [I(3), I(4)]], ['tuple', [['npint', 3], ['npint', 4]]], ['tuple', [I(1), I(4)]], ['tuple', [['bool', True], I(4)]]):
        for nm in (I(1), ['bool', True], ['npint', 1], ['float', 1.0], I(5), ['npint', 5], ['float', 5.0], ['none'], I(0), ['bool', False]):
            out.append({'fn': 'find_chunk_shape', 'args': [sh, nm]})
    for sh in (['tuple', [I(3), I(4)]], ['list', [I(3), I(4)]], ['tuple', [I(1), I(4)]], ['tuple', [['bool', True], I(4)]], ['tuple', [I(0), I(4)]],
               ['tuple', [['bool', False], I(4)]]):
        for nm in (I(1), ['bool', True], I(5), ['float', 5.0]):
            out.append({'fn': 'iterate_chunks', 'args': [sh], 'kw': {'n_max': nm}})
        for cs in (['tuple', [I(1), I(2)]], ['list', [I(1), I(2)]], ['tuple', [['bool', True], I(2)]], ['tuple', [I(1), ['npint', 2]]]):
            out.append({'fn': 'iterate_chunks', 'args': [sh], 'kw': {'chunk_shape': cs}})
    # unbroadcast / broadcast_arrays_minimal
    arrs = [['bcast', [1, 3], [2, 3]], ['bcast', [2, 1], [2, 3]], ['bcast', [1, 1], [2, 3]], ['bcast', [2, 3], [2, 3]], ['bcast', [1], [3]],
            ['arr', None, [[1, 0, 0], [1, 0, 0]]], ['arr', None, [[True, False, False], [True, False, False]]], ['arr', None, [[1.0, 0.0, -0.0], [1.0, 0.0, 0.0]]],
            ['arr', None, 5], ['arr', None, True]]
    for a in arrs:
        out.append({'fn': 'unbroadcast', 'args': [a]})
    for a, b in [(arrs[0], arrs[1]), (arrs[1], arrs[0]), (arrs[0], arrs[2]), (arrs[2], arrs[3]), (arrs[5], arrs[6]), (arrs[6], arrs[5]), (arrs[5], arrs[7])]:
        out.append({'fn': 'broadcast_arrays_minimal', 'args': [a, b]})
    # unique / index_lookup: equal-but-not-identical element values
    datas = [['arr', None, [1, 0, 1, 2]], ['arr', None, [True, False, True, True]], ['arr', None, [1.0, 0.0, 1.0, 2.0]], ['arr', None, [1.0, -0.0, 1.0, 2.0]],
             ['arr', 'object', [1, 0, 1, 2]], ['arr', None, ['b', 'a', 'b', 'c']], ['list', [['str', 'b'], ['str', 'a'], ['str', 'b'], ['str', 'c']]],
             ['arr', None, [[1, 0], [1, 2]]], ['farr', None, [[1, 0], [1, 2]]], ['arr', None, [1.0, float('nan'), 1.0, 2.0]]]
    for d in datas:
        out.append({'fn': 'unique', 'args': [d]})
    items = [['arr', None, [0, 1, 2]], ['arr', None, [False, True]], ['arr', None, [0.0, 1.0, 2.0]], ['list', [I(0), I(1), I(2)]], ['arr', None, [2, 1]],
             ['arr', None, ['a', 'b', 'c']], ['arr', None, ['c', 'a']]]
    for d in datas[:7]:
        if d[0] == 'arr' and len(np.shape(d[2])) != 1:
            continue
        for it in items:
            sd = isinstance(build(d, [])[0], str)
            si = isinstance(build(it, [])[0], str)
            if sd == si:
                out.append({'fn': 'index_lookup', 'args': [d, it]})
    return out


# categorical histories: the first call builds an array; later calls refer to earlier results
CAT_BASES = [['list', [['str', 'b'], ['str', 'a'], ['str', 'c'], ['str', 'a']]], ['arr', None, ['x', 'z', 'y', 'z']], ['arr', None, [2, 0, 1, 0]]]


def cat_alts(base):
    vals = np.asarray(build(base, [])).tolist()
    u = sorted(set(vals))
    dt = None
    return [['arr', dt, u[::-1]], ['arr', dt, [u[-1], u[0]]], ['arr', dt, u], ['list', [(['str', x] if isinstance(x, str) else I(x)) for x in u[::-1]]]]


def cat_ops(base, ncat_results, last_only=False, small=False):
    """all ops applicable when the results in `ncat_results` (indices) are categorical arrays"""
    ops = []
    alts = cat_alts(base)
    targets = ncat_results[-2:] if last_only else ncat_results
    for t in targets:
        r = ['res', t]
        ops.append({'fn': 'cat.codes', 'args': [r]})
        ops.append({'fn': 'cat.categories', 'args': [r]})
        for copy in (False, True):
            ops.append({'fn': 'categorical_ndarray', 'args': [r], 'kw': {'copy': ['bool', copy]}})
            for a in alts[:2 if small else 3]:
                ops.append({'fn': 'categorical_ndarray', 'args': [r], 'kw': {'copy': ['bool', copy], 'categories': a}})
        ops.append({'fn': 'categorical_ndarray', 'args': [r], 'kw': {'copy': I(0), 'categories': alts[3]}})
        ops.append({'fn': 'cat.getitem', 'args': [r, ['slice', None, None, -1]]})
        ops.append({'fn': 'cat.getitem', 'args': [r, ['slice', 1, None, None]]})
        if not small:
            ops.append({'fn': 'cat.getitem', 'args': [r, ['slice', None, None, None]]})
            ops.append({'fn': 'cat.getitem', 'args': [r, ['ell']]})
        ops.append({'fn': 'cat.view', 'args': [r]})
        ops.append({'fn': 'cat.copy', 'args': [r]})
        ops.append({'fn': 'cat.setcats', 'args': [r, alts[0]]})
    return ops


CAT_MAKERS = ('categorical_ndarray', 'cat.getitem', 'cat.view', 'cat.asarray', 'cat.copy')


def cat_histories(depth, rng=None, nrandom=0, maxlen=6, nbases=3, small=False):
    """exhaustive: every op sequence of length <= depth after the constructor; random: longer ones"""
    for base in CAT_BASES[:nbases]:
        starts = [{'fn': 'categorical_ndarray', 'args': [base]},
                  {'fn': 'categorical_ndarray', 'args': [base], 'kw': {'categories': cat_alts(base)[0]}}]
        for st in starts:
            def rec(hist, cats, d):
                if d == 0:
                    return
                for op in cat_ops(base, cats, small=small):
                    h2 = hist + [op]
                    yield h2
                    c2 = cats + [len(hist)] if op['fn'] in CAT_MAKERS else cats
                    yield from rec(h2, c2, d - 1)
            yield from rec([st], [0], depth)
    if rng is not None:
        for _ in range(nrandom):
            base = rng.choice(CAT_BASES)
            hist = [{'fn': 'categorical_ndarray', 'args': [base]}]
            cats = [0]
            for _i in range(rng.randint(3, maxlen)):
                op = rng.choice(cat_ops(base, cats))
                if op['fn'] in CAT_MAKERS:
                    cats.append(len(hist))
                hist.append(op)
            yield hist


def call_key(c):
    return json.dumps(c, sort_keys=True)


# ------------------------------------------------------------------ wire encodings for the model
def enc_item(spec):
    """model encoding of one index item, or None when the model does not cover it"""
    k = spec[0]
    if k in ('int', 'npint'):
        return (1, [int(spec[1])])
    if k in ('bool', 'npbool'):
        return (2, [1 if spec[1] else 0])
    if k == 'none':
        return (3, [])
    if k == 'ell':
        return (4, [])
    if k == 'slice':
        parts = []
        for x in spec[1:]:
            if x is None:
                parts.append((0, []))
            elif isinstance(x, (bool, int)):
                parts.append((1, [int(x)]))
            else:
                return None
        return (0, parts)
    return None


def enc_view_call(call):
    """wire line (as a nested tuple) for a view_shape call, or None"""
    sh, v = call['args']
    shape = [int(build(x, [])) for x in sh[1]]
    if v[0] == 'none':
        return (20, [(0, shape), (0, [])])
    items = v[1] if v[0] == 'tuple' else [v]
    encs = [enc_item(x) for x in items]
    if any(e is None for e in encs):
        return None
    return (20, [(0, shape), (1, encs)])


def cat_model_ops(calls):
    """model ops for a categorical history (None when it contains an op outside the model: the categories setter).
    Returns (ops as nested tuples, universe used for ranks, object index per result index)"""
    base = build(calls[0]['args'][0], [])
    universe = sorted(set(np.asarray(base).tolist()))
    rank = {v: i for i, v in enumerate(universe)}
    obj_of = {}
    nobj = 0
    nvals = {}
    ops = []

    def cats_of(c):
        g = c.get('kw', {}).get('categories')
        if g is None:
            return (0, [])
        return (1, [rank[x] for x in np.asarray(build(g, [])).tolist()])
    for k, c in enumerate(calls):
        fn = c['fn']
        if fn == 'categorical_ndarray':
            src = c['args'][0]
            if src[0] == 'res':
                copy = bool(build(c.get('kw', {}).get('copy', ['bool', True]), []))
                ops.append((1, [obj_of[src[1]], 1 if copy else 0, cats_of(c)]))
                nvals[k] = nvals[src[1]]
            else:
                vals = np.asarray(build(src, [])).tolist()
                ops.append((0, [(0, [rank[v] for v in vals]), cats_of(c)]))
                nvals[k] = len(vals)
            obj_of[k] = nobj
            nobj += 1
        elif fn in ('cat.getitem', 'cat.view', 'cat.copy'):
            src = c['args'][0][1]
            if fn == 'cat.copy':
                ops.append((1, [obj_of[src], 1, (0, [])]))
                nvals[k] = nvals[src]
            else:
                idx = build(c['args'][1], []) if fn == 'cat.getitem' else slice(None)
                sel = np.arange(nvals[src])[idx].tolist()
                ops.append((2, [obj_of[src], (0, sel)]))
                nvals[k] = len(sel)
            obj_of[k] = nobj
            nobj += 1
        elif fn == 'cat.codes':
            ops.append((3, [obj_of[c['args'][0][1]]]))
        elif fn == 'cat.categories':
            ops.append((4, [obj_of[c['args'][0][1]]]))
        else:
            return None
    return ops, universe, obj_of


def cat_impl_view(calls, results, universe, obj_of):
    """what the implementation shows, in the model's terms: per op result and per object (values, categories, codes)"""
    rank = {v: i for i, v in enumerate(universe)}

    def codes_of(a):
        return [-1 if c != c else int(c) for c in np.asarray(a, dtype=float).ravel().tolist()]
    per_op = []
    for k, c in enumerate(calls):
        if k in obj_of:
            per_op.append(('obj', obj_of[k]))
        elif c['fn'] == 'cat.codes':
            per_op.append(('vals', codes_of(results[k])))
        else:
            per_op.append(('vals', [rank[x] for x in np.asarray(results[k]).tolist()]))
    objs = []
    for k in sorted(obj_of, key=lambda kk: obj_of[kk]):
        x = results[k]
        objs.append(([rank[v] for v in np.asarray(x).tolist()], [rank[v] for v in np.asarray(x.categories).tolist()], codes_of(x.codes)))
    return per_op, objs
