"""C04 — views of masks and attribute values equal the same view of the full array.

Oracle (the property itself, independent of the model):
    data[cid, v] == data[cid][v]          and      data.get_mask(s, v) == data.get_mask(s)[v]      (values and shape)
    IndexedData(parent, idx): values / masks / statistics / histograms == those of parent[idx], also after `indices` is reassigned.
Correspondence: the four hand-written fast paths against coq/C04/Model.v (SliceSubsetState.to_mask, the pixel-space ROI
shortcut, CoordinateComponent._calculate, IndexedData._to_original_view).
"""
import itertools
import warnings

import numpy as np

from harness.common import enc, Z, B, opt, to_zs, is_err, err_code, kids, tag

PROP = 'C04'
GENERATORS = ['gen_array', 'gen_viewprog', 'gen_arraypure', 'gen_axiscorr', 'gen_stat']   # gen_arraypure: C20.Model uses Gen_arraypure; gen_stat: C10.Model (imported through C10.Lemmas1) uses Gen_stat
TRUSTED = [
    'translator tools/py2gallina.py: Gen_array.combine_slices (used by the SliceSubsetState model) is regenerated from glue/utils/array.py on every run',
    'hand model coq/C04/Model.v of SliceSubsetState.to_mask, the RoiSubsetStateNd pixel-space shortcut, CoordinateComponent._calculate (world) and '
    'IndexedData._to_original_view: tied to the code by correspondence only',
    'theorem slice_state_view takes the exactness of combine_slices as an explicit hypothesis (combine_slices_exact_hyp); its proof belongs to C20',
    'the ROI leaf predicate (Roi.contains on integer pixel coordinates) and the world-coordinate function (Coordinates.pixel_to_world_values) are abstract in the '
    'model; in the correspondence they are tabulated by calling them directly on the pixel grid; dependent_axes is an input (C15 decides whether it is right)',
    'stored / categorical / derived / linked / pixel attributes: comp[view] is Numpy indexing of the full array or a link evaluated on viewed inputs: oracle only',
    'Common.PyInt.slice_indices models CPython slice.indices (tied by the C20 exhaustive stream)',
    'translator tools/gen/gen_viewprog.py: ParsedSubsetState.to_mask, ParsedComponentLink.compute and categorical_ndarray.__array_finalize__ are regenerated from '
    'glue/core/parse.py and glue/utils/array.py on every run into two small program languages (fail-closed); the interpreters in coq/C04/Model.v are hand-written',
    'hand model of the expression language of ParsedCommand (aexpr / bexpr: {x}, constants, arange, size, sum, max, min, cumsum, roll, + - *, comparisons, & | ~) '
    'and of unique() / index_lookup() for categorical columns (cat_unique / index_lookup): tied to numpy / pandas by correspondence only; the harness renders each '
    'expression tree into the Python expression string',
    'translator tools/gen/gen_axiscorr.py: AffineCoordinates.axis_correlation_matrix (which part of the matrix, the comparison operator and its comparand) and '
    'dependent_axes (statement by statement into the program language dstmt) are regenerated from glue/core/coordinates.py and glue/core/coordinate_helpers.py on '
    'every run (fail-closed); the interpreter exec_dstmt, the affine world function over Q and the p.flat[0] replacement of pixel2world_single_axis '
    '(keep_rowdep) in coq/C04/Model.v are hand-written and tied to the code by the affine_scale correspondence (values and dependent_axes itself)',
    'AffineCoordinates.pixel_to_world_values is modelled as exact rational arithmetic; the affine_scale stream uses matrices whose world coordinates are exactly '
    'representable doubles (m*2^e entries), so floats and rationals agree exactly; non-dyadic matrices are compared within 8 ulp of the term magnitudes',
    'natural expressions with floating-point reductions (np.mean, np.percentile, np.median, np.std, np.argsort, np.flip) are checked by the oracle only',
]
ASSUMPTIONS = [
    'view domain: None, Ellipsis, tuples (possibly empty or shorter than ndim) of integers (negative allowed, in range) and positive-step slices, tuples of '
    'integer index arrays (one per axis), boolean masks of the full shape; negative-step slices, lists, np.newaxis and a bare index array are outside',
    'model domain: basic views (integers and slices); index-array and boolean-mask views are checked by the oracle only',
    'IndexedData views: the same domain over the reduced shape; indices are any valid numpy integer (negative = from the end); statistics/histograms of an '
    'IndexedData are compared with the textbook statistic of the parent slice',
    'whole-array theorems: a view of any kind is the list of flat positions it selects (in_range: inside the array); for basic views the model computes the positions '
    '(sel_of / to_under / flat_index), for index arrays and boolean masks they are numpy\'s own indexing of arange(size)',
    'evaluation order: "fresh" means a newly built dataset / state / IndexedData on which nothing has been evaluated; the twin is rebuilt from the same sub-seed',
    'ROI selections on the pixel coordinates of another dataset linked by LinkSame (axes permuted, more dimensions than ROI attributes) are also compared with '
    'the mask computed from first principles, since there the view and the full mask could be wrong together',
]

ALPHABET = [0, -1, [None, None, None], [1, None, None], [0, None, 2], [1, 3, None]]


# ------------------------------------------------------------------ views (JSON-able descriptions)
def view_obj(vd):
    if vd == 'none':
        return None
    if vd == 'ellipsis':
        return Ellipsis
    k = vd[0]
    if k == 'tuple':
        return tuple(e if isinstance(e, int) else slice(*e) for e in vd[1])
    if k == 'idx':
        return tuple(np.array(a, dtype=int) for a in vd[1])
    if k == 'bool':
        return np.array(vd[1], dtype=bool)
    if k == 'bare':                      # a bare integer or slice (not wrapped in a tuple)
        return vd[1] if isinstance(vd[1], int) else slice(*vd[1])
    if k == 'bareidx':                   # a bare integer index array (indexes the first axis)
        return np.array(vd[1], dtype=int)
    if k == 'idx1':                      # the same wrapped in a 1-tuple
        return (np.array(vd[1], dtype=int),)
    if k == 'bool1':                     # a boolean mask wrapped in a 1-tuple
        return (np.array(vd[1], dtype=bool),)
    raise ValueError(vd)


def view_kind(vd):
    if isinstance(vd, str):
        return vd
    if vd[0] == 'tuple':
        return 'tuple%d%s' % (len(vd[1]), 'i' if any(isinstance(e, int) for e in vd[1]) else '')
    if vd[0] == 'bare':
        return 'bare_int' if isinstance(vd[1], int) else 'bare_slice'
    return vd[0]


def is_basic(vd):
    return isinstance(vd, str) or vd[0] in ('tuple', 'bare')


def basic_entries(vd):
    if isinstance(vd, str):
        return []
    return [vd[1]] if vd[0] == 'bare' else vd[1]


def ventry_enc(e):
    if isinstance(e, int):
        return (1, [e])
    return (0, [opt(e[0]), opt(e[1]), opt(e[2])])


def view_enc(vd):
    return (0, [ventry_enc(e) for e in basic_entries(vd)])


def sl_enc(s):
    return (0, [opt(s[0]), opt(s[1]), opt(s[2])])


def all_views(shape, rng, alphabet=ALPHABET, maxlen=None):
    nd = len(shape)
    out = ['none', 'ellipsis']
    for ln in range(0, (nd if maxlen is None else min(nd, maxlen)) + 1):
        for v in itertools.product(alphabet, repeat=ln):
            out.append(['tuple', [e if isinstance(e, int) else list(e) for e in v]])
    n = int(np.prod(shape))
    out.append(['idx', [[rng.randrange(s) for _ in range(4)] for s in shape]])
    out.append(['idx', [[rng.randrange(-s, s) for _ in range(3)] for s in shape]])
    # index arrays with as many dimensions as the data
    sub = tuple([2] * nd)
    out.append(['idx', [np.array([rng.randrange(s) for _ in range(2 ** nd)]).reshape(sub).tolist() for s in shape]])
    out.append(['bool', np.array([rng.random() < .5 for _ in range(n)]).reshape(shape).tolist()])
    out.append(['bool', np.ones(shape, dtype=bool).tolist()])
    out.append(['bool', np.zeros(shape, dtype=bool).tolist()])
    # every kind also bare, i.e. not wrapped in a tuple (slice vs (slice,), int vs (int,), array vs (array,))
    for e in alphabet + [[None, -1, None], [-3, None, 2], [2, 1, None]]:
        out.append(['bare', e if isinstance(e, int) else list(e)])
    out.append(['bareidx', [rng.randrange(-shape[0], shape[0]) for _ in range(3)]])
    out.append(['idx1', [rng.randrange(-shape[0], shape[0]) for _ in range(3)]])
    out.append(['bool1', np.array([rng.random() < .5 for _ in range(n)]).reshape(shape).tolist()])
    return out


# ------------------------------------------------------------------ datasets
class G:
    ready = False

    @classmethod
    def load(cls):
        if cls.ready:
            return
        import glue.core as gc
        from glue.core import Data, DataCollection
        from glue.core.component_id import ComponentID
        from glue.core.coordinates import AffineCoordinates, IdentityCoordinates
        from glue.core.component_link import ComponentLink
        from glue.core.link_helpers import LinkSame
        from glue.core.data_derived import IndexedData
        from glue.core import subset as S
        from glue.core import roi as ROI
        from glue.core.component import CoordinateComponent
        from glue.core.coordinate_helpers import dependent_axes
        for k, v in list(locals().items()):
            if k != 'cls':
                setattr(cls, k, v)
        cls.ready = True


def make_dataset(shape, coordkind, seed):
    """deterministic dataset with every attribute kind; values are small dyadics"""
    import random
    G.load()
    rng = random.Random('%r|%s|%d' % (tuple(shape), coordkind, seed))
    nd = len(shape)
    n = int(np.prod(shape))
    x = np.array([rng.randrange(-4, 9) / 2 for _ in range(n)]).reshape(shape)
    y = np.array([rng.randrange(0, 6) for _ in range(n)]).reshape(shape)
    c = np.array([rng.choice('abc') for _ in range(n)]).reshape(shape)
    if coordkind == 'none':
        coords = None
    elif coordkind == 'identity':
        coords = G.IdentityCoordinates(n_dim=nd)
    else:
        m = np.eye(nd + 1)
        for i in range(nd):
            m[i, i] = 2.0
            m[i, nd] = i + 0.5
        if nd >= 2 and coordkind == 'affine_dep':
            m[0, 1] = 0.5
            m[1, 0] = -1.0
        coords = G.AffineCoordinates(m)
    d = G.Data(x=x, y=y, c=c, coords=coords, label='d')
    d['der'] = d.id['x'] * 2 + d.pixel_component_ids[0]
    lnk = G.ComponentLink([d.id['x'], d.id['y']], G.ComponentID('lnk'), using=_minus)
    d.add_component_link(lnk)
    d2 = G.Data(w=x + 1, label='d2')
    dc = G.DataCollection([d, d2])
    dc.add_link(G.LinkSame(d.id['x'], d2.id['w']))
    return d, d2, dc, rng


def _minus(a, b):
    return a - b


def attributes(d, d2):
    atts = [('stored', d, d.id['x']), ('categorical', d, d.id['c']), ('derived', d, d.id['der']), ('derived_link', d, d.id['lnk']),
            ('linked', d2, d.id['x'])]
    for i, p in enumerate(d.pixel_component_ids):
        atts.append(('pixel%d' % i, d, p))
    if d.coords is not None:
        for i, w in enumerate(d.world_component_ids):
            atts.append(('world%d' % i, d, w))
    return atts


def selections(d, rng):
    S, ROI = G.S, G.ROI
    nd = d.ndim
    shape = d.shape
    pix = d.pixel_component_ids
    n = int(np.prod(shape))
    sels = [
        ('ineq', d.id['x'] > 0.5), ('ineq_der', d.id['der'] > 1), ('ineq_pix', pix[-1] >= 1), ('range', S.RangeSubsetState(0, 2, d.id['x'])),
        ('range_pix', S.RangeSubsetState(1, 2, pix[0])),
        ('mask', S.MaskSubsetState(np.array([rng.random() < .5 for _ in range(n)]).reshape(shape), pix)),
        ('slice', S.SliceSubsetState(d, [slice(1, None)] + [slice(None, None, 2)] * (nd - 1))), ('slice_short', S.SliceSubsetState(d, [slice(0, 2)])),
        ('cat', S.CategoricalROISubsetState(att=d.id['c'], roi=ROI.CategoricalROI(['a', 'c']))), ('empty', S.SubsetState()),
        ('roi_xy', S.RoiSubsetState(d.id['x'], d.id['y'], ROI.RectangularROI(-1, 2, 0.5, 4.5))),
        ('element', S.ElementSubsetState([0, 2], data=d)),
        # flat indices counted from the end, repeated, unordered
        ('element_neg', S.ElementSubsetState([-1, 0, -n + 1 if n > 1 else 0], data=d)), ('element_dup', S.ElementSubsetState([1 % n, 1 % n, -2 % n, n - 1], data=d)),
        ('element_arr', S.ElementSubsetState(np.array([-2, 0, -2]) if n > 1 else np.array([0]), data=d)), ('element_empty', S.ElementSubsetState([], data=d)),
        ('multirange', S.MultiRangeSubsetState([(0, 1), (2, 3)], pix[-1])),
    ]
    if nd >= 2:
        sels += [('roi_pixpix', S.RoiSubsetState(pix[0], pix[-1], ROI.RectangularROI(-.5, 1.5, .5, 2.5))),
                 ('roi_pixpix_circ', S.RoiSubsetState(pix[-1], pix[0], ROI.CircularROI(1, 1, 1.2))),
                 ('roi_pix_stored', S.RoiSubsetState(pix[0], d.id['x'], ROI.RectangularROI(-.5, 1.5, -1, 2.5)))]
    if nd >= 3:
        sels += [('roi_pixpix_mid', S.RoiSubsetState(pix[1], pix[0], ROI.PolygonalROI([-.5, 2.5, 2.5, -.5], [-.5, -.5, 1.4, 0.6])))]
    if d.coords is not None:
        sels.append(('ineq_world', d.world_component_ids[-1] > 2))
        if nd >= 2:
            sels.append(('roi_pix_world', S.RoiSubsetState(pix[0], d.world_component_ids[-1], ROI.RectangularROI(-.5, 1.5, 0, 5))))
    dct = dict(sels)
    sels += [('and', dct['ineq'] & dct['slice']), ('or', dct['range_pix'] | dct['mask']), ('xor', dct['ineq'] ^ dct['range_pix']),
             ('not', ~dct['slice']), ('multior', S.MultiOrState([dct['ineq'], dct['range_pix']]))]
    return sels


def linked_pixel_rois(d, dc):
    """ROIs on the pixel coordinates of OTHER datasets (2-d images) whose pixel axes are linked (LinkSame) to two axes of d,
    at permuted positions and with d having more dimensions than the ROI has attributes.
    Returns (name, state, reference mask over d from first principles, axes of d in attribute order, roi)"""
    G.load()
    nd = d.ndim
    shape = d.shape
    pairings = {1: [], 2: [(0, 1), (1, 0)], 3: [(1, 2), (2, 0), (0, 1)]}.get(nd, [(1, 2), (3, 0)])
    out = []
    grid = np.indices(shape)
    for k, (p0, p1) in enumerate(pairings):
        img = G.Data(w=np.zeros((shape[p0], shape[p1])), label='img%d' % k)
        dc.append(img)
        dc.add_link(G.LinkSame(img.pixel_component_ids[0], d.pixel_component_ids[p0]))
        dc.add_link(G.LinkSame(img.pixel_component_ids[1], d.pixel_component_ids[p1]))
        for r, roi in enumerate([G.ROI.RectangularROI(xmin=0.5, xmax=2.5, ymin=-0.5, ymax=1.5), G.ROI.CircularROI(1, 1, 1.2)]):
            state = G.S.RoiSubsetState(xatt=img.pixel_component_ids[1], yatt=img.pixel_component_ids[0], roi=roi)
            ref = np.asarray(roi.contains(grid[p1].astype(float), grid[p0].astype(float)), dtype=bool)
            out.append(('roi_linkedpix_%d%d_%d' % (p0, p1, r), state, ref, [p1, p0], roi))
    return out


# ------------------------------------------------------------------ comparison
def same(a, b):
    a, b = np.asarray(a), np.asarray(b)
    if a.shape != b.shape:
        return 'shape %s vs %s' % (list(a.shape), list(b.shape))
    if a.dtype.kind in 'USO' or b.dtype.kind in 'USO':
        return None if bool(np.all(a == b)) else 'values differ'
    with warnings.catch_warnings():
        warnings.simplefilter('ignore')
        ok = (a == b) | ((a != a) & (b != b))
    return None if bool(np.all(ok)) else 'values differ'


def call(f):
    try:
        with warnings.catch_warnings():
            warnings.simplefilter('ignore')
            return ('ok', f())
    except Exception as e:  # noqa
        return ('err', type(e).__name__, str(e)[:100])


def expected_view(full, v):
    """numpy's own answer; None when numpy rejects the view (then the case is outside the domain)"""
    try:
        return ('ok', np.asarray(full) if v is None else np.asarray(full)[v])
    except Exception as e:  # noqa
        return ('err', type(e).__name__)


# ------------------------------------------------------------------ model lines
def line_world(shape, dep, vd):
    return enc((3, [Z(shape), Z(dep), view_enc(vd)]))


def line_roi(shape, axis_ids, table, vd, own=True):
    return enc((2, [Z(shape), Z(axis_ids), Z(table.shape), B(table.ravel().tolist()), view_enc(vd), int(own)]))


def line_slice(shape, slices, vd):
    return enc((1, [Z(shape), (0, [sl_enc(s) for s in slices]), view_enc(vd)]))


def line_indexed(shape, indices, vd):
    return enc((4, [Z(shape), (0, [opt(i) for i in indices]), view_enc(vd)]))


def world_value(d, axis, pix):
    """world coordinate `axis` (numpy order) at the pixel tuple pix (numpy order), through the Coordinates API directly"""
    nd = d.ndim
    w = d.coords.pixel_to_world_values(*[float(p) for p in pix[::-1]])
    if nd == 1:
        return float(np.asarray(w).ravel()[0])
    return float(w[nd - 1 - axis])


def dec_mask(o):
    return to_zs(kids(o)[0]), np.array(to_zs(kids(o)[1]), dtype=bool)


# ------------------------------------------------------------------ stream: cross product on datasets
def stream_cross(R):
    G.load()
    shapes = R.pick([(4,), (3, 4), (1, 3), (2, 3, 4), (3, 1, 2)], [(4,), (5,), (3, 4), (1, 3), (2, 2), (4, 3), (2, 3, 4), (3, 1, 2), (2, 2, 3), (3, 3, 2)])
    coordkinds = ['none', 'identity', 'affine', 'affine_dep']
    pending = []          # (case, impl_result, model_line, model_check)
    ncases = 0
    for shape in shapes:
        for ck in coordkinds:
            d, d2, dc, rng = make_dataset(shape, ck, R.seed)
            nd = len(shape)
            alphabet = ALPHABET
            views = all_views(shape, rng, alphabet)
            vobjs = [view_obj(v) for v in views]
            base = {'stream': 'cross', 'shape': list(shape), 'coords': ck, 'seed': R.seed}
            # ---- attributes
            for name, owner, cid in attributes(d, d2):
                if ck != 'none' and not name.startswith('world') and ck != 'identity':
                    continue        # the non-world attributes do not depend on the coordinates: once per shape is enough
                if ck == 'none' and name.startswith('world'):
                    continue
                full = owner[cid]
                for vd, v in zip(views, vobjs):
                    exp = expected_view(full, v)
                    if exp[0] == 'err':
                        continue
                    case = dict(base, kind='att', name=name, view=vd)
                    got = call(lambda: owner.get_data(cid, view=v) if v is not None else owner[cid])
                    ncases += 1
                    trivial = vd in ('none', 'ellipsis') or np.asarray(exp[1]).size == 0
                    R.count((tuple(shape), ck, 'att', name, repr(vd)), nontrivial=not trivial, stream='cross', what='att:' + name.rstrip('0123456789'),
                            view=view_kind(vd), ndim=nd)
                    check_oracle(R, case, got, exp[1])
                    if name.startswith('world') and is_basic(vd):
                        axis = int(name[5:])
                        dep = [int(a) for a in G.dependent_axes(d.coords, axis)]
                        pending.append((case, got, line_world(shape, dep, vd), ('world', d, axis)))
            # ---- selections
            if ck in ('none', 'affine_dep'):
                linked = {}
                sel_list = selections(d, rng)
                for name, st, ref, ax, roi in linked_pixel_rois(d, dc):
                    sel_list.append((name, st))
                    linked[name] = (ref, ax, roi)
                for name, st in sel_list:
                    fullr = call(lambda: d.get_mask(st))
                    if fullr[0] == 'err':
                        R.fail('oracle', dict(base, kind='mask', name=name, view='none'), {'raises': fullr[1], 'message': fullr[2]}, key=None)
                        continue
                    full = np.asarray(fullr[1])
                    if name in linked:
                        # the full-size mask itself against the definition (both the view and the full mask could be wrong together)
                        ncases += 1
                        R.count((tuple(shape), ck, 'mask_ref', name), nontrivial=bool(linked[name][0].any()), stream='cross', what='mask:roi_linkedpix', view='reference', ndim=nd)
                        check_oracle(R, dict(base, kind='mask', name=name, view='none', against='reference'), ('ok', full), linked[name][0])
                    for vd, v in zip(views, vobjs):
                        exp = expected_view(full, v)
                        if exp[0] == 'err':
                            continue
                        case = dict(base, kind='mask', name=name, view=vd)
                        got = call(lambda: d.get_mask(st, view=v))
                        ncases += 1
                        trivial = vd in ('none', 'ellipsis') or np.asarray(exp[1]).size == 0 or not np.asarray(exp[1]).any()
                        R.count((tuple(shape), ck, 'mask', name, repr(vd)), nontrivial=not trivial, stream='cross', what='mask:' + (name if name not in linked else 'roi_linkedpix'),
                                view=view_kind(vd), ndim=nd)
                        check_oracle(R, case, got, exp[1])
                        if is_basic(vd):
                            if name in ('slice', 'slice_short'):
                                sl = [[s.start, s.stop, s.step] for s in st.slices]
                                pending.append((case, got, line_slice(shape, sl, vd), ('mask',)))
                            elif name.startswith('roi_pixpix'):
                                ax = [a.axis for a in st.attributes]
                                grid = np.meshgrid(np.arange(shape[ax[0]], dtype=float), np.arange(shape[ax[1]], dtype=float), indexing='ij')
                                table = np.asarray(st.roi.contains(grid[0], grid[1]), dtype=bool)
                                pending.append((case, got, line_roi(shape, ax, table, vd), ('mask',)))
                            elif name in linked:
                                ref, ax, roi = linked[name]
                                grid = np.meshgrid(np.arange(shape[ax[0]], dtype=float), np.arange(shape[ax[1]], dtype=float), indexing='ij')
                                table = np.asarray(roi.contains(grid[0], grid[1]), dtype=bool)
                                pending.append((case, got, line_roi(shape, ax, table, vd, own=False), ('mask',)))
    outs = R.model([p[2] for p in pending])
    for (case, got, _, chk), o in zip(pending, outs):
        check_model(R, case, got, o, chk)
    R.sample({'stream': 'cross', 'shape': [3, 4], 'coords': 'affine_dep', 'seed': R.seed, 'kind': 'att', 'name': 'world1', 'view': ['tuple', [0, [0, None, 2]]]})
    R.stream('cross', cases=ncases, model_cases=len(pending), exhaustive=True,
             bound='shapes %s x coordinates {none, identity, affine, affine with dependent axes}; attributes stored/categorical/derived(x2)/linked/pixel*/world*; '
                   '%d selection kinds; views None, Ellipsis, every tuple over {0,-1,[:],[1:],[0::2],[1:3]} of length 0..ndim, '
                   '3 index-array tuples (incl. negative entries and n-d arrays), 3 boolean masks' % (shapes, 27))


def finding_key(case):
    """known finding 'world-array-tuple-not-one-per-axis': ONLY a world attribute (or a selection built on one) under a tuple view whose
    entries are arrays but not one integer index array per axis: (boolean mask,) or fewer index arrays than dimensions"""
    vd = case.get('view')
    name = str(case.get('name', ''))
    if case.get('stream') in ('cross', 'corpus') and isinstance(vd, list) and (name.startswith('world') or name in ('ineq_world', 'roi_pix_world')):
        if vd[0] == 'bool1' or (vd[0] == 'idx1' and len(case.get('shape', [])) > 1):
            return 'world-array-tuple-not-one-per-axis'
    # known finding 'indexed-bool-mask-in-tuple': ONLY IndexedData values / masks under (mask,) with a mask of >= 2 dimensions
    if case.get('stream') == 'indexed' and isinstance(vd, list) and vd[0] == 'bool1' and np.asarray(vd[1]).ndim >= 2 and case.get('kind') in ('values', 'mask'):
        return 'indexed-bool-mask-in-tuple'
    return None


def check_oracle(R, case, got, exp):
    if got[0] == 'err':
        R.fail('oracle', case, {'raises': got[1], 'message': got[2], 'expected_shape': list(np.asarray(exp).shape)}, key=finding_key(case))
        return False
    diff = same(got[1], exp)
    if diff:
        R.fail('oracle', case, {'difference': diff, 'result': np.asarray(got[1]).tolist(), 'expected': np.asarray(exp).tolist()}, key=finding_key(case))
        return False
    return True


def check_model(R, case, got, o, chk):
    if is_err(o):
        if got[0] != 'err':
            R.fail('correspondence', case, {'model': 'error %s' % err_code(o), 'impl': 'ok'})
        return
    if got[0] == 'err':
        R.fail('correspondence', case, {'model': 'ok', 'impl': got[1:]})
        return
    res = np.asarray(got[1])
    if chk[0] == 'mask':
        sh, m = dec_mask(o)
        if tuple(sh) != res.shape or not np.array_equal(m.reshape(sh), res):
            R.fail('correspondence', case, {'model_shape': sh, 'impl_shape': list(res.shape), 'model': m.astype(int).tolist(), 'impl': res.astype(int).ravel().tolist()})
    elif chk[0] == 'world':
        _, d, axis = chk
        sh = to_zs(kids(o)[0])
        pts = [to_zs(t) for t in kids(kids(o)[1])]
        vals = np.array([world_value(d, axis, p) for p in pts], dtype=float).reshape(sh)
        if tuple(sh) != res.shape or not np.array_equal(vals, res):
            R.fail('correspondence', case, {'model_shape': sh, 'impl_shape': list(res.shape), 'model': vals.tolist(), 'impl': res.tolist()})


# ------------------------------------------------------------------ corpus of the historic defect inputs (always first)
def corpus_items():
    """(id, what, function) ; each function returns a list of (label, thunk computing the result, expected value):
    the inputs of the twelve repaired defects and of the seeded changes C04-1 .. C04-6"""
    G.load()
    S, ROI = G.S, G.ROI
    A = np.arange
    items = []

    def item(fn):
        items.append((fn.__name__, fn.__doc__, fn))
        return fn

    @item
    def fix_world_array_view():
        """F-C04a: world attribute with a boolean mask / a bare index array"""
        d = G.Data(x=A(4.), coords=G.IdentityCoordinates(n_dim=1))
        w = d.world_component_ids[0]
        m = np.array([True, False, True, True])
        return [('mask', lambda: d[w, m], d[w][m]), ('index array', lambda: d[w, np.array([0, 2])], d[w][np.array([0, 2])])]

    @item
    def fix_join_component_view():
        """derived (ComponentLink) and linked attributes with a boolean mask and with the empty tuple"""
        d = G.Data(x=A(12.).reshape(3, 4), label='a')
        d.add_component_link(G.ComponentLink([d.id['x']], G.ComponentID('l'), using=_ident))
        d2 = G.Data(w=A(12.).reshape(3, 4) + 1, label='b')
        dc = G.DataCollection([d, d2])
        dc.add_link(G.LinkSame(d.id['x'], d2.id['w']))
        m = (A(12).reshape(3, 4) % 3 == 0)
        return [('derived, mask', lambda: d[d.id['l'], m], d[d.id['l']][m]), ('derived, ()', lambda: d[d.id['l'], ()], d[d.id['l']]),
                ('linked, mask', lambda: d2[d.id['x'], m], d2[d.id['x']][m])]

    @item
    def fix_empty_tuple_view():
        """empty tuple view on a world attribute and on a SliceSubsetState"""
        d = G.Data(x=A(4.), coords=G.IdentityCoordinates(n_dim=1))
        st = S.SliceSubsetState(d, [slice(1)])
        return [('world', lambda: d[d.world_component_ids[0], ()], d[d.world_component_ids[0]]), ('slice state', lambda: d.get_mask(st, view=()), d.get_mask(st))]

    @item
    def fix_slice_state_negative_int():
        """SliceSubsetState with a negative integer in the view"""
        d = G.Data(x=np.zeros((3, 4)))
        st = S.SliceSubsetState(d, [slice(1, None)])
        return [('(-1,)', lambda: d.get_mask(st, view=(-1,)), np.asarray(d.get_mask(st))[-1]), ('(-1, slice)', lambda: d.get_mask(st, view=(-1, slice(1, None))), np.asarray(d.get_mask(st))[-1, 1:])]

    @item
    def fix_empty_world_view():
        """world attribute with a view that selects nothing along an axis"""
        d = G.Data(x=np.zeros((1, 3)), coords=G.IdentityCoordinates(n_dim=2))
        w = d.world_component_ids[0]
        return [('[1:]', lambda: d[w, (slice(1, None),)], d[w][1:])]

    @item
    def fix_categorical_scalar_view():
        """CategoricalROISubsetState with an all-integer view"""
        d = G.Data(c=np.array(['a', 'b', 'a']))
        st = S.CategoricalROISubsetState(att=d.id['c'], roi=ROI.CategoricalROI(['a']))
        return [('(0,)', lambda: d.get_mask(st, view=(0,)), np.asarray(d.get_mask(st))[0])]

    @item
    def fix_scalar_view_subset_axis():
        """F-C04b: IndexedData.compute_statistic with a subset state and an axis"""
        x = A(24.).reshape(2, 3, 4)
        d = G.Data(x=x)
        ix = G.IndexedData(d, (None, None, 0))
        return [('sum axis 0', lambda: ix.compute_statistic('sum', d.id['x'], subset_state=d.id['x'] > 2, axis=0), textbook_sum(x[:, :, 0], x[:, :, 0] > 2, 0))]

    @item
    def fix_indexed_views():
        """IndexedData views: Ellipsis, shorter tuple, bare slice, boolean mask"""
        x = A(24.).reshape(2, 3, 4)
        d = G.Data(x=x)
        ix = G.IndexedData(d, (None, 1, None))
        c = ix.main_components[0]
        m = (A(8).reshape(2, 4) % 3 == 0)
        r = x[:, 1, :]
        return [('Ellipsis', lambda: ix.get_data(c, view=Ellipsis), r), ('(0,)', lambda: ix.get_data(c, view=(0,)), r[0]),
                ('bare slice', lambda: ix.get_data(c, view=slice(1, None)), r[1:]), ('mask', lambda: ix.get_data(c, view=m), r[m])]

    @item
    def fix_indexed_histogram_cid():
        """IndexedData.compute_histogram with the component ids of the indexed dataset"""
        x = A(24.).reshape(2, 3, 4)
        d = G.Data(x=x)
        ix = G.IndexedData(d, (None, 1, None))
        return [('histogram', lambda: ix.compute_histogram([ix.main_components[0]], range=[(-0.5, 23.5)], bins=[3]), np.histogram(x[:, 1, :], range=(-0.5, 23.5), bins=3)[0])]

    @item
    def fix_roi_shortcut_nd_index_arrays():
        """pixel-space ROI shortcut with index arrays that have as many dimensions as the data"""
        d = G.Data(x=np.zeros((2, 3, 4)))
        p = d.pixel_component_ids
        st = S.RoiSubsetState(p[0], p[2], ROI.RectangularROI(-.5, 1.5, .5, 2.5))
        v = tuple(np.random.RandomState(0).randint(0, n, size=(2, 2, 2)) for n in d.shape)
        return [('3-d arrays', lambda: d.get_mask(st, v), np.asarray(d.get_mask(st))[v])]

    @item
    def fix_world_negative_index_arrays():
        """world attribute with negative entries in integer index arrays (also seeded C04-5: non-square shape)"""
        d = G.Data(x=np.zeros((3, 5)), coords=G.IdentityCoordinates(n_dim=2))
        v = (np.array([-1, 0, -3]), np.array([-1, -4, 2]))
        out = []
        for k, w in enumerate(d.world_component_ids):
            out.append(('axis %d' % k, (lambda w=w: d[w, v]), d[w][v]))
        return out

    @item
    def fix_slice_state_int_and_arrays():
        """SliceSubsetState with integers mixed with index arrays (IndexedData.get_mask with index arrays)"""
        d = G.Data(x=np.zeros((3, 4)))
        st = S.SliceSubsetState(d, [slice(1, None)])
        return [('indexed', lambda: G.IndexedData(d, (1, None)).get_mask(st, view=(np.array([0, 2]),)), np.asarray(d.get_mask(st))[1][np.array([0, 2])])]

    @item
    def seed1_roi_on_linked_pixels():
        """seeded C04-1: ROI on the pixel coordinates of a 2-d image linked to the last two axes of a cube"""
        cube = G.Data(v=A(24.).reshape(2, 3, 4), label='cube')
        image = G.Data(w=A(12.).reshape(3, 4), label='image')
        dc = G.DataCollection([cube, image])
        dc.add_link(G.LinkSame(image.pixel_component_ids[0], cube.pixel_component_ids[1]))
        dc.add_link(G.LinkSame(image.pixel_component_ids[1], cube.pixel_component_ids[2]))
        st = S.RoiSubsetState(xatt=image.pixel_component_ids[1], yatt=image.pixel_component_ids[0], roi=ROI.RectangularROI(1.5, 3.5, 0.5, 2.5))
        k, j, i = np.meshgrid(A(2), A(3), A(4), indexing='ij')
        ref = (i > 1.5) & (i < 3.5) & (j > 0.5) & (j < 2.5)
        out = [('full mask', lambda: cube.get_mask(st), ref)]
        for v in [(0,), (slice(None), 1), (slice(None), slice(None), 3), (slice(None), slice(1, 3), slice(1, None, 2))]:
            out.append((repr(v), (lambda v=v: cube.get_mask(st, view=v)), ref[v]))
        return out

    @item
    def seed2_indexed_negative_index_histogram():
        """seeded C04-2: histogram of an IndexedData whose index is -1"""
        x = A(60.).reshape(3, 4, 5)
        d = G.Data(x=x)
        ix = G.IndexedData(d, (None, 1, None))
        ix.indices = (None, -1, None)
        exp = np.histogram(x[:, -1, :], range=(-0.5, 59.5), bins=6)[0]
        return [('reassigned', lambda: ix.compute_histogram([d.id['x']], range=[(-0.5, 59.5)], bins=[6]), exp),
                ('fresh', lambda: G.IndexedData(d, (None, -1, None)).compute_histogram([d.id['x']], range=[(-0.5, 59.5)], bins=[6]), exp)]

    @item
    def seed3_indexed_read_reassign_read():
        """seeded C04-3: read without a view, reassign the indices, read again without a view"""
        x = A(24.).reshape(2, 3, 4)
        d = G.Data(x=x)
        ix = G.IndexedData(d, (None, 0, None))
        ix.get_data(d.id['x'])
        ix.get_mask(d.id['x'] > 5)
        ix.indices = (None, 2, None)
        return [('values', lambda: ix.get_data(d.id['x']), x[:, 2, :]), ('mask', lambda: ix.get_mask(d.id['x'] > 5), x[:, 2, :] > 5),
                ('statistic', lambda: ix.compute_statistic('sum', d.id['x']), x[:, 2, :].sum())]

    @item
    def seed4_slice_state_negative_index_arrays():
        """seeded C04-4: SliceSubsetState under one integer index array per axis with negative entries"""
        d = G.Data(x=np.zeros((3, 4)))
        st = S.SliceSubsetState(d, [slice(1, None), slice(None, None, 2)])
        v = (np.array([-1, 0, -2, 2]), np.array([-2, 0, -4, 1]))
        return [('arrays', lambda: d.get_mask(st, view=v), np.asarray(d.get_mask(st))[v])]

    @item
    def seed6_element_state_bare_slice():
        """seeded C04-6: ElementSubsetState with indices counted from the end, 1-d data, a bare slice as view"""
        d = G.Data(x=A(6.))
        st = S.ElementSubsetState([-1, 0, -3, -3], data=d)
        full = np.zeros(6, dtype=bool)
        full[[-1, 0, -3]] = True
        out = [('full mask', lambda: d.get_mask(st), full)]
        for sl_ in (slice(None), slice(2, None), slice(1, None, 2), slice(None, -1)):
            out.append(('bare %r' % (sl_,), (lambda sl_=sl_: d.get_mask(st, view=sl_)), full[sl_]))
            out.append(('tuple (%r,)' % (sl_,), (lambda sl_=sl_: d.get_mask(st, view=(sl_,))), full[sl_]))
        return out

    return items


def _ident(a):
    return a


def stream_corpus(R):
    n = 0
    for cid, what, fn in corpus_items():
        r = call(fn)
        if r[0] == 'err':
            R.fail('oracle', {'stream': 'corpus', 'id': cid, 'what': what, 'label': 'setup'}, {'raises': r[1], 'message': r[2]}, key=None)
            continue
        for label, thunk, exp in r[1]:
            n += 1
            case = {'stream': 'corpus', 'id': cid, 'what': what, 'label': label}
            R.count(('corpus', cid, label), nontrivial=True, stream='corpus', what='corpus')
            check_oracle(R, case, call(thunk), exp)
    R.stream('corpus', cases=n, exhaustive=True,
             bound='fixed inputs of the twelve repaired defects (F-C04a, join_component_view, empty tuple, negative integer, empty world view, categorical scalar, '
                   'F-C04b, IndexedData views, IndexedData histogram ids, n-d index arrays in the ROI shortcut, negative index arrays, integers mixed with index arrays) '
                   'and of the seeded changes C04-1 .. C04-6')


# ------------------------------------------------------------------ stream: SliceSubsetState, small-scope exhaustive
def stream_slice_state(R):
    G.load()
    cases = []
    for n in R.pick([4, 5], [3, 4, 5, 6]):
        vals = [None, 0, 1, 2, n - 1, n, -1, -2]
        sls = [[a, b, s] for a in vals for b in vals for s in (None, 1, 2, 3)]
        ents = sls + list(range(-n, n))
        for st in sls:
            for e in ents:
                cases.append(((n,), [st], ['tuple', [e]]))
    # 2-d: state slices x views over a smaller alphabet, including short state slice lists and short views
    small = [[None, None, None], [1, None, None], [None, 2, None], [0, None, 2], [1, 3, 2], [2, 1, None], [-2, None, None]]
    vsmall = small + [0, 1, -1]
    for shape in [(3, 4), (2, 3)]:
        for st in itertools.chain(itertools.product(small, repeat=2), [(s,) for s in small]):
            for ln in (0, 1, 2):
                for v in itertools.product(vsmall, repeat=ln):
                    cases.append((shape, [list(s) for s in st], ['tuple', [e if isinstance(e, int) else list(e) for e in v]]))
    total = len(cases)
    limit = R.pick(120000, 1000000)
    if len(cases) > limit:
        cases = R.subrng('slice_state').sample(cases, limit)
        R.note('slice_state stream sampled to %d of %d enumerated cases' % (limit, total))
    outs = R.model([line_slice(sh, st, vd) for sh, st, vd in cases])
    datas = {}
    fulls = {}
    for (sh, st, vd), o in zip(cases, outs):
        if sh not in datas:
            datas[sh] = G.Data(x=np.zeros(sh))
        d = datas[sh]
        key = (sh, repr(st))
        if key not in fulls:
            state = G.S.SliceSubsetState(d, [slice(*s) for s in st])
            fulls[key] = (state, np.asarray(d.get_mask(state)))
        state, full = fulls[key]
        v = view_obj(vd)
        exp = expected_view(full, v)
        if exp[0] == 'err':
            continue
        case = {'stream': 'slice_state', 'shape': list(sh), 'slices': st, 'view': vd}
        got = call(lambda: d.get_mask(state, view=v))
        R.count((sh, repr(st), repr(vd)), nontrivial=bool(np.asarray(exp[1]).any()), stream='slice_state', view=view_kind(vd), ndim=len(sh))
        check_oracle(R, case, got, exp[1])
        check_model(R, case, got, o, ('mask',))
    R.sample({'stream': 'slice_state', 'shape': [5], 'slices': [[1, None, 2]], 'view': ['tuple', [[0, None, 3]]]})
    R.stream('slice_state', cases=len(cases), enumerated=total, exhaustive=(len(cases) == total),
             bound='1-d lengths 4,5 (thorough 3..6): state slice and view entry each over start/stop in {None,0,1,2,n-1,n,-1,-2} x step {None,1,2,3} plus every integer; '
                   '2-d shapes (3,4),(2,3): 7 slices per axis (incl. empty and negative bounds), state lists of length 1..2, views of length 0..2 incl. integers')


# ------------------------------------------------------------------ stream: IndexedData
def textbook_sum(x, mask, ax):
    a = np.where(mask, x, np.nan) if mask is not None else np.array(x, dtype=float)
    cnt = np.isfinite(a).sum(axis=ax)
    with warnings.catch_warnings():
        warnings.simplefilter('ignore')
        return np.where(cnt == 0, np.nan, np.nansum(a, axis=ax))


def stream_indexed(R):
    G.load()
    shapes = R.pick([(3, 4), (2, 5, 3)], [(3, 4), (2, 5, 3), (2, 3, 4), (3, 2, 2), (2, 2, 2, 3)])
    pending = []
    ncases = 0
    for shape in shapes:
        for ck in ('none', 'identity'):
            d, d2, dc, rng = make_dataset(shape, ck, R.seed + 1)
            nd = len(shape)
            x = d['x']
            for pattern in itertools.product([None, 'i'], repeat=nd):
                if all(p is None for p in pattern) or all(p == 'i' for p in pattern):
                    continue
                ix = None
                removed = [k for k, p in enumerate(pattern) if p is not None]
                for trial in range(3):
                    # indices count from either end (negative ones are ordinary numpy indices); -1 is always included:
                    # trial 0: random; trial 1: reassigned, -1 on the first removed axis; trial 2: a fresh IndexedData with -1 on the last one
                    idx = [None if p is None else rng.randrange(-s, s) for p, s in zip(pattern, shape)]
                    if trial == 1:
                        idx[removed[0]] = -1
                    if trial == 2:
                        idx[removed[-1]] = -1
                        ix = None
                    if ix is None:
                        ix = G.IndexedData(d, tuple(idx))
                    else:
                        ix.indices = tuple(idx)          # reassigned
                    base = {'stream': 'indexed', 'shape': list(shape), 'coords': ck, 'seed': R.seed + 1, 'indices': idx, 'reassigned': trial == 1}
                    psl = tuple(slice(None) if i is None else i for i in idx)
                    rshape = x[psl].shape
                    rnd = len(rshape)
                    alphabet = [0, -1, [None, None, None], [1, None, None], [0, None, 2]]
                    views = all_views(rshape, rng, alphabet)
                    cid = [c for c in ix.main_components if c.label == 'x'][0]

                    def one(what, case, f, exp, model_line=None):
                        nonlocal ncases
                        ncases += 1
                        got = call(f)
                        R.count((tuple(shape), ck, tuple(idx), what, repr(case.get('view')), repr(case.get('sel')), repr(case.get('axis'))),
                                nontrivial=np.asarray(exp).size > 0, stream='indexed', what='indexed:' + what, ndim=nd)
                        check_oracle(R, case, got, exp)
                        if model_line is not None:
                            pending.append((case, got, model_line, x))
                    if ix.shape != rshape:
                        R.fail('oracle', dict(base, kind='shape'), {'shape': list(ix.shape), 'expected': list(rshape)}, key=None)
                    for vd in views:
                        v = view_obj(vd)
                        exp = expected_view(x[psl], v)
                        if exp[0] == 'err':
                            continue
                        one('values', dict(base, kind='values', view=vd), lambda: ix.get_data(cid, view=v), exp[1],
                            line_indexed(shape, idx, vd) if is_basic(vd) else None)
                    for k in range(rnd):
                        one('pixel', dict(base, kind='pixel', axis=k), lambda: ix.get_data(ix.pixel_component_ids[k]), np.indices(rshape)[k])
                        if ck != 'none':
                            oax = [i for i, p in enumerate(idx) if p is None][k]
                            one('world', dict(base, kind='world', axis=k), lambda: ix.get_data(ix.world_component_ids[k]),
                                d[d.world_component_ids[oax]][psl])
                    n = int(np.prod(shape))
                    mlit = [int(rng.random() < .5) for _ in range(n)]
                    base = dict(base, mask_literal=mlit)
                    sels = [('ineq', d.id['y'] > 2), ('mask', G.S.MaskSubsetState(np.array(mlit, dtype=bool).reshape(shape), d.pixel_component_ids)),
                            ('slice', G.S.SliceSubsetState(d, [slice(1, None)])), ('range_pix', G.S.RangeSubsetState(1, 2, d.pixel_component_ids[-1]))]
                    for sn, st in sels:
                        full = np.asarray(d.get_mask(st))[psl]
                        for vd in views:
                            v = view_obj(vd)
                            exp = expected_view(full, v)
                            if exp[0] == 'err':
                                continue
                            one('mask', dict(base, kind='mask', sel=sn, view=vd), lambda: ix.get_mask(st, view=v), exp[1])
                    for sn, st in [('none', None)] + sels:
                        mfull = None if st is None else np.asarray(d.get_mask(st))[psl]
                        for ax in [None] + list(range(rnd)) + [tuple(range(rnd))] + ([tuple(range(1, rnd))] if rnd > 1 else []):
                            one('statistic', dict(base, kind='statistic', sel=sn, axis=ax),
                                lambda: ix.compute_statistic('sum', cid, subset_state=st, axis=ax), textbook_sum(x[psl], mfull, ax))
                        if st is not None:
                            # a view whose slices start at the end of every kept axis (beyond the lengths of the earlier dimensions)
                            for off in (1, 2):
                                vd = ['tuple', [[max(s - off, 0), None, None] for s in rshape]]
                                v = view_obj(vd)
                                for ax in [None] + list(range(rnd)):
                                    one('statistic', dict(base, kind='statistic', sel=sn, axis=ax, view=vd),
                                        lambda: ix.compute_statistic('sum', cid, subset_state=st, axis=ax, view=v),
                                        textbook_sum(x[psl][v], mfull[v], ax))
                        vals = x[psl].ravel() if st is None else x[psl][mfull]
                        # 5 bins over (-2.25, 4.75): no data value (multiples of 1/2) sits on a bin edge
                        exph = np.histogram(vals, range=(-2.25, 4.75), bins=5)[0]
                        one('histogram', dict(base, kind='histogram', sel=sn),
                            lambda: ix.compute_histogram([cid], range=[(-2.25, 4.75)], bins=[5], subset_state=st), exph)
    outs = R.model([p[2] for p in pending])
    for (case, got, _, x), o in zip(pending, outs):
        if is_err(o) or got[0] == 'err':
            if is_err(o) != (got[0] == 'err'):
                R.fail('correspondence', case, {'model': 'error' if is_err(o) else 'ok', 'impl': got[0]})
            continue
        sh = to_zs(kids(o)[0])
        flat = to_zs(kids(o)[1])
        mres = x.ravel()[flat].reshape(sh) if len(flat) else np.zeros(sh)
        res = np.asarray(got[1])
        if tuple(sh) != res.shape or not np.array_equal(mres, res):
            R.fail('correspondence', case, {'model_shape': sh, 'impl_shape': list(res.shape)})
    R.sample({'stream': 'indexed', 'shape': [2, 3, 4], 'coords': 'none', 'seed': R.seed + 1, 'indices': [None, 1, None], 'reassigned': False,
              'kind': 'values', 'view': ['tuple', [[1, None, None]]]})
    R.stream('indexed', cases=ncases, model_cases=len(pending), exhaustive=True,
             bound='parents %s, every pattern of removed dimensions; indices from either end of the axis (negative ones included, -1 always): drawn, reassigned, and '
                   'a fresh IndexedData; values under every view of the domain over the reduced shape; pixel/world attributes; masks of 4 selection kinds under every '
                   'view; sum statistic for every axis argument with and without selection, also under views whose slices start at the end of every kept axis; histograms' % (shapes,))


# ------------------------------------------------------------------ stream: evaluation order (view FIRST on a fresh twin)
class Twin:
    pass


def cat_labels(shape, seed, alphabet='abcde'):
    import random
    rng = random.Random('cat|%r|%d|%s' % (tuple(shape), seed, alphabet))
    n = int(np.prod(shape))
    return np.array([rng.choice(alphabet) for _ in range(n)]).reshape(shape)


def cat_reference(labels):
    """categories and codes from first principles (sorted distinct labels; position of each label in them)"""
    cats, inv = np.unique(np.asarray(labels).ravel(), return_inverse=True)
    return cats, inv.reshape(np.shape(labels)).astype(float)


def build_twin(builder, shape, ck, seed):
    """a freshly built dataset on which NOTHING has been evaluated yet; the same arguments give an identical twin.
    builder 'light': stored + two categorical columns only; 'full': make_dataset plus the 5-category column"""
    import random
    G.load()
    S, ROI = G.S, G.ROI
    from glue.core.parse import ParsedCommand, ParsedSubsetState
    t = Twin()
    c5 = cat_labels(shape, seed)
    if builder == 'light':
        d, d2, dc, rng = _make_light(shape, seed)
        t.atts = {'stored': (d, d.id['x']), 'categorical': (d, d.id['c'])}
    else:
        d, d2, dc, rng = make_dataset(shape, ck, seed)
        t.atts = dict((n, (o, c)) for n, o, c in attributes(d, d2))
    d.add_component(c5, 'c5')
    t.d, t.d2, t.dc = d, d2, dc
    t.atts['categorical5'] = (d, d.id['c5'])
    c, k5 = d.id['c'], d.id['c5']
    sels = {
        'catstate': S.CategorySubsetState(c, [1]), 'catstate5': S.CategorySubsetState(k5, [1, 3]), 'catstate5_hi': S.CategorySubsetState(k5, [4, 2]),
        'catroi5': S.CategoricalROISubsetState(att=k5, roi=ROI.CategoricalROI(['b', 'd'])),
        'parsed_codes5': ParsedSubsetState(ParsedCommand('{k}.codes >= 2', {'k': k5})),
        'and_cat': S.CategorySubsetState(k5, [0, 1, 2]) & (d.id['x'] > 0),
        'not_cat': ~S.CategorySubsetState(k5, [3]),
    }
    if len(shape) == 1:
        # the two table-only (1-d) categorical selection kinds
        sels['cat2d'] = S.CategoricalROISubsetState2D({'a': ['a', 'b'], 'c': ['e', 'd', 'c'], 'b': ['b']}, c, k5)
        sels['catmr'] = S.CategoricalMultiRangeSubsetState({'a': [(-1, 1)], 'c': [(0, 3), (3.5, 5)], 'e': [(-2, 0.5)]}, k5, d.id['x'])
    if builder == 'full':
        sels.update(dict(selections(d, random.Random('twin-sel|%r|%d' % (tuple(shape), seed)))))
        for name, st, ref, ax, roi in linked_pixel_rois(d, dc):
            sels[name] = st
    t.sels = sels
    return t


def _make_light(shape, seed):
    import random
    G.load()
    rng = random.Random('%r|light|%d' % (tuple(shape), seed))
    n = int(np.prod(shape))
    x = np.array([rng.randrange(-4, 9) / 2 for _ in range(n)]).reshape(shape)
    c = np.array([rng.choice('abc') for _ in range(n)]).reshape(shape)
    d = G.Data(x=x, c=c, label='d')
    return d, None, None, rng


CAT_ATTS = ('categorical', 'categorical5')
CAT_SELS = ('catstate', 'catstate5', 'catstate5_hi', 'catroi5', 'parsed_codes5', 'and_cat', 'not_cat', 'cat2d', 'catmr')
STAT_TEXTBOOK = {'maximum': np.max, 'sum': np.sum, 'minimum': np.min}


def att_parts(val):
    """what is compared for an attribute result: the values (labels), and for a categorical array its codes and categories
    (a property that raises is recorded as ('err', type, message))"""
    out = {'values': np.asarray(val)}
    if isinstance(val, np.ndarray) and type(val).__name__ == 'categorical_ndarray':
        for part in ('codes', 'categories'):
            r = call(lambda: np.asarray(getattr(val, part)))
            out[part] = r[1] if r[0] == 'ok' else r
    return out


def part_err(p):
    return isinstance(p, tuple) and len(p) == 3 and p[0] == 'err'


def order_case(t, kind, name, ep, v):
    """the two thunks of one case on the twin t: (the viewed request, the full-size request)"""
    if kind == 'att':
        owner, cid = t.atts[name]
        if ep == 'getitem':
            return (lambda: owner[cid, v]), (lambda: owner[cid])
        return (lambda: owner.get_data(cid, view=v)), (lambda: owner.get_data(cid))
    if kind == 'stat':            # statistic of the codes of a categorical attribute restricted to the view
        owner, cid = t.atts[name]
        return (lambda: owner.compute_statistic(ep, cid, view=v)), (lambda: owner.get_data(cid))
    st = t.sels[name]
    if ep == 'subset':
        sub = t.d.new_subset()
        sub.subset_state = st
        return (lambda: sub.to_mask(v)), (lambda: sub.to_mask())
    if ep == 'stat_sel':          # sum of x over the selection restricted to the view
        return (lambda: t.d.compute_statistic('sum', t.d.id['x'], subset_state=st, view=v)), (lambda: t.d.get_mask(st))
    return (lambda: t.d.get_mask(st, view=v)), (lambda: t.d.get_mask(st))


def order_compare(kind, ep, v, got, full, ref, x=None):
    """the property on one twin: got (requested FIRST) against the view of full (requested afterwards on the same objects) and
    against the view of ref (full-size result of the identical twin that was evaluated full-first). Returns None or a description"""
    if got[0] == 'err':
        return {'raises': got[1], 'message': got[2], 'when': 'viewed request'}
    if full[0] == 'err':
        return {'raises': full[1], 'message': full[2], 'when': 'full-size request'}
    if kind == 'att':
        pf, pr = att_parts(full[1]), att_parts(ref)
        for part in pr:
            if part not in pf:
                return {'difference': 'full-size result after a view lacks %s' % part}
            if part_err(pr[part]):
                continue        # the full-first failure belongs to the cross stream
            if part_err(pf[part]):
                return {'raises': pf[part][1], 'message': pf[part][2], 'when': '%s of the full-size result' % part}
            diff = same(pf[part], pr[part])
            if diff:
                return {'difference': 'full-size %s depend on the evaluation order: %s' % (part, diff), 'after_view': pf[part].tolist(), 'full_first': pr[part].tolist()}
        exp = ref if v is None else ref[v]
        pg, pe = att_parts(got[1]), att_parts(exp)
        if 'codes' in pr and np.ndim(pe['values']) > 0 and not part_err(pr['codes']):
            # expected codes / categories from the full-size result, not from numpy's view of the categorical array
            pe['codes'] = pr['codes'] if v is None else pr['codes'][v]
            pe['categories'] = pr['categories']
        for part in pe:
            if part not in pg:
                return {'difference': 'viewed result has no %s' % part}
            if part_err(pg[part]):
                return {'raises': pg[part][1], 'message': pg[part][2], 'when': '%s of the viewed result' % part}
            if part_err(pe[part]):
                continue
            diff = same(pg[part], pe[part])
            if diff:
                return {'difference': '%s of the view requested first: %s' % (part, diff), 'result': pg[part].tolist(), 'expected': pe[part].tolist()}
        return None
    if kind == 'stat':
        codes = att_parts(ref)['codes']
        if part_err(codes):
            return None
        sub = codes if v is None else codes[v]
        exp = STAT_TEXTBOOK[ep](sub)
        return None if same(got[1], exp) is None else {'difference': 'statistic of the viewed codes', 'result': np.asarray(got[1]).tolist(), 'expected': float(exp)}
    fm, rm = np.asarray(full[1]), np.asarray(ref)
    diff = same(fm, rm)
    if diff:
        return {'difference': 'full-size mask depends on the evaluation order: %s' % diff, 'after_view': fm.tolist(), 'full_first': rm.tolist()}
    if ep == 'stat_sel':
        xs, ms = (x, rm) if v is None else (x[v], rm[v])
        exp = textbook_sum(xs, ms, None)
        return None if same(got[1], exp) is None else {'difference': 'sum over the selection in the view', 'result': np.asarray(got[1]).tolist(), 'expected': np.asarray(exp).tolist()}
    exp = rm if v is None else rm[v]
    diff = same(got[1], exp)
    return None if not diff else {'difference': 'mask of the view requested first: %s' % diff, 'result': np.asarray(got[1]).tolist(), 'expected': np.asarray(exp).tolist()}


def order_plan(shape, builder, ck, seed, per_name=3):
    """(kind, name, entry point, view description) for one twin family; deterministic"""
    import random
    rng = random.Random('order|%r|%s|%s|%d' % (tuple(shape), builder, ck, seed))
    views = all_views(shape, rng, ALPHABET if len(shape) < 3 else ALPHABET[:4])
    ref = build_twin(builder, shape, ck, seed)
    plan = []
    if builder == 'light':
        for name in CAT_ATTS:
            for k, vd in enumerate(views):
                plan.append(('att', name, 'get_data' if k % 2 == 0 else 'getitem', vd))
            for vd in views:
                if view_kind(vd) in ('tuple%d' % len(shape), 'bare_slice', 'idx', 'bool', 'none'):
                    plan.append(('stat', name, ['maximum', 'sum', 'minimum'][len(plan) % 3], vd))
        for name in CAT_SELS:
            if name not in ref.sels:
                continue
            for k, vd in enumerate(views):
                plan.append(('mask', name, 'get_mask' if k % 3 else 'subset', vd))
            for vd in views:
                if isinstance(vd, list) and vd[0] == 'tuple' and not any(isinstance(e, int) for e in vd[1]):
                    plan.append(('mask', name, 'stat_sel', vd))
    else:
        # three views per attribute / selection kind, rotating through the whole view list so that every view kind is used by some of them
        proper = [v for v in views if v not in ('none', 'ellipsis', ['tuple', []])]
        k = 0
        for kind, names in (('att', sorted(ref.atts)), ('mask', sorted(ref.sels))):
            for name in names:
                if name in CAT_ATTS or name in CAT_SELS:
                    continue
                for _ in range(per_name):
                    plan.append((kind, name, 'get_data' if kind == 'att' else 'get_mask', proper[(7 * k) % len(proper)]))
                    k += 1
    return ref, plan


def run_order_case(builder, shape, ck, seed, kind, name, ep, vd, ref_full, order='view-first'):
    v = view_obj(vd)
    t = build_twin(builder, shape, ck, seed)         # fresh objects: nothing has been asked of them yet
    f_view, f_full = order_case(t, kind, name, ep, v)
    if order == 'view-first':
        got = call(f_view)                            # the view FIRST
        full = call(f_full)                           # the full-size result only afterwards
    else:
        full = call(f_full)
        if kind in ('att', 'stat') and full[0] == 'ok':
            att_parts(full[1])                        # full-first means: the codes / categories of the full column have been looked up
        got = call(f_view)
    x = np.asarray(t.d[t.d.id['x']]) if ep == 'stat_sel' else None
    return order_compare(kind, ep, v, got, full, ref_full, x), got, full


def order_reference(ref, kind, name, ep):
    """full-first on the reference twin"""
    if kind in ('att', 'stat'):
        owner, cid = ref.atts[name]
        return call(lambda: owner.get_data(cid))
    return call(lambda: ref.d.get_mask(ref.sels[name]))


CODE_BASED = CAT_ATTS + ('catstate', 'catstate5', 'catstate5_hi', 'parsed_codes5', 'and_cat', 'not_cat')


def order_finding_key(case, bad, exp_ndim):
    """known finding 'categorical-nd-view-codes': ONLY the codes of a view of a categorical attribute whose result has two or more
    dimensions, failing with pandas' "Per-column arrays must each be 1-dimensional" (index_lookup handles 1-d arrays only)"""
    if case['name'] in CODE_BASED and exp_ndim >= 2 and bad.get('raises') == 'ValueError' and '1-dimensional' in str(bad.get('message')):
        return 'categorical-nd-view-codes'
    # known finding 'category-state-scalar-view': ONLY a CategorySubsetState (alone or inside a composite) under a view that selects a
    # single element (the label read through the view is a plain string, which is then compared with the integer codes)
    if case['kind'] == 'mask' and case['name'] in ('catstate', 'catstate5', 'catstate5_hi', 'and_cat', 'not_cat') and exp_ndim == 0 \
            and case['ep'] in ('get_mask', 'subset') and 'mask of the view' in str(bad.get('difference')):
        return 'category-state-scalar-view'
    # known finding 'categorical-table-states-scalar-view': ONLY CategoricalROISubsetState2D / CategoricalMultiRangeSubsetState under a view that
    # selects a single element (they loop over range(len(labels)))
    if case['kind'] == 'mask' and case['name'] in ('cat2d', 'catmr') and exp_ndim == 0 and bad.get('raises') in ('IndexError', 'TypeError') and case['ep'] in ('get_mask', 'subset'):
        return 'categorical-table-states-scalar-view'
    return finding_key(dict(case, stream='cross'))


def stream_order(R):
    G.load()
    shapes = R.pick([(5,), (3, 4), (2, 3, 4)], [(5,), (7,), (3, 4), (4, 3), (2, 3, 4), (3, 2, 2)])
    ncases = 0
    pending = []
    for shape in shapes:
        for builder, ck in (('light', 'none'), ('full', 'none'), ('full', 'affine_dep')):
            seed = R.seed + 2
            if builder == 'full' and len(shape) > R.pick(2, 3):
                continue
            ref, plan = order_plan(shape, builder, ck, seed, R.pick(3, 6))
            refs = {}
            nplan = 0
            for kind, name, ep, vd in plan:
                if builder == 'full' and ck != 'none' and not (name.startswith('world') or name in ('ineq_world', 'roi_pix_world')):
                    continue        # only the world attributes / selections depend on the coordinates
                if builder == 'full' and ck == 'none' and name.startswith('world'):
                    continue
                rk = (kind in ('att', 'stat'), name)
                if rk not in refs:
                    refs[rk] = order_reference(ref, kind, name, ep)
                rf = refs[rk]
                if rf[0] == 'err':
                    continue        # the full-first failure is reported by the cross stream
                v = view_obj(vd)
                base_full = np.asarray(rf[1])
                exp = expected_view(base_full, v)
                if exp[0] == 'err':
                    continue        # numpy rejects the view: outside the domain
                if kind == 'stat' and (np.ndim(exp[1]) == 0 or np.size(exp[1]) == 0):
                    continue        # a single label / nothing: no statistic
                if ep == 'stat_sel' and not np.asarray(exp[1]).any():
                    continue
                nplan += 1
                for order in (('view-first', 'full-first') if builder == 'light' and (len(shape) < 3 or nplan % 3 == 0) else ('view-first',)):
                    case = {'stream': 'order', 'builder': builder, 'shape': list(shape), 'coords': ck, 'seed': seed, 'kind': kind, 'name': name, 'ep': ep,
                            'view': vd, 'order': order}
                    ncases += 1
                    bad, got, full = run_order_case(builder, shape, ck, seed, kind, name, ep, vd, rf[1], order)
                    trivial = vd in ('none', 'ellipsis') or np.asarray(exp[1]).size == 0
                    R.count(('order', builder, tuple(shape), ck, kind, name, ep, repr(vd), order), nontrivial=not trivial, stream='order', what='order:%s:%s' % (kind, ep),
                            view=view_kind(vd), ndim=len(shape), order=order)
                    if bad:
                        R.fail('oracle', case, bad, key=order_finding_key(case, bad, np.ndim(exp[1])))
                    if kind == 'att' and name in CAT_ATTS and got[0] == 'ok' and full[0] == 'ok':
                        # correspondence: the implementation under BOTH orders against the one answer of the model (which has no hidden state)
                        labels = [ord(ch) for ch in np.asarray(rf[1]).ravel().tolist()]
                        # warm = the categories of the column were looked up before the view was taken (the translated __array_finalize__ sees them or not)
                        warm = int(order == 'full-first')
                        pending.append((case, 'view', att_parts(got[1]), enc((5, [Z(shape), Z(labels), view_enc(vd) if is_basic(vd) else view_wire(shape, vd, v), warm]))))
                        if nplan % 7 == 0:
                            pending.append((case, 'full', att_parts(full[1]), enc((5, [Z(shape), Z(labels), (2, []), warm]))))
    outs = R.model([p_[3] for p_ in pending])
    for (case, which, parts, _), o in zip(pending, outs):
        if is_err(o):
            R.fail('correspondence', case, {'model': 'error %s' % err_code(o), 'impl': 'ok', 'which': which})
            continue
        if 'codes' not in parts:
            continue                    # a single label (all-integer view): no codes
        if part_err(parts['codes']) or part_err(parts['categories']):
            continue                    # known finding categorical-nd-view-codes (reported by the oracle)
        sh = to_zs(kids(o)[0])
        mcodes = np.array(to_zs(kids(o)[1]), dtype=float).reshape(sh)
        mcats = [chr(c) for c in to_zs(kids(o)[2])]
        icodes, icats = np.asarray(parts['codes']), [str(c) for c in np.asarray(parts['categories']).tolist()]
        if icodes.shape != tuple(sh) or not np.array_equal(icodes, mcodes) or icats != mcats:
            R.fail('correspondence', case, {'which': which, 'model_codes': mcodes.ravel().tolist(), 'impl_codes': icodes.ravel().tolist(), 'model_categories': mcats,
                                            'impl_categories': icats})
    R.sample({'stream': 'order', 'builder': 'light', 'shape': [5], 'coords': 'none', 'seed': R.seed + 2, 'kind': 'att', 'name': 'categorical5', 'ep': 'get_data',
              'view': ['tuple', [[1, None, None]]], 'order': 'view-first on a fresh twin'})
    R.stream('order', cases=ncases, model_cases=len(pending), exhaustive=True,
             bound='shapes %s; every case on a FRESH twin (same sub-seed, identical dataset), the view requested first and the full-size result afterwards, compared with '
                   'each other and with the full-first result of the reference twin. light twin: 2 categorical attributes (3 and 5 categories; labels, codes, categories) '
                   'through get_data / data[cid, view] / compute_statistic(view=), 7 category-based selections (+ the two table-only ones, CategoricalROISubsetState2D and CategoricalMultiRangeSubsetState, on 1-d data) through get_mask / Subset.to_mask / '
                   'compute_statistic(subset_state=, view=), under every view of the domain; full twin: every other attribute and selection kind under ~20 views each' % (shapes,))


# ------------------------------------------------------------------ stream: whole-array leaves (ParsedSubsetState / ParsedComponentLink)
A_TAG = {'x': 0, 'const': 1, 'arange': 2, 'size': 3, 'sum': 4, 'max': 5, 'cumsum': 6, 'roll': 7, 'add': 8, 'sub': 9, 'mul': 10, 'min': 12}
B_TAG = {'gt': 0, 'ge': 1, 'eq': 2, 'and': 3, 'or': 4, 'not': 5}
A_OP = {'add': '+', 'sub': '-', 'mul': '*'}
B_OP = {'gt': '>', 'ge': '>=', 'eq': '==', 'and': '&', 'or': '|'}


def a_is_array(e):
    k = e[0]
    if k in ('x', 'arange', 'cumsum', 'roll'):
        return True
    if k in A_OP:
        return a_is_array(e[1]) or a_is_array(e[2])
    return False


def a_elementwise(e):
    k = e[0]
    if k in ('x', 'const'):
        return True
    if k in A_OP:
        return a_elementwise(e[1]) and a_elementwise(e[2])
    return False


def b_elementwise(e):
    if e[0] in ('gt', 'ge', 'eq'):
        return a_elementwise(e[1]) and a_elementwise(e[2])
    return all(b_elementwise(k) for k in e[1:])


def a_render(e):
    k = e[0]
    if k == 'x':
        return '{x}'
    if k == 'const':
        return '(%d)' % e[1]
    if k == 'arange':
        return 'np.arange(np.size({x})).reshape(np.shape({x}))'
    if k == 'size':
        return 'np.size({x})'
    if k in ('sum', 'max', 'min'):
        return 'np.%s(%s)' % (k, a_render(e[1]))
    if k == 'cumsum':
        r = a_render(e[1])
        return 'np.cumsum(%s).reshape(np.shape(%s))' % (r, r)
    if k == 'roll':
        return 'np.roll(%s, %d)' % (a_render(e[2]), e[1])
    return '(%s %s %s)' % (a_render(e[1]), A_OP[k], a_render(e[2]))


def b_render(e):
    k = e[0]
    if k in ('gt', 'ge', 'eq'):
        return '(%s %s %s)' % (a_render(e[1]), B_OP[k], a_render(e[2]))
    if k == 'not':
        return '(~%s)' % b_render(e[1])
    return '(%s %s %s)' % (b_render(e[1]), B_OP[k], b_render(e[2]))


def a_enc(e):
    k = e[0]
    if k == 'const':
        return (1, [int(e[1])])
    if k == 'roll':
        return (7, [int(e[1]), a_enc(e[2])])
    return (A_TAG[k], [a_enc(c) for c in e[1:]])


def b_enc(e):
    k = e[0]
    if k in ('gt', 'ge', 'eq'):
        return (B_TAG[k], [a_enc(e[1]), a_enc(e[2])])
    return (B_TAG[k], [b_enc(c) for c in e[1:]])


def gen_aexpr(rng, depth, need_array=False, whole=None):
    """whole=True: must contain a whole-array construct at the top; need_array: the value must be an array (not a broadcast scalar)"""
    for _ in range(200):
        if depth <= 0:
            e = rng.choice([('x',), ('x',), ('const', rng.randrange(-3, 9)), ('arange',), ('size',)])
        else:
            k = rng.choice(['x', 'const', 'arange', 'size', 'sum', 'max', 'min', 'cumsum', 'roll', 'add', 'sub', 'mul', 'add', 'sub'])
            if k in ('x', 'arange', 'size'):
                e = (k,)
            elif k == 'const':
                e = ('const', rng.randrange(-3, 9))
            elif k in ('sum', 'max', 'min', 'cumsum'):
                e = (k, gen_aexpr(rng, depth - 1, need_array=True))
            elif k == 'roll':
                e = ('roll', rng.choice([1, -1, 2, 3, -2]), gen_aexpr(rng, depth - 1, need_array=True))
            else:
                e = (k, gen_aexpr(rng, depth - 1), gen_aexpr(rng, depth - 1))
        if need_array and not a_is_array(e):
            continue
        if whole is not None and a_elementwise(e) == whole:
            continue
        return e
    return ('x',)


def gen_bexpr(rng, depth, whole=None):
    for _ in range(200):
        k = rng.choice(['gt', 'gt', 'ge', 'eq', 'and', 'or', 'not']) if depth > 0 else rng.choice(['gt', 'ge', 'eq'])
        if k in ('gt', 'ge', 'eq'):
            a = gen_aexpr(rng, 2, need_array=rng.random() < .7)
            b = gen_aexpr(rng, 2, need_array=not a_is_array(a))
            e = (k, a, b)
        elif k == 'not':
            e = ('not', gen_bexpr(rng, depth - 1))
        else:
            e = (k, gen_bexpr(rng, depth - 1), gen_bexpr(rng, depth - 1))
        if whole is not None and b_elementwise(e) == whole:
            continue
        return e
    return ('gt', ('x',), ('sum', ('x',)))


# natural expressions (oracle only): (expression, element-wise?)
NATURAL_MASKS = [
    ('{x} > np.mean({x})', False), ('{x} >= np.percentile({x}, 75)', False), ('{x} == {x}.max()', False), ('{x} > np.median({x})', False),
    ('np.abs({x} - {x}.mean()) > {x}.std()', False), ('np.cumsum({x}).reshape({x}.shape) > 6', False), ('np.roll({x}, 1) > {x}', False),
    ('np.argsort({x}, axis=None).reshape({x}.shape) < 3', False), ('np.arange({x}.size).reshape({x}.shape) % 2 == 0', False),
    ('np.flip({x}) > 2', False), ('{x} > np.mean({y})', False), ('{x} + {y} > np.max({y})', False), ('({x} > 1) & ({x} < 6)', True), ('{x} * 2 > {y}', True),
]
NATURAL_LINKS = [
    ('{x} - np.mean({x})', False), ('np.cumsum({x}).reshape({x}.shape)', False), ('{x} / np.max({x})', False), ('np.roll({x}, 1)', False),
    ('{x} - np.min({y})', False), ('{x} * 2 + {y}', True), ('{x} ** 2 - 1', True),
]


def parsed_dataset(shape, values, yvalues):
    G.load()
    return G.Data(x=np.array(values, dtype=int).reshape(shape), y=np.array(yvalues, dtype=int).reshape(shape), label='p')


def parsed_state(d, expr):
    from glue.core.parse import ParsedCommand, ParsedSubsetState
    refs = {'x': d.id['x'], 'y': d.id['y']}
    return ParsedSubsetState(ParsedCommand(expr, dict((k, v) for k, v in refs.items() if '{%s}' % k in expr)))


def parsed_link(d, expr, label):
    from glue.core.parse import ParsedCommand, ParsedComponentLink
    refs = {'x': d.id['x'], 'y': d.id['y']}
    cid = G.ComponentID(label)
    d.add_component_link(ParsedComponentLink(cid, ParsedCommand(expr, dict((k, v) for k, v in refs.items() if '{%s}' % k in expr))))
    return cid


def view_wire(shape, vd, v):
    """basic views go to the model as they are (the model computes the positions); for every other kind the flat positions are
    numpy's own indexing of arange(size)"""
    if vd == 'none':
        return (2, [])                  # view is None
    if is_basic(vd):
        return view_enc(vd)
    n = int(np.prod(shape))
    pos = np.arange(n).reshape(shape)[v]
    return (1, [Z(np.shape(pos)), Z(np.ravel(pos).tolist())])


def parsed_finding_key(case):
    """known finding 'parsed-link-whole-array-view': ONLY the values of a ParsedComponentLink-derived attribute read through a view (also the implicit
    view of an IndexedData) when its expression is not element-wise"""
    if case.get('kind') in ('link', 'indexed_link') and not case.get('elementwise'):
        return 'parsed-link-whole-array-view'
    return None


def parsed_thunks(case, d, memo):
    """(viewed request, full-size request) of one case on the dataset d; memo keeps the states / derived attributes already attached to d"""
    v = view_obj(case['view'])
    kind = case['kind']
    expr = case['expr']
    if kind in ('mask', 'subset', 'stat', 'indexed_mask'):
        if ('st', expr) not in memo:
            memo[('st', expr)] = parsed_state(d, expr)
        st = memo[('st', expr)]
    else:
        if ('cid', expr) not in memo:
            memo[('cid', expr)] = parsed_link(d, expr, 'pl%d' % len(memo))
        cid = memo[('cid', expr)]
    if kind == 'subset':
        if ('sub', expr) not in memo:
            memo[('sub', expr)] = d.new_subset()
            memo[('sub', expr)].subset_state = st
        sub = memo[('sub', expr)]
        return (lambda: sub.to_mask(v)), (lambda: sub.to_mask())
    if kind == 'stat':
        return (lambda: d.compute_statistic('sum', d.id['x'], subset_state=st, view=v)), (lambda: d.get_mask(st))
    if kind == 'mask':
        return (lambda: d.get_mask(st, view=v)), (lambda: d.get_mask(st))
    if kind == 'link':
        return (lambda: d.get_data(cid, view=v) if v is not None else d[cid]), (lambda: d[cid])
    idx = tuple(case['indices'])
    psl = tuple(slice(None) if i is None else i for i in idx)
    ix = G.IndexedData(d, tuple(case['first_indices'])) if case.get('first_indices') else G.IndexedData(d, idx)
    ix.indices = idx
    if kind == 'indexed_mask':
        return (lambda: ix.get_mask(st, view=v)), (lambda: np.asarray(d.get_mask(st))[psl])
    return (lambda: ix.get_data(cid, view=v)), (lambda: np.asarray(d[cid])[psl])


def parsed_eval(case, shared=None):
    """(got, expected) of one case of the parsed stream. view-first cases (and replays) run on freshly built objects;
    full-first cases may share one dataset per shape (shared = (dataset, memo))"""
    shape = tuple(case['shape'])
    v = view_obj(case['view'])
    order = case.get('order', 'full-first')
    if shared is None or order == 'view-first':
        d, memo = parsed_dataset(shape, case['values'], case['yvalues']), {}
    else:
        d, memo = shared
    f_view, f_full = parsed_thunks(case, d, memo)
    if order == 'view-first':
        got = call(f_view)
        full = call(f_full)
    else:
        full = call(f_full)
        got = call(f_view)
    if full[0] == 'err':
        return got, full, d
    fa = np.asarray(full[1])
    if case['kind'] == 'stat':
        x = np.asarray(d[d.id['x']])
        xs, ms = (x, fa) if v is None else (x[v], fa[v])
        return got, ('ok', textbook_sum(xs, ms, None)), d
    return got, expected_view(fa, v), d


def stream_parsed(R):
    G.load()
    shapes = R.pick([(5,), (3, 4), (2, 3, 4)], [(5,), (6,), (3, 4), (4, 3), (2, 3, 4), (3, 2, 2)])
    nrand = R.pick(14, 40)
    ncases = 0
    pending = []
    for shape in shapes:
        rng = R.subrng('parsed', shape)
        n = int(np.prod(shape))
        nd = len(shape)
        values = [rng.randrange(-3, 9) for _ in range(n)]
        yvalues = [rng.randrange(0, 6) for _ in range(n)]
        views = all_views(shape, rng, ALPHABET if nd < 3 else ALPHABET[:4])
        # expressions: random trees (model + oracle; at least half with a whole-array construct) and the natural ones (oracle only)
        masks = [(b_render(e), e, b_elementwise(e)) for e in [gen_bexpr(rng, 1, whole=(True if k % 2 == 0 else None)) for k in range(nrand)]]
        masks += [(s_, None, ew) for s_, ew in NATURAL_MASKS]
        links = [(a_render(e), e, a_elementwise(e)) for e in [gen_aexpr(rng, 2, need_array=True, whole=(True if k % 2 == 0 else None)) for k in range(nrand // 2)]]
        links += [(s_, None, ew) for s_, ew in NATURAL_LINKS]
        base = {'stream': 'parsed', 'shape': list(shape), 'values': values, 'yvalues': yvalues}
        # IndexedData: every pattern with one removed dimension, index from either end, reassigned once
        ixs = []
        if nd >= 2:
            for ax in range(nd):
                first = [None] * nd
                first[ax] = 0
                idx = [None] * nd
                idx[ax] = rng.randrange(-shape[ax], shape[ax])
                ixs.append((first if rng.random() < .5 else None, idx))
        plan = []
        for k, (expr, tree, ew) in enumerate(masks):
            for j, vd in enumerate(views):
                kind = 'mask' if (j + k) % 4 else 'subset'
                plan.append(dict(base, kind=kind, expr=expr, tree=tree, elementwise=ew, view=vd, order='view-first' if (j + k) % 5 == 0 else 'full-first'))
                if isinstance(vd, list) and vd[0] == 'tuple' and len(vd[1]) == nd and not any(isinstance(e, int) for e in vd[1]) and (j + k) % 3 == 0:
                    plan.append(dict(base, kind='stat', expr=expr, tree=None, elementwise=ew, view=vd, order='full-first'))
            for first, idx in ixs:
                rshape = np.zeros(shape)[tuple(slice(None) if i is None else i for i in idx)].shape
                for vd in ['none'] + all_views(rshape, rng, ALPHABET[:4])[2::5]:
                    plan.append(dict(base, kind='indexed_mask', expr=expr, tree=None, elementwise=ew, view=vd, indices=idx, first_indices=first, order='full-first'))
        for k, (expr, tree, ew) in enumerate(links):
            for j, vd in enumerate(views):
                plan.append(dict(base, kind='link', expr=expr, tree=tree, elementwise=ew, view=vd, order='view-first' if (j + k) % 5 == 0 else 'full-first'))
            for first, idx in ixs:
                plan.append(dict(base, kind='indexed_link', expr=expr, tree=None, elementwise=ew, view='none', indices=idx, first_indices=first, order='full-first'))
        shared = (parsed_dataset(shape, values, yvalues), {})
        for case in plan:
            tree = case.pop('tree')
            v = view_obj(case['view'])
            got, exp, d = parsed_eval(case, shared)
            if exp[0] == 'err':
                if len(exp) == 3:       # the full-size evaluation itself fails
                    R.fail('oracle', dict(case, view='none'), {'raises': exp[1], 'message': exp[2], 'when': 'full-size request'}, key=None)
                continue                # numpy rejects the view: outside the domain
            ncases += 1
            ea = np.asarray(exp[1])
            trivial = case['view'] in ('none', 'ellipsis') or ea.size == 0
            R.count(('parsed', tuple(shape), case['kind'], case['expr'], repr(case['view']), repr(case.get('indices')), case['order']), nontrivial=not trivial,
                    stream='parsed', what='parsed:' + case['kind'], view=view_kind(case['view']), ndim=nd, elementwise=case['elementwise'], order=case['order'])
            key = parsed_finding_key(case)
            if got[0] == 'err':
                R.fail('oracle', case, {'raises': got[1], 'message': got[2], 'expected_shape': list(ea.shape)}, key=key)
            else:
                diff = same(got[1], ea)
                if diff:
                    R.fail('oracle', case, {'difference': diff, 'result': np.asarray(got[1]).tolist(), 'expected': ea.tolist()}, key=key)
            if tree is not None and case['kind'] in ('mask', 'subset'):
                pending.append((case, got, enc((6, [Z(shape), Z(values), b_enc(tree), view_wire(shape, case['view'], v)])), 'bool'))
            elif tree is not None and case['kind'] == 'link' and ea.size > 0:
                # the code pushes the view inside for every ParsedComponentLink: the model follows it (tag 7); tag 8 is what the property demands
                pending.append((case, got, enc((7, [Z(shape), Z(values), a_enc(tree), view_wire(shape, case['view'], v)])), 'int'))
    outs = R.model([p[2] for p in pending])
    for (case, got, _, typ), o in zip(pending, outs):
        if is_err(o) or got[0] == 'err':
            if is_err(o) != (got[0] == 'err'):
                R.fail('correspondence', case, {'model': 'error' if is_err(o) else 'ok', 'impl': got[0:2]})
            continue
        sh = to_zs(kids(o)[0])
        m = np.array(to_zs(kids(o)[1]), dtype=bool if typ == 'bool' else float).reshape(sh)
        res = np.asarray(got[1])
        if tuple(sh) != res.shape or not np.array_equal(m, res):
            R.fail('correspondence', case, {'model_shape': sh, 'impl_shape': list(res.shape), 'model': m.astype(int).ravel().tolist(), 'impl': res.astype(float).ravel().tolist()})
    R.sample({'stream': 'parsed', 'shape': [5], 'values': [1, 2, 3, 4, 30], 'yvalues': [0, 1, 2, 3, 4], 'kind': 'mask', 'expr': '{x} > np.mean({x})', 'elementwise': False,
              'view': ['tuple', [[0, 2, None]]], 'order': 'full-first'})
    R.stream('parsed', cases=ncases, model_cases=len(pending), exhaustive=False,
             bound='shapes %s, integer values; %d random expression trees per shape over {x}, constants, arange, size, sum, max, min, cumsum, roll, + - *, comparisons, & | ~ '
                   '(half of them with a whole-array construct; model + oracle) and %d natural expressions (mean, percentile, median, std, argsort, flip, two attributes; oracle only) '
                   'as ParsedSubsetState through get_mask / Subset.to_mask / compute_statistic(subset_state=, view=) / IndexedData.get_mask (indices reassigned), and '
                   '%d + %d expressions as ParsedComponentLink-derived attributes through get_data / IndexedData.get_data; every view of the domain; a fifth of the cases view-first' % (
                       shapes, nrand, len(NATURAL_MASKS), nrand // 2, len(NATURAL_LINKS)))


# ------------------------------------------------------------------ stream: magnitude of the coordinate matrix (round 5)
# Every entry is  m * 2**e  with |m| in {1, 3, 5}: the exponents of the rows span 2**-40 (9e-13) .. 2**40 (1.1e12), the exponents inside one row
# (offset included) differ by at most 24, pixel coordinates are < 8: every product and every partial sum of a world coordinate is an exactly
# representable double (< 40 significant bits), so ANY order of evaluation gives the same float and the comparison is exact equality.
SCALE_EXPS = [-40, -37, -34, -30, -27, -20, -10, 0, 10, 27, 40]
AFFINE_MODEL = True
SCALE_TINY = [-40, -37, -34, -30]
SCALE_PATTERNS = {1: ['diag'], 2: ['diag', 'perm', 'upper', 'lower', 'dense', 'perm_shear'],
                  3: ['diag', 'perm', 'upper', 'lower', 'shear', 'block', 'dense', 'perm_shear']}


def _det(m):
    if len(m) == 1:
        return m[0][0]
    return sum((-1) ** j * m[0][j] * _det([r[:j] + r[j + 1:] for r in m[1:]]) for j in range(len(m)) if m[0][j] != 0)


def scale_support(nd, pattern, rng):
    diag = {(i, i) for i in range(nd)}
    if pattern == 'diag':
        return diag
    if pattern in ('perm', 'perm_shear'):
        perms = [p for p in itertools.permutations(range(nd)) if list(p) != list(range(nd))]
        p = rng.choice(perms)
        sup = {(i, p[i]) for i in range(nd)}
        if pattern == 'perm_shear':
            free = [(i, j) for i in range(nd) for j in range(nd) if (i, j) not in sup]
            sup.add(rng.choice(free))
        return sup
    if pattern == 'upper':
        return {(i, j) for i in range(nd) for j in range(nd) if j >= i}
    if pattern == 'lower':
        return {(i, j) for i in range(nd) for j in range(nd) if j <= i}
    if pattern == 'shear':
        return diag | {rng.choice([(i, j) for i in range(nd) for j in range(nd) if i != j])}
    if pattern == 'block':
        a, b = rng.sample(range(nd), 2)
        return diag | {(a, b), (b, a)}
    return {(i, j) for i in range(nd) for j in range(nd)}


def scale_matrix(nd, pattern, rng):
    """(nd+1) x (nd+1) affine matrix (glue's x, y, z order) as exact fractions; non-singular; at least one row of tiny scale"""
    from fractions import Fraction as F
    for _ in range(100):
        sup = scale_support(nd, pattern, rng)
        rowexp = [rng.choice(SCALE_EXPS) for _ in range(nd)]
        rowexp[rng.randrange(nd)] = rng.choice(SCALE_TINY)
        m = [[F(0)] * (nd + 1) for _ in range(nd + 1)]
        m[nd][nd] = F(1)
        for i in range(nd):
            for j in range(nd + 1):
                if j == nd or (i, j) in sup:
                    m[i][j] = F(rng.choice([1, -1, 3, -3, 5])) * F(2) ** (rowexp[i] + rng.choice([0, 0, 5, 13, 24]))
            if rng.random() < .2:
                m[i][nd] = F(0)
        if _det([r[:nd] for r in m[:nd]]) != 0:
            return m
    raise RuntimeError('no non-singular matrix')


NATURAL_MATRICES = [       # not dyadic: compared within a scale-aware tolerance (see scale_tol)
    ('cube_metres', (6, 4, 5), [[0.5, 0.0, 0.0, 10.0], [0.0, 0.5, 0.0, 20.0], [0.0, 0.0, 2e-10, 5.0e-7], [0.0, 0.0, 0.0, 1.0]]),
    ('sheared_tiny', (4, 5), [[3e-11, 7e-12, 1e-9], [0.0, 4e9, -2.5e11], [0.0, 0.0, 1.0]]),
    ('spectrum_hz', (6,), [[-3.2e-12, 4.1e-10], [0.0, 1.0]]),
    ('permuted', (3, 4, 2), [[0.0, 1.7e11, 0.0, 3e10], [0.0, 0.0, 6e-10, -1e-9], [2.5e-9, 0.0, 0.0, 0.0], [0.0, 0.0, 0.0, 1.0]]),
]


def scale_dataset(mat, shape):
    G.load()
    m = np.array([[float(x) for x in r] for r in mat])
    n = int(np.prod(shape))
    return G.Data(x=np.arange(n, dtype=float).reshape(shape), coords=G.AffineCoordinates(m), label='s')


def affine_reference(mat, shape, axis):
    """world coordinate of numpy axis `axis` from the definition: row nd-1-axis of the matrix applied to (x, y, z, 1)"""
    nd = len(shape)
    row = [float(x) for x in mat[nd - 1 - axis]]
    grid = np.indices(shape)
    out = np.full(shape, row[nd])
    for j in range(nd):
        out = out + row[j] * grid[nd - 1 - j]
    return out


def scale_tol(mat, shape, axis):
    """bound on the rounding error of any order of evaluating row . (pixel, 1) in doubles: 8 ulp of the sum of the magnitudes of the terms"""
    nd = len(shape)
    row = [abs(float(x)) for x in mat[nd - 1 - axis]]
    return 8 * np.finfo(float).eps * (row[nd] + sum(row[j] * (shape[nd - 1 - j] - 1) for j in range(nd)))


def scale_states(d, mat, shape, exact):
    """selections on world attributes (JSON-able description, state); thresholds sit on / between values of the attribute itself"""
    S, ROI = G.S, G.ROI
    nd = len(shape)
    out = []
    w = d.world_component_ids
    for a in range(nd):
        vals = np.unique(affine_reference(mat, shape, a))
        if len(vals) < 2:
            continue
        if exact:
            lo, hi = float(vals[len(vals) // 3]), float(vals[(2 * len(vals)) // 3])
            t = float(vals[len(vals) // 2])
        else:   # mid-way between two values of the attribute: far outside the rounding band
            k = len(vals) // 3
            lo = float(vals[k] + vals[k + 1]) / 2 if k + 1 < len(vals) else float(vals[k])
            k2 = min(len(vals) - 2, (2 * len(vals)) // 3)
            hi = float(vals[k2] + vals[k2 + 1]) / 2
            t = float(vals[len(vals) // 2 - 1] + vals[len(vals) // 2]) / 2
            gaps = np.diff(vals)
            if gaps.min() < 64 * scale_tol(mat, shape, a):
                continue
        out.append((['range', a, lo, hi], S.RangeSubsetState(min(lo, hi), max(lo, hi), att=w[a])))
        out.append((['gt', a, t], w[a] > t))
        if exact:
            out.append((['le', a, t], w[a] <= t))
        if nd >= 2:
            b = (a + 1) % nd
            vb = np.unique(affine_reference(mat, shape, b))
            if not exact:
                continue
            out.append((['roi_ww', a, b, float(vals[0]), float(vals[-1]), float(vb[0]), float(vb[-1])],
                        S.RoiSubsetState(w[a], w[b], ROI.RectangularROI(float(vals[0]), float(vals[-1]), float(vb[0]), float(vb[-1])))))
            out.append((['roi_pw', b, a, -0.5, 1.5, lo, hi],
                        S.RoiSubsetState(d.pixel_component_ids[b], w[a], ROI.RectangularROI(-0.5, 1.5, min(lo, hi), max(lo, hi)))))
    return out


def scale_state_from(d, desc):
    S, ROI = G.S, G.ROI
    w = d.world_component_ids
    k = desc[0]
    if k == 'range':
        return S.RangeSubsetState(min(desc[2], desc[3]), max(desc[2], desc[3]), att=w[desc[1]])
    if k == 'gt':
        return w[desc[1]] > desc[2]
    if k == 'le':
        return w[desc[1]] <= desc[2]
    if k == 'roi_ww':
        return S.RoiSubsetState(w[desc[1]], w[desc[2]], ROI.RectangularROI(*desc[3:7]))
    if k == 'roi_pw':
        return S.RoiSubsetState(d.pixel_component_ids[desc[1]], w[desc[2]], ROI.RectangularROI(desc[3], desc[4], min(desc[5], desc[6]), max(desc[5], desc[6])))
    raise ValueError(desc)


def same_tol(a, b, tol):
    a, b = np.asarray(a), np.asarray(b)
    if a.shape != b.shape:
        return 'shape %s vs %s' % (list(a.shape), list(b.shape))
    if tol == 0 or a.dtype.kind == 'b':
        return same(a, b)
    return None if bool(np.all(np.abs(a - b) <= tol)) else 'values differ by more than %r' % tol


def q_enc(x):
    from fractions import Fraction as F
    f = F(x)
    return (0, [f.numerator, f.denominator])


def line_affine(shape, mat, axis, vd):
    nd = len(shape)
    return enc((9, [Z(shape), (0, [(0, [q_enc(x) for x in r]) for r in mat]), axis, view_enc(vd)]))


def scale_request(d, case, v):
    """the request of one case on dataset d (fresh or not) as a thunk; everything, incl. building the IndexedData, happens inside it"""
    def thunk():
        kind = case['kind']
        if kind == 'att':
            cid = d.world_component_ids[case['axis']]
            return d.get_data(cid, view=v) if v is not None else d[cid]
        if kind == 'mask':
            return d.get_mask(scale_state_from(d, case['sel']), view=v)
        idx = tuple(case['indices'])
        if case.get('reassigned'):
            ix = G.IndexedData(d, tuple(None if i is None else 0 for i in idx))
            ix.indices = idx
        else:
            ix = G.IndexedData(d, idx)
        if kind == 'indexed_att':
            cid = d.world_component_ids[case['axis']]
            return ix.get_data(cid, view=v) if v is not None else ix.get_data(cid)
        st = scale_state_from(d, case['sel'])
        return ix.get_mask(st, view=v) if v is not None else ix.get_mask(st)
    return thunk


def scale_full(d, case):
    """the full-size result the view is compared with (the implementation's own), sliced by the indices for IndexedData"""
    if case['kind'] in ('att', 'indexed_att'):
        full = np.asarray(d[d.world_component_ids[case['axis']]])
    else:
        full = np.asarray(d.get_mask(scale_state_from(d, case['sel'])))
    if case['kind'].startswith('indexed'):
        full = full[tuple(slice(None) if i is None else i for i in case['indices'])]
    return full


def stream_affine_scale(R):
    G.load()
    from fractions import Fraction as F
    shapes = R.pick([(6,), (4, 5), (5, 3, 4)], [(6,), (4, 5), (3, 3), (5, 3, 4), (2, 4, 3)])
    nmat = R.pick(1, 3)
    alphabet = ALPHABET + [[2, None, 2]]
    pending = []
    ncases = 0
    nmodel = 0
    plans = []
    for shape in shapes:
        nd = len(shape)
        for pattern in SCALE_PATTERNS[nd]:
            for k in range(nmat if nd > 1 else 3 * nmat):
                rng = R.subrng('affine_scale', '%r|%s|%d' % (shape, pattern, k))
                plans.append((shape, pattern, scale_matrix(nd, pattern, rng), True, rng))
    for name, shape, m in NATURAL_MATRICES:
        plans.append((shape, name, [[F(x) for x in r] for r in m], False, R.subrng('affine_scale', name)))

    def one(d, case, v, exp, tol, what, model=None):
        nonlocal ncases
        got = call(scale_request(d, case, v))
        ncases += 1
        e = np.asarray(exp)
        trivial = case['view'] in ('none', 'ellipsis') or e.size == 0 or (e.dtype.kind == 'b' and not e.any())
        R.count((tuple(case['shape']), repr(case['matrix']), what, repr(case.get('axis')), repr(case.get('sel')), repr(case.get('indices')), repr(case['view']), case['order']),
                nontrivial=not trivial, stream='affine_scale', what='scale:' + what, view=view_kind(case['view']), pattern=case['pattern'], ndim=len(case['shape']))
        if got[0] == 'err':
            R.fail('oracle', case, {'raises': got[1], 'message': got[2], 'expected_shape': list(e.shape)}, key=finding_key(case))
        else:
            diff = same_tol(got[1], e, tol)
            if diff:
                R.fail('oracle', case, {'difference': diff, 'result': np.asarray(got[1]).tolist(), 'expected': e.tolist()}, key=finding_key(case))
        if model is not None:
            pending.append((case, got, model))

    for shape, pattern, mat, exact, rng in plans:
        nd = len(shape)
        fm = [[float(x) for x in r] for r in mat]
        base = {'stream': 'affine_scale', 'shape': list(shape), 'pattern': pattern, 'matrix': fm, 'exact': exact}
        try:
            d = scale_dataset(mat, shape)
        except np.linalg.LinAlgError:
            continue
        twin = scale_dataset(mat, shape)          # nothing is evaluated on the twin before its views
        views = all_views(shape, rng, alphabet)
        vobjs = [view_obj(v) for v in views]
        # ---- world attributes: full-first on d, view-first on the twin (the full array last), a rotating few on brand-new datasets
        for a in range(nd):
            tol = 0 if exact else scale_tol(mat, shape, a)
            full = np.asarray(d[d.world_component_ids[a]])
            ref = affine_reference(mat, shape, a)
            ncases += 1
            R.count((tuple(shape), repr(fm), 'reference', a), nontrivial=True, stream='affine_scale', what='scale:reference', view='reference', pattern=pattern, ndim=nd)
            diff = same_tol(full, ref, tol)
            if diff:
                R.fail('oracle', dict(base, kind='att', axis=a, view='none', order='full-first', against='reference'),
                       {'difference': diff, 'result': full.tolist(), 'expected': ref.tolist()}, key=None)
            for i, (vd, v) in enumerate(zip(views, vobjs)):
                exp = expected_view(full, v)
                if exp[0] == 'err':
                    continue
                case = dict(base, kind='att', axis=a, view=vd, order='full-first')
                one(d, case, v, exp[1], tol, 'att', model=line_affine(shape, mat, a, vd) if (AFFINE_MODEL and is_basic(vd)) else None)
                one(twin, dict(case, order='view-first'), v, exp[1], tol, 'att')
                if (i + a) % 97 == 3:
                    one(scale_dataset(mat, shape), dict(case, order='fresh'), v, exp[1], tol, 'att')
            tfull = np.asarray(twin[twin.world_component_ids[a]])
            if same(tfull, full):
                R.fail('oracle', dict(base, kind='att', axis=a, view='none', order='view-first', against='full-first'),
                       {'difference': 'the full array after the views differs from the full array asked first'}, key=None)
        # ---- selections on world attributes
        states = scale_states(d, mat, shape, exact)
        for si, (desc, st) in enumerate(states):
            full = np.asarray(d.get_mask(st))
            for i, (vd, v) in enumerate(zip(views, vobjs)):
                if nd == 3 and is_basic(vd) and not isinstance(vd, str) and (i + si) % 4:
                    continue          # a rotating quarter of the basic views per selection in 3-d
                exp = expected_view(full, v)
                if exp[0] == 'err':
                    continue
                case = dict(base, kind='mask', sel=desc, view=vd, order='full-first')
                one(d, case, v, exp[1], 0, 'mask:' + desc[0])
                if (i + si) % 5 == 0:
                    one(twin, dict(case, order='view-first'), v, exp[1], 0, 'mask:' + desc[0])
        # ---- IndexedData with indices other than 0 (from either end), fresh and reassigned
        if nd >= 2:
            for pat in itertools.product([None, 'i'], repeat=nd):
                if all(p is None for p in pat) or all(p == 'i' for p in pat):
                    continue
                for trial in range(2):
                    idx = [None if p is None else (rng.randrange(1, s) if rng.random() < .7 else -rng.randrange(1, s)) for p, s in zip(pat, shape)]
                    psl = tuple(slice(None) if i is None else i for i in idx)
                    rshape = tuple(s for s, i in zip(shape, idx) if i is None)
                    rviews = ['none', ['tuple', [[1, None, None]]], ['tuple', [-1]], ['tuple', [[0, None, 2]] * len(rshape)],
                              ['bool', np.array([rng.random() < .6 for _ in range(int(np.prod(rshape)))]).reshape(rshape).tolist()],
                              ['idx', [[rng.randrange(-s, s) for _ in range(3)] for s in rshape]]]
                    for a in range(nd):
                        tol = 0 if exact else scale_tol(mat, shape, a)
                        full = np.asarray(d[d.world_component_ids[a]])[psl]
                        for vd in rviews:
                            v = view_obj(vd)
                            exp = expected_view(full, v)
                            if exp[0] == 'err':
                                continue
                            one(d, dict(base, kind='indexed_att', axis=a, indices=idx, reassigned=bool(trial), view=vd, order='full-first'), v, exp[1], tol, 'indexed_att')
                    for desc, st in states[::2]:
                        full = np.asarray(d.get_mask(st))[psl]
                        for vd in rviews[:3] + rviews[4:5]:
                            v = view_obj(vd)
                            exp = expected_view(full, v)
                            if exp[0] == 'err':
                                continue
                            one(d, dict(base, kind='indexed_mask', sel=desc, indices=idx, reassigned=bool(trial), view=vd, order='full-first'), v, exp[1], 0, 'indexed_mask')
    # ---- the model: dependent axes computed from the matrix by the TRANSLATED predicate and closure, affine world function over Q
    if pending:
        outs = R.model([p[2] for p in pending])
        deps = {}
        for (case, got, _), o in zip(pending, outs):
            nmodel += 1
            if is_err(o) or got[0] == 'err':
                if is_err(o) != (got[0] == 'err'):
                    R.fail('correspondence', case, {'model': 'error' if is_err(o) else 'ok', 'impl': got[0]})
                continue
            sh = to_zs(kids(o)[0])
            vals = [F(tag(kids(q)[0]), tag(kids(q)[1])) for q in kids(kids(o)[1])]
            mdep = to_zs(kids(o)[2])
            res = np.asarray(got[1])
            key = (repr(case['matrix']), case['axis'])
            if key not in deps:
                dd = scale_dataset([[F(x) for x in r] for r in case['matrix']], tuple(case['shape']))
                deps[key] = [int(x) for x in G.dependent_axes(dd.coords, case['axis'])]
            if deps[key] != mdep:
                R.fail('correspondence', case, {'what': 'dependent_axes', 'model': mdep, 'impl': deps[key]})
            if tuple(sh) != res.shape:
                R.fail('correspondence', case, {'model_shape': sh, 'impl_shape': list(res.shape)})
            elif case['exact']:
                if [F(float(x)) for x in res.ravel()] != vals:
                    R.fail('correspondence', case, {'model': [float(x) for x in vals], 'impl': res.ravel().tolist()})
            else:
                tol = scale_tol([[F(x) for x in r] for r in case['matrix']], tuple(case['shape']), case['axis'])
                if not all(abs(F(float(x)) - y) <= tol for x, y in zip(res.ravel(), vals)):
                    R.fail('correspondence', case, {'model': [float(x) for x in vals], 'impl': res.ravel().tolist(), 'tolerance': tol})
    R.sample({'stream': 'affine_scale', 'shape': [6, 4, 5], 'pattern': 'cube_metres', 'matrix': NATURAL_MATRICES[0][2], 'exact': False, 'kind': 'att', 'axis': 0,
              'view': ['tuple', [[2, 5, None]]], 'order': 'full-first'})
    R.stream('affine_scale', cases=ncases, model_cases=nmodel, exhaustive=False,
             bound='AffineCoordinates on shapes %s: per coupling pattern %s, %d matrices with entries m*2^e, |m| in {1,3,5}, row exponents over %s (one row always tiny), '
                   'exponents inside a row differing by <= 24 (all sums exact doubles); plus %d non-dyadic matrices in small physical units within 8 ulp of the term magnitudes; '
                   'world attributes under every view of the domain + [2::2], full-first / view-first (twin) / brand-new dataset; masks of range / inequality / ROI selections on '
                   'world attributes; IndexedData with non-zero indices from either end, fresh and reassigned; the full array also against the definition'
                   % (shapes, SCALE_PATTERNS, nmat, SCALE_EXPS, len(NATURAL_MATRICES)))


# ------------------------------------------------------------------ malformed
def stream_malformed(R):
    G.load()
    d = G.Data(x=np.arange(6.).reshape(2, 3), coords=G.IdentityCoordinates(n_dim=2))
    st = G.S.SliceSubsetState(d, [slice(0, 1)])
    n = 0
    for label, f, want in [
        ('integer out of range (stored)', lambda: d[d.id['x'], (5,)], ('IndexError',)),
        ('integer out of range (world)', lambda: d[d.world_component_ids[0], (5,)], ('IndexError',)),
        ('too many indices (mask)', lambda: d.get_mask(d.id['x'] > 1, view=(0, 0, 0)), ('IndexError',)),
        ('negative step in view of a SliceSubsetState', lambda: d.get_mask(G.S.SliceSubsetState(d, [slice(None, None, -1)]), view=(slice(None),)), ('ValueError',)),
        ('IndexedData with a wrong number of indices', lambda: G.IndexedData(d, (0,)), ('ValueError',)),
    ]:
        n += 1
        r = call(f)
        got = r[1] if r[0] == 'err' else 'no error'
        R.count(('malformed', label), nontrivial=False, stream='malformed', error=got)
        if got not in want:
            R.fail('correspondence', {'stream': 'malformed', 'what': label}, {'impl': got, 'expected': want})
    outs = R.model(['(9 1)', enc((1, [Z([2, 3]), (0, [sl_enc([None, None, None])]), (0, [(1, [5])])])),
                    enc((1, [Z([3]), (0, [sl_enc([None, None, -1])]), (0, [sl_enc([None, None, None])])]))])
    # round-4 entry points: a view that numpy rejects (integer out of range) on a parsed leaf / a categorical column; an unknown tag
    outs2 = R.model([enc((6, [Z([3]), Z([1, 2, 3]), (0, [(0, []), (4, [(0, [])])]), (0, [(1, [5])])])),
                     enc((5, [Z([3]), Z([97, 98, 97]), (0, [(1, [-4])]), 0])), enc((7, [Z([2]), Z([1, 2]), (0, []), (3, [])]))])
    for o, want in zip(outs2, (2, 2, 2)):
        n += 1
        if not is_err(o) or err_code(o) != want:
            R.fail('correspondence', {'stream': 'malformed', 'what': 'model error value (round-4 tags)'}, {'model': o, 'expected_error': want})
    for o, want in zip(outs, (-2, 2, 1)):
        n += 1
        if not is_err(o) or err_code(o) != want:
            R.fail('correspondence', {'stream': 'malformed', 'what': 'model error value'}, {'model': o, 'expected_error': want})
    R.stream('malformed', cases=n, exhaustive=True, bound='out-of-range integers, too many indices, negative steps, wrong IndexedData arity, malformed wire')


def run(R):
    R.rule = ('cross product {attribute kinds} x {views} and {selection kinds} x {views} on small datasets of every coordinate kind (exhaustive over the view alphabet), '
              'an exhaustive small-scope stream for SliceSubsetState (sampled in the quick tier), and IndexedData for every pattern of removed dimensions; a case is '
              'non-trivial when the view is not the identity and the expected result is non-empty (for masks: contains a True); distinct = distinct canonical inputs')
    stream_corpus(R)
    stream_slice_state(R)
    stream_cross(R)
    stream_indexed(R)
    stream_order(R)
    stream_parsed(R)
    stream_affine_scale(R)
    stream_malformed(R)


# ------------------------------------------------------------------ replay
def replay_sel(case, d):
    sn = case['sel']
    if sn == 'none':
        return None
    if sn == 'ineq':
        return d.id['y'] > 2
    if sn == 'slice':
        return G.S.SliceSubsetState(d, [slice(1, None)])
    if sn == 'range_pix':
        return G.S.RangeSubsetState(1, 2, d.pixel_component_ids[-1])
    return G.S.MaskSubsetState(np.array(case['mask_literal'], dtype=bool).reshape(d.shape), d.pixel_component_ids)


def replay(R, case):
    G.load()
    out = {'case': case}
    st = case.get('stream')
    if st == 'corpus':
        out['violates'] = False
        for cid, what, fn in corpus_items():
            if cid == case['id']:
                for label, thunk, exp in fn():
                    if label == case.get('label'):
                        got = call(thunk)
                        out['expected'] = np.asarray(exp).tolist()
                        out['implementation'] = np.asarray(got[1]).tolist() if got[0] == 'ok' else list(got)
                        out['violates'] = got[0] == 'err' or same(got[1], exp) is not None
    elif st == 'slice_state':
        sh = tuple(case['shape'])
        d = G.Data(x=np.zeros(sh))
        state = G.S.SliceSubsetState(d, [slice(*s) for s in case['slices']])
        v = view_obj(case['view'])
        full = np.asarray(d.get_mask(state))
        got = call(lambda: d.get_mask(state, view=v))
        exp = expected_view(full, v)
        out['expected'] = exp[1].tolist() if exp[0] == 'ok' else exp
        out['implementation'] = np.asarray(got[1]).tolist() if got[0] == 'ok' else list(got)
        out['violates'] = exp[0] == 'ok' and (got[0] == 'err' or same(got[1], exp[1]) is not None)
        if R.model_available:
            out['model'] = R.model([line_slice(sh, case['slices'], case['view'])])[0]
    elif st == 'cross':
        shape = tuple(case['shape'])
        d, d2, dc, rng = make_dataset(shape, case['coords'], case['seed'])
        v = view_obj(case['view'])
        if case['kind'] == 'att':
            name, owner, cid = [a for a in attributes(d, d2) if a[0] == case['name']][0]
            full = owner[cid]
            got = call(lambda: owner.get_data(cid, view=v) if v is not None else owner[cid])
        else:
            all_views(shape, rng)        # keep the random stream aligned with the run
            sels = dict(selections(d, rng))
            refs = {}
            for name, stt, ref, ax, roi in linked_pixel_rois(d, dc):
                sels[name] = stt
                refs[name] = ref
            state = sels[case['name']]
            if case.get('against') == 'reference':
                full = np.asarray(d.get_mask(state))
                out['expected'] = refs[case['name']].tolist()
                out['implementation'] = full.tolist()
                out['violates'] = same(full, refs[case['name']]) is not None
                return out
            full = np.asarray(d.get_mask(state))
            got = call(lambda: d.get_mask(state, view=v))
        exp = expected_view(full, v)
        out['expected'] = np.asarray(exp[1]).tolist() if exp[0] == 'ok' else exp
        out['implementation'] = np.asarray(got[1]).tolist() if got[0] == 'ok' else list(got)
        out['violates'] = exp[0] == 'ok' and (got[0] == 'err' or same(got[1], exp[1]) is not None)
    elif st == 'indexed':
        shape = tuple(case['shape'])
        d, d2, dc, rng = make_dataset(shape, case['coords'], case['seed'])
        idx = tuple(case['indices'])
        ix = G.IndexedData(d, idx)
        if case.get('reassigned'):
            other = tuple(None if i is None else (i % s + 1) % s for i, s in zip(idx, shape))
            ix.indices = other
            ix.indices = idx
        psl = tuple(slice(None) if i is None else i for i in idx)
        x = d['x']
        cid = [c for c in ix.main_components if c.label == 'x'][0]
        kind = case['kind']
        if kind == 'values':
            v = view_obj(case['view'])
            got, exp = call(lambda: ix.get_data(cid, view=v)), expected_view(x[psl], v)
        elif kind == 'statistic' and case.get('sel') in ('none', 'ineq', 'slice', 'range_pix', 'mask'):
            stt = replay_sel(case, d)
            ax = case['axis']
            ax = tuple(ax) if isinstance(ax, list) else ax
            mfull = None if stt is None else np.asarray(d.get_mask(stt))[psl]
            v = view_obj(case['view']) if case.get('view') is not None else None
            xs, ms = (x[psl], mfull) if v is None else (x[psl][v], None if mfull is None else mfull[v])
            got, exp = call(lambda: ix.compute_statistic('sum', cid, subset_state=stt, axis=ax, view=v)), ('ok', textbook_sum(xs, ms, ax))
        elif kind == 'mask' and case.get('sel') in ('ineq', 'slice', 'range_pix', 'mask'):
            stt = replay_sel(case, d)
            v = view_obj(case['view'])
            got, exp = call(lambda: ix.get_mask(stt, view=v)), expected_view(np.asarray(d.get_mask(stt))[psl], v)
        elif kind == 'histogram' and case.get('sel') in ('none', 'ineq', 'slice', 'range_pix', 'mask'):
            stt = replay_sel(case, d)
            vals = x[psl].ravel() if stt is None else x[psl][np.asarray(d.get_mask(stt))[psl]]
            got = call(lambda: ix.compute_histogram([cid], range=[(-2.25, 4.75)], bins=[5], subset_state=stt))
            exp = ('ok', np.histogram(vals, range=(-2.25, 4.75), bins=5)[0])
        else:
            out['note'] = 'replay by re-running the stream: ./check C04 --tier quick'
            out['violates'] = False
            return out
        out['expected'] = np.asarray(exp[1]).tolist() if exp[0] == 'ok' else exp
        out['implementation'] = np.asarray(got[1]).tolist() if got[0] == 'ok' else list(got)
        out['violates'] = exp[0] == 'ok' and (got[0] == 'err' or same(got[1], exp[1]) is not None)
    elif st == 'parsed':
        got, exp, d = parsed_eval(case)
        out['expected'] = np.asarray(exp[1]).tolist() if exp[0] == 'ok' else list(exp)
        out['implementation'] = np.asarray(got[1]).tolist() if got[0] == 'ok' else list(got)
        out['violates'] = (exp[0] == 'ok' and (got[0] == 'err' or same(got[1], exp[1]) is not None)) or (exp[0] == 'err' and len(exp) == 3)
    elif st == 'order':
        shape = tuple(case['shape'])
        ref = build_twin(case['builder'], shape, case['coords'], case['seed'])
        rf = order_reference(ref, case['kind'], case['name'], case['ep'])
        if rf[0] == 'err':
            out['note'] = 'the full-size request fails on its own: %r' % (rf[1:],)
            out['violates'] = True
            return out
        bad, got, full = run_order_case(case['builder'], shape, case['coords'], case['seed'], case['kind'], case['name'], case['ep'], case['view'], rf[1], case['order'])
        out['implementation'] = np.asarray(got[1]).tolist() if got[0] == 'ok' else list(got)
        out['detail'] = bad
        out['violates'] = bool(bad)
    elif st == 'affine_scale':
        from fractions import Fraction as F
        shape = tuple(case['shape'])
        mat = [[F(x) for x in r] for r in case['matrix']]
        d = scale_dataset(mat, shape)
        if case.get('against') == 'reference':
            full = np.asarray(d[d.world_component_ids[case['axis']]])
            ref = affine_reference(mat, shape, case['axis'])
            out['expected'], out['implementation'] = ref.tolist(), full.tolist()
            out['violates'] = same_tol(full, ref, 0 if case['exact'] else scale_tol(mat, shape, case['axis'])) is not None
            return out
        if case.get('against') == 'full-first':
            out['note'] = 'replay by re-running the stream: ./check C04 --tier quick'
            out['violates'] = False
            return out
        v = view_obj(case['view'])
        tol = scale_tol(mat, shape, case['axis']) if (not case['exact'] and case['kind'] in ('att', 'indexed_att')) else 0
        if case['order'] == 'full-first':
            full = scale_full(d, case)
            got = call(scale_request(d, case, v))
        else:                                   # the view first on a dataset on which nothing has been evaluated, the full array from a second one
            got = call(scale_request(d, case, v))
            full = scale_full(scale_dataset(mat, shape), case)
        exp = expected_view(full, v)
        out['expected'] = np.asarray(exp[1]).tolist() if exp[0] == 'ok' else exp
        out['implementation'] = np.asarray(got[1]).tolist() if got[0] == 'ok' else list(got)
        out['violates'] = exp[0] == 'ok' and (got[0] == 'err' or same_tol(got[1], exp[1], tol) is not None)
        if R.model_available and AFFINE_MODEL and case['kind'] == 'att' and is_basic(case['view']):
            out['model'] = R.model([line_affine(shape, mat, case['axis'], case['view'])])[0]
    else:
        out['note'] = 'replay by re-running the stream: ./check C04 --tier quick'
        out['violates'] = False
    return out
