"""C02 — a saved session restores to an observationally equivalent session.

Sessions are described by a JSON-able *spec* (datasets, components, coordinates, links, joins, subset groups, styles, metadata),
realised through the public API, saved with GlueSerializer (directly and through Application.save_session), restored with
GlueUnSerializer, and compared observable by observable; the restored session is saved and restored once more (idempotence).
The same generator feeds C12 (old protocol versions).
"""
import copy
import hashlib
import itertools
import json
import operator
import os
import sys

import numpy as np

from harness.common import enc, Z, to_zs, kids, tag, is_err

PROP = 'C02'
GENERATORS = ['gen_tables', 'gen_codecs', 'gen_dispatch']   # gen_dispatch: C12.Model (imported by the C02 model) uses Gen_dispatch
TRUSTED = [
    'table extractor tools/gen/gen_tables.py (class table, registries regenerated from the package on every run; its ast rules: '
    'instance attributes = self.X assignments in the __init__ methods along the MRO, cls(...) call shape of __setgluestate__)',
    'hand models: name registry (GlueSerializer.id/_disambiguate), saver/loader dispatch over the class table, abstract object-graph codec '
    '(save = name reachable nodes + emit records, load = memoised two-phase reconstruction)',
    'per-class field codecs (__gluestate__/__setgluestate__ bodies, registered savers/loaders) are a hypothesis of graph_roundtrip; '
    'the registered saver / loader functions are additionally covered by the field-level table theorems (codec_*) over '
    'tools/gen/gen_codecs.py (ast: keys written per saver path, keys tested / read per loader path, constructor arguments fed from the record; '
    'its rules: every if / loop / try forks a path, a value "depends on a test" when it contains a conditional / boolean / comparison or a local '
    'bound or mutated under a condition); the table is tied to the live code by the `codecs` stream (keys of every record written by a session)',
    'the __gluestate__ / __setgluestate__ method pairs of the classes of the class table are covered by the method table theorems (method_*) over '
    'tools/gen/gen_codecs.py -> coq/gen/Gen_methodcodecs.v (ast: per saver path and key the instance attributes read and every transformation outside the '
    'lossless list attribute access / np.asarray / .tolist() / .items() / list / tuple / dict / str / float / int / displays / comprehensions / context.id / context.do; '
    'per loader and key the transformations beyond context.object / np.asarray / list / tuple / dict); tied to the live code by the `method-codecs` stream (key sets) and the sessions',
    'numpy .npy/base64 codec, JSON, file readers (csv / fits / npy) and matplotlib colormaps are the platform',
]
ASSUMPTIONS = [
    'a failure while saving (any exception out of GlueSerializer.dumps) is allowed by the property; a failure while loading or a silent change is a violation',
    'observables: labels, component order and kinds, values, units, for categorical components labels / integer codes / category list in order / jitter method '
    '(with jitter the codes are read back by rounding: the noise is fresh by design), attributes reachable through links from every other dataset, subset masks, '
    'styles, JSON-serialisable metadata, key joins, subset-group labels and count',
    'classes that cannot be instantiated from the public API with generic arguments are listed in the evidence notes, not exercised',
]


# ------------------------------------------------------------------ importable helper functions for links
def double(x):
    return x * 2


def halve(x):
    return x / 2


def plus_one(x):
    return x + 1


def minus_one(x):
    return x - 1


def add2(x, y):
    return x + y


def split2(s):
    return s / 2, s / 2


FNMOD_SRC = """
def scale(x):
    return x * 1000.


def unscale(x):
    return x / 1000.


def pre(x, y):
    return x + 1, y * 2


def make(k):
    def scale(x):
        return x * k

    def unscale(x):
        return x / k

    def pre(x, y):
        return x + k / 1000., y * 2
    return {'scale': scale, 'unscale': unscale, 'pre': pre}
"""
FNMOD_OTHER = """
def scale(x):
    return x * 10.


def unscale(x):
    return x / 10.


def pre(x, y):
    return x + 5, y
"""
CUR_FNS = {}


def setup_fn_module(spec):
    """functions named 'm:<name>' in a spec live in a throw-away module registered in sys.modules.
    fnmode plain:   the functions in use are the module-level ones;
           rebound: the names are re-defined (other bodies) after the session was built (finish_fn_module);
           closure: the functions in use are closures with the same __name__ / __module__ as module-level functions with other bodies"""
    import types
    mode = spec.get('fnmode')
    CUR_FNS.clear()
    if not mode:
        return
    name = 'glueverif_fn_' + hashlib.sha1(json.dumps(spec, sort_keys=True, default=str).encode()).hexdigest()[:12]
    mod = types.ModuleType(name)
    sys.modules[name] = mod
    exec(FNMOD_SRC, mod.__dict__)
    if mode == 'closure':
        CUR_FNS.update(mod.make(1000.))
        exec(FNMOD_OTHER, mod.__dict__)
    else:
        CUR_FNS.update({k: mod.__dict__[k] for k in ('scale', 'unscale', 'pre')})
    CUR_FNS['__module__'] = mod


def finish_fn_module(spec):
    if spec.get('fnmode') == 'rebound':
        exec(FNMOD_OTHER, CUR_FNS['__module__'].__dict__)


def fn(name):
    if name is None:
        return None
    if name.startswith('m:'):
        return CUR_FNS[name[2:]]
    return FUNCS[name]


FUNCS = {'double': double, 'halve': halve, 'plus_one': plus_one, 'minus_one': minus_one, 'add2': add2, 'split2': split2}
OPS = {'gt': operator.gt, 'ge': operator.ge, 'lt': operator.lt, 'le': operator.le, 'eq': operator.eq, 'ne': operator.ne}
AOPS = {'add': operator.add, 'sub': operator.sub, 'mul': operator.mul, 'truediv': operator.truediv}


# ------------------------------------------------------------------ realising a spec
def values_for(kind, seed, shape):
    rs = np.random.RandomState(seed % (2 ** 31))
    if kind == 'float':
        return rs.randint(0, 9, shape).astype(float)
    if kind == 'floatnan':
        v = rs.randint(0, 9, shape).astype(float)
        v.flat[rs.randint(0, v.size)] = np.nan
        return v
    if kind == 'int':
        return rs.randint(-4, 9, shape)
    if kind == 'key':
        return rs.randint(0, 4, shape)
    if kind == 'cat':
        return np.array(['a', 'b', 'c', 'dd'])[rs.randint(0, 4, shape)]
    if kind == 'datetime':
        return (np.datetime64('2020-01-01') + rs.randint(0, 400, shape).astype('timedelta64[D]')).astype('datetime64[ns]')
    raise ValueError(kind)


# magnitude of a session (spec['mag'] = {'off': O, 'step': S}): every float component value v becomes O + S * v, every position parameter
# of a region / range / inequality p becomes O + S * p and every length (radius) r becomes S * r, computed in float64. The same spec
# without 'mag' is the session at its small, mostly dyadic, values. A codec must give back every float64 bit for bit, at any magnitude.
CUR_MAG = [None]


def mag_pos(p):
    m = CUR_MAG[0]
    if m is None or isinstance(p, bool) or not isinstance(p, (int, float)):
        return p
    return float(m['off']) + float(m['step']) * float(p)


def mag_len(r):
    m = CUR_MAG[0]
    if m is None or isinstance(r, bool) or not isinstance(r, (int, float)):
        return r
    return float(m['step']) * float(r)


def comp_values(c, shape):
    """values of a stored component of a spec (kind 'vals': listed base values), at the magnitude of the session"""
    k = c['kind']
    if k == 'vals':
        v = np.array(c['vals'], dtype=float).reshape(shape)
    else:
        v = values_for(k, c['seed'], shape)
    m = CUR_MAG[0]
    if m is not None and k in ('float', 'floatnan', 'vals'):
        v = float(m['off']) + float(m['step']) * v.astype(float)
    return v


def cat_categories(vals, cats):
    """explicit `categories=` argument of a CategoricalComponent from the option record of a spec:
    order: None (the values that occur, sorted = what the default would be) | 'reverse' | 'rotate' | 'swap' (first two exchanged);
    front / back: categories that do not occur in the data; drop: number of occurring categories left out (their rows get the code NaN);
    form: 'list' | 'tuple' | 'array' (how the argument is passed)"""
    present = [str(x) for x in np.unique(np.asarray(vals).ravel())]
    order = cats.get('order')
    if order == 'reverse':
        present = present[::-1]
    elif order == 'rotate':
        present = present[1:] + present[:1]
    elif order == 'swap' and len(present) > 1:
        present = [present[1], present[0]] + present[2:]
    if cats.get('drop'):
        present = present[:max(0, len(present) - cats['drop'])]
    out = list(cats.get('front') or []) + present + list(cats.get('back') or [])
    form = cats.get('form', 'list')
    if form == 'tuple':
        return tuple(out)
    if form == 'array':
        return np.array(out)
    return out


def att(datasets, ref):
    d = datasets[ref[0]]
    name = ref[1]
    if name.startswith('pix'):
        return d.pixel_component_ids[int(name[3:])]
    if name.startswith('world'):
        return d.world_component_ids[int(name[5:])]
    for cid in list(d.main_components) + list(d.derived_components):     # the dataset's own attribute (links add homonyms)
        if cid.label == name:
            return cid
    return d.id[name]


def make_roi(rs):
    if rs.get('boundary'):
        try:
            return _make_roi(rs)
        except NoRecipe:
            raise
        except Exception as e:
            raise NoRecipe('the constructor rejects %r: %s: %s' % (rs, type(e).__name__, e))
    return _make_roi(rs)


def _make_roi(rs):
    from glue.core import roi as R
    c = rs['cls']
    P, L = mag_pos, mag_len
    if c == 'RectangularROI':
        return R.RectangularROI(P(rs['xmin']), P(rs['xmax']), P(rs['ymin']), P(rs['ymax']), theta=rs.get('theta'))
    if c == 'RangeROI':
        return R.RangeROI(rs['orientation'], min=P(rs['min']), max=P(rs['max']))
    if c == 'XRangeROI':
        return R.XRangeROI(P(rs['min']), P(rs['max']))
    if c == 'YRangeROI':
        return R.YRangeROI(P(rs['min']), P(rs['max']))
    if c == 'CircularROI':
        return R.CircularROI(P(rs['xc']), P(rs['yc']), L(rs['radius']))
    if c == 'CircularAnnulusROI':
        return R.CircularAnnulusROI(P(rs['xc']), P(rs['yc']), L(rs['inner']), L(rs['outer']))
    if c == 'EllipticalROI':
        return R.EllipticalROI(P(rs['xc']), P(rs['yc']), L(rs['rx']), L(rs['ry']), theta=rs.get('theta'))
    if c in ('PolygonalROI', 'Path', 'VertexROIBase'):
        return getattr(R, c)(vx=[P(v) for v in rs['vx']], vy=[P(v) for v in rs['vy']])
    if c == 'PointROI':
        return R.PointROI(P(rs['x']), P(rs['y']))
    if c == 'CategoricalROI':
        return R.CategoricalROI(list(rs['categories']))
    if c == 'Projected3dROI':
        return R.Projected3dROI(roi_2d=_make_roi(rs['roi2d']), projection_matrix=np.array(rs['matrix'], dtype=float))
    if c == 'Roi':
        return R.Roi()
    # a class found by introspection that the harness has no recipe for: try the zero-argument constructor
    return generic_instance(getattr(R, c, None) or lookup(rs.get('qualname', c)))


def lookup(qualname):
    from glue.utils import lookup_class
    return lookup_class(qualname)


def generic_instance(cls, **known):
    """best effort construction of a class the harness has no recipe for (a class added to the package later)"""
    import inspect
    sig = inspect.signature(cls.__init__)
    kw = {}
    for p in list(sig.parameters.values())[1:]:
        if p.kind in (p.VAR_POSITIONAL, p.VAR_KEYWORD):
            continue
        nm = p.name.lower()
        if p.name in known:
            kw[p.name] = known[p.name]
        elif 'att' in nm or 'cid' in nm:
            if 'att' not in known:
                raise NoRecipe('no recipe for %s (parameter %s)' % (cls.__name__, p.name))
            kw[p.name] = known['att']
        elif nm in ('data', 'reference_data') and 'data' in known:
            kw[p.name] = known['data']
        elif 'roi' in nm:
            kw[p.name] = make_roi(ROI_SPECS['RectangularROI'][0])
        elif 'state' in nm and 'att' in known:
            from glue.core.subset import RangeSubsetState
            st = RangeSubsetState(2, 6, known['att'])
            kw[p.name] = [st] if nm.endswith('s') else st
        elif p.default is p.empty:
            kw[p.name] = {'lo': 2, 'hi': 6, 'min': 2, 'max': 6, 'xmin': 1, 'xmax': 6, 'ymin': 2, 'ymax': 7}.get(nm, 3)    # any number
    try:
        return cls(**kw)
    except Exception as e:
        raise NoRecipe('no recipe for %s: %s: %s' % (cls.__name__, type(e).__name__, e))


class NoRecipe(Exception):
    pass


def make_pretransform(name):
    from glue.core import roi_pretransforms as P
    if name is None:
        return None
    if name.startswith('m:'):
        return fn(name)
    if name == 'radian':
        return P.RadianTransform(coords=['x'])
    if name == 'radian_xy':
        return P.RadianTransform(coords=['x', 'y'])
    if name == 'fullsphere':
        return P.FullSphereLongitudeTransform()
    if name == 'fullsphere_radian':
        return P.FullSphereLongitudeTransform(next_transform=P.RadianTransform(coords=['y']))
    raise ValueError(name)


def arith(datasets, d, e):
    """expression tree ['mul', 'x', 2] -> ComponentID / number / BinaryComponentLink"""
    if isinstance(e, (int, float)):
        return mag_pos(e)
    if isinstance(e, str):
        return att(datasets, (d, e))
    a, b = arith(datasets, d, e[1]), arith(datasets, d, e[2])
    return AOPS[e[0]](a, b)


def make_state(datasets, st):
    from glue.core import subset as S
    c = st['cls']
    d = st.get('d', 0)
    if c == 'SubsetState':
        return S.SubsetState()
    if c == 'RangeSubsetState':
        return S.RangeSubsetState(mag_pos(st['lo']), mag_pos(st['hi']), att(datasets, (d, st['att'])))
    if c == 'MultiRangeSubsetState':
        return S.MultiRangeSubsetState([tuple(mag_pos(q) for q in p) for p in st['pairs']], att(datasets, (d, st['att'])))
    if c == 'InequalitySubsetState':
        left = arith(datasets, d, st['left'])
        right = arith(datasets, d, st['right'])
        return S.InequalitySubsetState(left, right, OPS[st['op']])
    if c == 'RoiSubsetState':
        return S.RoiSubsetState(att(datasets, (d, st['x'])), att(datasets, (d, st['y'])), make_roi(st['roi']),
                                make_pretransform(st.get('pre')))
    if c == 'RoiSubsetStateNd':
        return S.RoiSubsetStateNd([att(datasets, (d, a)) for a in st['atts']], make_roi(st['roi']), make_pretransform(st.get('pre')))
    if c == 'RoiSubsetState3d':
        return S.RoiSubsetState3d(att(datasets, (d, st['x'])), att(datasets, (d, st['y'])), att(datasets, (d, st['z'])),
                                  make_roi(st['roi']), make_pretransform(st.get('pre')))
    if c == 'CategoricalROISubsetState' and 'from_range' in st:
        # the public translation of a range over the integer codes into labels, using the component's category order at build time
        cid = att(datasets, (d, st['att']))
        return S.CategoricalROISubsetState.from_range(datasets[d].get_component(cid).categories, cid, st['from_range'][0], st['from_range'][1])
    if c == 'CategoricalROISubsetState':
        return S.CategoricalROISubsetState(att=att(datasets, (d, st['att'])), roi=make_roi({'cls': 'CategoricalROI', 'categories': st['categories']}))
    if c == 'CategoricalROISubsetState2D':
        return S.CategoricalROISubsetState2D({k: list(v) for k, v in st['categories'].items()}, att(datasets, (d, st['att1'])), att(datasets, (d, st['att2'])))
    if c == 'CategoricalMultiRangeSubsetState':
        return S.CategoricalMultiRangeSubsetState({k: [tuple(mag_pos(q) for q in p) for p in v] for k, v in st['ranges'].items()},
                                                  att(datasets, (d, st['cat'])), att(datasets, (d, st['num'])))
    if c in ('AndState', 'OrState', 'XorState'):
        return getattr(S, c)(make_state(datasets, st['a']), make_state(datasets, st['b']))
    if c == 'InvertState':
        return S.InvertState(make_state(datasets, st['a']))
    if c == 'CompositeSubsetState':
        return S.CompositeSubsetState(make_state(datasets, st['a']), make_state(datasets, st['b']))
    if c == 'MultiOrState':
        return S.MultiOrState([make_state(datasets, s) for s in st['states']])
    if c == 'MaskSubsetState':
        dd = datasets[d]
        mask = np.random.RandomState(st['seed']).rand(*dd.shape) < 0.5
        return S.MaskSubsetState(mask, dd.pixel_component_ids)
    if c == 'FloodFillSubsetState':
        dd = datasets[d]
        return S.FloodFillSubsetState(dd, att(datasets, (d, st['att'])), tuple(st['start']), st['threshold'])
    if c == 'SliceSubsetState':
        return S.SliceSubsetState(datasets[d], [slice(*s) for s in st['slices']])
    if c == 'PixelSubsetState':
        from glue.viewers.image.pixel_selection_subset_state import PixelSubsetState
        return PixelSubsetState(datasets[d], [slice(*s) for s in st['slices']])
    if c == 'CategorySubsetState':
        return S.CategorySubsetState(att(datasets, (d, st['att'])), np.array(st['codes']))
    if c == 'ElementSubsetState':
        return S.ElementSubsetState(indices=list(st['indices']), data=datasets[d])
    if c == 'ParsedSubsetState':
        from glue.core.parse import ParsedSubsetState, ParsedCommand
        return ParsedSubsetState(ParsedCommand(st['cmd'], {k: att(datasets, (d, v)) for k, v in st['refs'].items()}))
    # a class found by introspection without a recipe
    cls = lookup(st['qualname'])
    return generic_instance(cls, att=att(datasets, (d, st.get('att', 'x'))), data=datasets[d])


def apply_style(style, spec):
    for k, v in (spec or {}).items():
        setattr(style, k, tuple(v) if isinstance(v, list) else v)


def write_file(ds, path_base):
    """write the main numeric / categorical components of a dataset spec to a file; returns the path"""
    shape = tuple(ds['shape'])
    comps = [c for c in ds['comps'] if c['kind'] in ('float', 'int', 'cat', 'floatnan', 'key', 'vals') and not c.get('mem')]
    if ds['file'] == 'csv':
        path = path_base + '.csv'
        cols = [comp_values(c, shape) for c in comps]
        with open(path, 'w') as f:
            f.write(','.join(c['name'] for c in comps) + '\n')
            for i in range(shape[0]):
                f.write(','.join(('%r' % float(col[i]) if col.dtype.kind == 'f' else str(col[i])) for col in cols) + '\n')
        return path
    if ds['file'] == 'npy':
        path = path_base + '.npy'
        dt = [(c['name'], comp_values(c, shape).dtype) for c in comps]
        arr = np.zeros(shape, dtype=dt)
        for c in comps:
            arr[c['name']] = comp_values(c, shape)
        np.save(path, arr)
        return path
    if ds['file'] == 'fits':
        from astropy.io import fits
        path = path_base + '.fits'
        c = comps[0]      # one image per file; the other components of the dataset are added in memory
        fits.HDUList([fits.PrimaryHDU(comp_values(c, shape).astype(float))]).writeto(path, overwrite=True)
        return path
    raise ValueError(ds['file'])


def realise(spec, scratch):
    """spec -> (DataCollection, [Data...]); raises NoRecipe when a class has no construction recipe"""
    from glue.core import Data, DataCollection
    from glue.core.component import Component, CategoricalComponent, DateTimeComponent
    from glue.core.coordinates import IdentityCoordinates, AffineCoordinates
    from glue.core.component_link import ComponentLink
    from glue.core import link_helpers as LH
    setup_fn_module(spec)
    CUR_MAG[0] = spec.get('mag')
    datasets = []
    sdir = os.path.join(scratch, 'files_' + hashlib.sha1(json.dumps(spec, sort_keys=True, default=str).encode()).hexdigest()[:12])
    for ds in spec['datasets']:
        shape = tuple(ds['shape'])
        if ds.get('region'):
            import shapely
            from shapely.geometry import Point
            from glue.core.data_region import RegionData
            n = shape[0]
            geoms = np.array([Point(float(i), float(i % 3)).buffer(1 + 0.5 * i) for i in range(n)])
            if ds['region'] == 'no-extended':
                d = RegionData(label=ds['label'])
            else:
                d = RegionData(label=ds['label'], boundary=geoms, area=shapely.area(geoms))
        elif ds.get('file'):
            from glue.core.data_factories import load_data
            os.makedirs(sdir, exist_ok=True)
            path = write_file(ds, os.path.join(sdir, ds['label']))
            d = load_data(path)
            if isinstance(d, list):
                if ds['file'] == 'fits':
                    d = d[0]
                else:
                    raise NoRecipe('file gave %d datasets' % len(d))
            d.label = ds['label']
            if ds['file'] == 'fits':
                first = [c for c in ds['comps'] if c['kind'] in ('float', 'int', 'cat', 'floatnan', 'vals') and not c.get('mem')][0]
                d.main_components[0].label = first['name']
        else:
            d = Data(label=ds['label'])
            if ds.get('coords') == 'identity':
                d.coords = IdentityCoordinates(n_dim=len(shape))
            elif ds.get('coords') == 'affine':
                n = len(shape)
                m = np.identity(n + 1)
                for i in range(n):
                    m[i, i] = 2 + i
                    m[i, n] = 10 * (i + 1)
                if ds.get('affine_shear') and n > 1:
                    m[0, 1] = 1
                d.coords = AffineCoordinates(m, units=['u%d' % i for i in range(n)] if ds.get('affine_units') else None,
                                             labels=['L%d' % i for i in range(n)] if ds.get('affine_labels') else None)
            elif ds.get('coords') == 'legacy':
                from glue.core.coordinates import LegacyCoordinates
                d.coords = LegacyCoordinates()
            elif ds.get('coords') == 'wcs':
                from astropy.wcs import WCS
                w = WCS(naxis=2)
                w.wcs.ctype = ['RA---TAN', 'DEC--TAN']
                w.wcs.crval = [10, 20]
                w.wcs.cdelt = [-0.5, 0.5] if ds.get('wcs_variant') else [-0.25, 0.25]
                w.wcs.crpix = [2, 2] if ds.get('wcs_variant') else [1, 1]
                w.wcs.set()
                d.coords = w
        datasets.append(d)
        for c in ds['comps']:
            k = c['kind']
            if ds.get('region'):
                if k in ('float', 'int', 'cat', 'vals'):
                    d.add_component(comp_values(c, shape), c['name'])
                continue
            if ds.get('file') and k in ('float', 'int', 'cat', 'floatnan', 'key', 'vals') and not c.get('mem'):
                if ds['file'] != 'fits' or c['name'] == d.main_components[0].label:
                    continue
            if k in ('float', 'int', 'floatnan', 'key', 'vals'):
                comp = Component(comp_values(c, shape), units=c.get('units'))
                d.add_component(comp, c['name'])
            elif k == 'cat':
                vals = comp_values(c, shape)
                kw = {}
                if c.get('cats') is not None:
                    kw['categories'] = cat_categories(vals, c['cats'])
                if c.get('jitter') is not None:
                    kw['jitter'] = c['jitter']
                comp = CategoricalComponent(vals, units=c.get('units'), **kw)
                d.add_component(comp, c['name'])
            elif k == 'datetime':
                d.add_component(DateTimeComponent(comp_values(c, shape), units=c.get('units')), c['name'])
            elif k == 'dask':
                import dask.array as da
                from glue.core.component import DaskComponent
                d.add_component(DaskComponent(da.from_array(comp_values(dict(c, kind='float'), shape), chunks=2)), c['name'])
            # derived components are added where the spec lists them, i.e. possibly before stored ones
            idx = len(datasets) - 1
            if k == 'arith':
                d.add_component(arith(datasets, idx, c['expr']), c['name'])
            elif k == 'func':
                from glue.core.component_id import ComponentID
                link = ComponentLink([att(datasets, (idx, a)) for a in c['from']], ComponentID(c['name'], parent=d), using=fn(c['fn']))
                d.add_component_link(link)
            elif k == 'parsed':
                from glue.core.parse import ParsedCommand, ParsedComponentLink
                from glue.core.component_id import ComponentID
                pc = ParsedCommand(c['cmd'], {kk: att(datasets, (idx, v)) for kk, v in c['refs'].items()})
                d.add_component_link(ParsedComponentLink(ComponentID(c['name'], parent=d), pc))
        for c in ds['comps']:
            if c['kind'] in ('arith', 'func', 'parsed') and c.get('units') is not None:
                d.get_component(att(datasets, (len(datasets) - 1, c['name']))).units = c['units']
        if ds.get('reorder'):
            coord = list(d.coordinate_components)
            rest = [c for c in d.components if not any(c is x for x in coord)]
            if ds['reorder'] == 'reverse':
                new_order = coord + rest[::-1]
            elif ds['reorder'] == 'rotate':
                new_order = coord + rest[1:] + rest[:1]
            elif ds['reorder'] == 'coords_last':
                new_order = rest + coord
            else:
                new_order = rest[::-1] + coord[::-1]
            d.reorder_components(new_order)
        apply_style(d.style, ds.get('style'))
        for k, v in (ds.get('meta') or {}).items():
            d.meta[k] = v
        if ds.get('meta_unserialisable'):
            d.meta['obj'] = object()
    dc = DataCollection(datasets)
    for ln in spec.get('links', []):
        k = ln['kind']
        a = att(datasets, ln['a']) if 'a' in ln else None
        b = att(datasets, ln['b']) if 'b' in ln else None
        if k == 'LinkSame':
            dc.add_link(LH.LinkSame(a, b))
        elif k == 'LinkTwoWay':
            dc.add_link(LH.LinkTwoWay(a, b, fn(ln['f']), fn(ln['g'])))
        elif k == 'LinkSameWithUnits':
            dc.add_link(LH.LinkSameWithUnits(a, b))
        elif k == 'ComponentLink':
            dc.add_link(ComponentLink([a], b, using=fn(ln['f']), inverse=fn(ln.get('g'))))
        elif k == 'ComponentLink2':
            a2 = att(datasets, ln['a2'])
            dc.add_link(ComponentLink([a, a2], b, using=FUNCS['add2']))
        elif k == 'IdentityLink':
            dc.add_link(ComponentLink([a], b))
        elif k == 'PartialResultLink':
            dc.add_link(ComponentLink([a], b, using=LH.PartialResult(FUNCS['split2'], 1)))
        elif k == 'MultiLink':
            a2 = att(datasets, ln['a2'])
            dc.add_link(LH.MultiLink([a, a2], [b], forwards=FUNCS['add2'], backwards=FUNCS['split2']))
        elif k == 'LinkAligned':
            dc.add_link(LH.LinkAligned(datasets[ln['d1']], datasets[ln['d2']]))
        elif k in ('WCSLink', 'WCSLink.affine', 'WCSLink.offset'):
            from glue.plugins.wcs_autolinking.wcs_autolinking import WCSLink
            wl = WCSLink(datasets[ln['d1']], datasets[ln['d2']])
            if k != 'WCSLink':
                st = np.random.get_state()
                np.random.seed(12345)
                try:
                    wl = wl.as_affine_link(tolerance=1e-3 if k == 'WCSLink.affine' else 10)
                finally:
                    np.random.set_state(st)
            dc.add_link(wl)
        elif k == 'JoinLink':
            dc.add_link(LH.JoinLink(cids1=[a], cids2=[b], data1=datasets[ln['a'][0]], data2=datasets[ln['b'][0]]))
        elif k == 'join_on_key':
            datasets[ln['a'][0]].join_on_key(datasets[ln['b'][0]], a, b)
        elif k == 'FunctionalLinkCollection':
            F = LH.functional_link_collection(lambda x, y: [ComponentLink([x], y, using=FUNCS['double'])], labels1=['x'], labels2=['y'])
            dc.add_link(F(data1=datasets[ln['a'][0]], data2=datasets[ln['b'][0]], cids1=[a], cids2=[b]))
        elif k == 'BaseMultiLink':
            dc.add_link(LH.BaseMultiLink(cids1=[a], cids2=[b], data1=datasets[ln['a'][0]], data2=datasets[ln['b'][0]]))
        elif k == 'LinkCollection':
            dc.add_link(LH.LinkCollection(data1=datasets[ln['a'][0]], data2=datasets[ln['b'][0]], cids1=[a], cids2=[b]))
        elif k.startswith('helper:'):
            cls = lookup(k[7:])
            n1, n2 = len(getattr(cls, 'labels1', [])), len(getattr(cls, 'labels2', []))
            c1 = [att(datasets, (ln['d1'], nm)) for nm in ln['c1'][:n1]]
            c2 = [att(datasets, (ln['d2'], nm)) for nm in ln['c2'][:n2]]
            if len(c1) < n1 or len(c2) < n2:
                raise NoRecipe('%s needs %d+%d attributes' % (k, n1, n2))
            try:
                obj = cls(cids1=c1, cids2=c2, data1=datasets[ln['d1']], data2=datasets[ln['d2']])
            except TypeError as e:
                raise NoRecipe('%s: %s' % (k, e))
            dc.add_link(obj)
        else:
            raise NoRecipe('link kind %s' % k)
    for sb in spec.get('subsets', []):
        grp = dc.new_subset_group(sb['label'], make_state(datasets, sb['state']))
        apply_style(grp.style, sb.get('style'))
    finish_fn_module(spec)
    return dc, datasets


# ------------------------------------------------------------------ observing a session
GEOM_DECIMALS = [None]      # set to 6 while judging records of shapely protocol 1 (WKT, six decimals)


def geom_text(g):
    import shapely
    if GEOM_DECIMALS[0] is None:
        return shapely.to_wkb(g, hex=True)
    return shapely.to_wkt(g, rounding_precision=GEOM_DECIMALS[0])


def canon(v):
    """numpy value(s) -> JSON-able, exact"""
    if isinstance(v, np.ndarray):
        if v.dtype == object and v.size and type(v.flat[0]).__module__.startswith('shapely'):
            return [geom_text(x) for x in v.ravel()]
        if v.dtype.kind == 'M':
            return [str(x) for x in v.ravel().tolist()] if v.dtype != object else [str(x) for x in v.ravel()]
        if v.dtype.kind == 'f':
            return ['nan' if x != x else x for x in v.ravel().tolist()]
        if v.dtype.kind in 'OUS':
            return [str(x) for x in v.ravel().tolist()]
        return v.ravel().tolist()
    if isinstance(v, (np.generic,)):
        return canon(np.asarray(v).reshape(1))[0]
    if isinstance(v, (list, tuple)):
        return [canon(x) for x in v]
    if isinstance(v, dict):
        return {str(k): canon(x) for k, x in sorted(v.items(), key=lambda kv: str(kv[0]))}
    if isinstance(v, float) and v != v:
        return 'nan'
    if isinstance(v, (int, float, str, bool)) or v is None:
        return v
    if hasattr(v, 'name') and type(v).__module__.startswith('matplotlib'):
        return 'cmap:' + v.name
    return repr(type(v))


def style_of(st):
    return {a: canon(getattr(st, a, None)) for a in sorted(type(st).DEFAULT_ATTS)}


def jsonable_meta(meta):
    out = {}
    for k, v in meta.items():
        if not isinstance(k, str):
            continue
        try:
            json.dumps(v)
        except (TypeError, ValueError):
            continue
        out[k] = canon(v)
    return out


def read(d, cid):
    """values of an attribute as seen from dataset d, or the class of the exception"""
    try:
        return canon(np.asarray(d[cid]))
    except Exception as e:
        return 'EXC:' + type(e).__name__


def exact(v):
    """a purely numeric value (number, array / list / tuple / dict of numbers) with every float spelled bit for bit (hexadecimal);
    None for anything else. A codec must not change a float64: 1700000095.0 restored as 1700000128.0 is a different region."""
    if isinstance(v, (bool, np.bool_)):
        return bool(v)
    if isinstance(v, (int, np.integer)):
        return int(v)
    if isinstance(v, (float, np.floating)):
        f = float(v)
        return 'nan' if f != f else '%s = %r' % (f.hex(), f)
    if isinstance(v, np.ndarray):
        if v.dtype.kind not in 'fiub' or v.size == 0:       # the element type of an empty array is not observable
            return None
        return [exact(x) for x in v.ravel().tolist()]
    if isinstance(v, (list, tuple)):
        if len(v) == 0:
            return None
        out = [exact(x) for x in v]
        return None if any(x is None for x in out) else out
    if isinstance(v, dict):
        out = {}
        for k, x in v.items():
            if not isinstance(k, (str, int, float)):
                return None
            e = exact(x)
            if e is None:
                return None
            out[str(k)] = e
        return out
    return None


def state_params(st, depth=0):
    """the numeric parameters (range limits, pairs, constants, thresholds, indices ...) of every state of a (composite) subset state,
    in structural order, bit for bit"""
    out = []
    if depth > 6 or st is None:
        return out
    o = {'class': type(st).__name__}
    try:
        items = sorted(vars(st).items())
    except TypeError:
        items = []
    for k, v in items:
        if k.startswith('__') or v is None:
            continue
        e = exact(v)
        if e is not None:
            o[k] = e
    out.append(o)
    for nm in ('state1', 'state2'):
        out += state_params(getattr(st, nm, None), depth + 1)
    for sub in getattr(st, 'states', None) or []:
        out += state_params(sub, depth + 1)
    return out


GRID = np.meshgrid(np.arange(-1.25, 10, 0.75), np.arange(-1.25, 10, 0.75))


def roi_obs(roi):
    """a region by its class, its instance attributes and the points of a fixed grid it contains"""
    o = {'class': type(roi).__name__}
    for k, v in sorted(vars(roi).items()):
        if k.startswith('__'):
            continue
        if hasattr(v, 'contains'):
            o[k] = roi_obs(v)
        else:
            o[k] = canon(np.asarray(v)) if isinstance(v, (np.ndarray, list, tuple)) else canon(v)
            if exact(v) is not None:
                o.setdefault('exact', {})[k] = exact(v)
    try:
        o['grid'] = canon(np.asarray(roi.contains(GRID[0], GRID[1])).astype(int)) if not hasattr(roi, 'contains3d') else None
    except Exception as e:
        o['grid'] = 'EXC:' + type(e).__name__
    return o


def state_rois(st, depth=0):
    """every region inside a (composite) subset state, in structural order"""
    out = []
    if depth > 6 or st is None:
        return out
    for nm in ('roi', '_roi'):
        r = getattr(st, nm, None)
        if r is not None and hasattr(r, 'contains'):
            out.append(roi_obs(r))
            break
    for nm in ('state1', 'state2'):
        out += state_rois(getattr(st, nm, None), depth + 1)
    for sub in getattr(st, 'states', None) or []:
        out += state_rois(sub, depth + 1)
    return out


def cat_obs(comp):
    """a categorical component as the rest of the package sees it: labels, integer codes (what CategorySubsetState, ranges over a
    categorical axis and the viewers work on), the category list in its order. With jitter the codes carry fresh random noise in
    [-0.5, 0.5) by design, so the code is read back by rounding."""
    o = {}
    for nm in ('labels', 'codes', 'categories'):
        try:
            v = getattr(comp, nm)
            if nm == 'codes':
                v = np.asarray(v, dtype=float)
                if getattr(comp, 'jitter_method', None) is not None:
                    v = np.floor(v + 0.5)
            elif nm == 'labels':
                v = np.asarray(v)
            else:
                v = [str(x) for x in v]
            o[nm] = canon(v)
        except Exception as e:
            o[nm] = 'EXC:' + type(e).__name__
    return o


def observe(dc, aspects=None):
    """canonical, JSON-able description of everything the property lists; `aspects` restricts it (C12: what an old format recorded)"""
    A = aspects or {'labels', 'components', 'values', 'linked', 'links', 'masks', 'styles', 'meta', 'joins', 'groups', 'coords', 'uuid', 'sg_count'}
    obs = {'n_data': len(dc), 'data': []}
    datasets = list(dc)
    for d in datasets:
        o = {}
        if 'labels' in A:
            o['label'] = d.label
            o['shape'] = list(d.shape)
            o['class'] = type(d).__name__
        comps = list(d.components)
        if 'components' in A:
            o['components'] = [c.label for c in comps]
            o['main'] = [c.label for c in d.main_components]
            o['derived'] = [c.label for c in d.derived_components]
            o['kinds'] = [type(d.get_component(c)).__name__ for c in comps]
            o['units'] = [canon(d.get_component(c).units) for c in comps]
            o['jitter'] = [canon(getattr(d.get_component(c), 'jitter_method', None)) for c in comps]
        if 'values' in A:
            o['values'] = [read(d, c) for c in comps]
            o['categories'] = [canon(d.get_component(c).categories) if hasattr(d.get_component(c), 'categories') else None for c in comps]
            o['categorical'] = [cat_obs(d.get_component(c)) if getattr(d.get_component(c), 'categorical', False) else None for c in comps]
        if 'coords' in A:
            o['coords'] = type(d.coords).__name__ if d.coords is not None else None
        if 'styles' in A:
            o['style'] = style_of(d.style)
        if 'meta' in A:
            o['meta'] = jsonable_meta(d.meta)
        if 'uuid' in A:
            o['uuid'] = d.uuid
        if 'joins' in A:
            # in the order of the dictionary: a selection is translated through the first join that can reach it
            o['joins'] = [[other.label, [c.label for c in v[0]] if isinstance(v[0], tuple) else 'NOT-A-TUPLE',
                           [c.label for c in v[1]] if isinstance(v[1], tuple) else 'NOT-A-TUPLE'] for other, v in d._key_joins.items()]
        if 'masks' in A:
            subs = []
            for s in d.subsets:
                so = {'label': s.label}
                try:
                    so['mask'] = canon(np.asarray(s.to_mask()).astype(int))
                except Exception as e:
                    so['mask'] = 'EXC:' + type(e).__name__
                if 'styles' in A:
                    so['style'] = style_of(s.style)
                so['rois'] = state_rois(s.subset_state)
                so['params'] = state_params(s.subset_state)
                subs.append(so)
            o['subsets'] = subs
        obs['data'].append(o)
    if 'linked' in A:
        linked = {}
        for i, di in enumerate(datasets):
            for j, dj in enumerate(datasets):
                if i == j:
                    continue
                for k, cid in enumerate(dj.components):
                    linked['%d<-%d:%d(%s)' % (i, j, k, cid.label)] = read(di, cid)
        obs['linked'] = linked
    if 'links' in A:
        # the links between datasets held by the collection, as (input labels with their dataset, output label with its dataset)
        def lab(c):
            return '%s.%s' % (getattr(c.parent, 'label', None), c.label)
        ext = []
        for l in dc.external_links:
            subs = list(l) if hasattr(l, '__iter__') and not hasattr(l, 'get_from_ids') else [l]
            if not subs:
                ext.append([type(l).__name__])
            for sl in subs:
                ext.append([[lab(c) for c in sl.get_from_ids()], lab(sl.get_to_id())])
        obs['external_links'] = sorted(ext, key=lambda x: json.dumps(x))
    if 'groups' in A:
        obs['groups'] = [g.label for g in dc.subset_groups]
        obs['group_sizes'] = [len(g.subsets) for g in dc.subset_groups]
    if 'sg_count' in A:
        obs['sg_count'] = dc._sg_count
    return obs


def diff(a, b, path='', out=None, limit=6):
    out = [] if out is None else out
    if len(out) >= limit:
        return out
    if type(a) != type(b):
        out.append((path, a, b))
    elif isinstance(a, dict):
        for k in sorted(set(a) | set(b)):
            if k not in a or k not in b:
                out.append((path + '/' + str(k), a.get(k, '<missing>'), b.get(k, '<missing>')))
            else:
                diff(a[k], b[k], path + '/' + str(k), out, limit)
    elif isinstance(a, list):
        if len(a) != len(b):
            out.append((path + '/len', a, b))
        else:
            for i, (x, y) in enumerate(zip(a, b)):
                diff(x, y, path + '/%d' % i, out, limit)
    elif a != b:
        out.append((path, a, b))
    return out


# ------------------------------------------------------------------ one trip
class HarnessTimeout(Exception):
    pass


class time_limit(object):
    """abort a single save / load of the implementation that does not come back (SIGALRM; main thread only)"""

    def __init__(self, seconds):
        self.seconds = seconds

    def __enter__(self):
        import signal

        def handler(signum, frame):
            raise HarnessTimeout('no result after %d s' % self.seconds)
        self.old = signal.signal(signal.SIGALRM, handler)
        signal.alarm(self.seconds)

    def __exit__(self, *a):
        import signal
        signal.alarm(0)
        signal.signal(signal.SIGALRM, self.old)
        return False


def save(obj, include_data, serializer_cls=None):
    from glue.core.state import GlueSerializer
    cls = serializer_cls or GlueSerializer
    return cls(obj, include_data=include_data).dumps()


def load(text):
    from glue.core.state import GlueUnSerializer
    return GlueUnSerializer.loads(text).object('__main__')


def trip(spec, scratch, via_app=False, serializer_cls=None, aspects=None):
    """returns dict(status=..., detail=...) with status in
       no-recipe | build-failed | save-failed (allowed) | load-failed | changed | resave-failed | not-idempotent | ok"""
    from glue.core.application_base import Application
    try:
        dc, datasets = realise(spec, scratch)
    except NoRecipe as e:
        return {'status': 'no-recipe', 'detail': str(e)}
    except Exception as e:
        return {'status': 'build-failed', 'detail': '%s: %s' % (type(e).__name__, str(e)[:200])}
    try:
        before = observe(dc, aspects)
    except Exception as e:
        return {'status': 'build-failed', 'detail': 'observe: %s: %s' % (type(e).__name__, str(e)[:200])}
    inc = bool(spec.get('include_data', True))

    def save_it(coll, tagname):
        if via_app:
            app = Application(coll)
            path = os.path.join(scratch, 'session_%s_%s.glu' % (tagname, hashlib.sha1(json.dumps(spec, sort_keys=True, default=str).encode()).hexdigest()[:10]))
            app.save_session(path, include_data=inc)
            return open(path).read()
        return save(coll, inc, serializer_cls)

    def load_it(text):
        obj = load(text)
        return obj.data_collection if via_app else obj
    try:
        with time_limit(30):
            text = save_it(dc, 'a')
    except HarnessTimeout as e:
        return {'status': 'load-failed', 'detail': 'saving does not terminate: %s' % e}
    except Exception as e:
        return {'status': 'save-failed', 'detail': '%s: %s' % (type(e).__name__, str(e)[:200])}
    SEEN_RECORDS.update(records_in(text))
    try:
        with time_limit(30):
            dc2 = load_it(text)
        after = observe(dc2, aspects)
    except Exception as e:
        return {'status': 'load-failed', 'detail': '%s: %s' % (type(e).__name__, str(e)[:300]), 'types': sorted(types_in(text))}
    dd = diff(before, after)
    if dd:
        return {'status': 'changed', 'detail': [[p, x, y] for p, x, y in dd], 'types': sorted(types_in(text))}
    try:
        with time_limit(30):
            text2 = save_it(dc2, 'b')
    except Exception as e:
        return {'status': 'resave-failed', 'detail': '%s: %s' % (type(e).__name__, str(e)[:300])}
    try:
        with time_limit(30):
            dc3 = load_it(text2)
        again = observe(dc3, aspects)
    except Exception as e:
        return {'status': 'not-idempotent', 'detail': 'second load: %s: %s' % (type(e).__name__, str(e)[:300])}
    dd = diff(after, again)
    if dd:
        return {'status': 'not-idempotent', 'detail': [[p, x, y] for p, x, y in dd]}
    # what the restored collection DOES, not only what it shows: the same follow-up operations on the original and on the
    # restored collection (last, since they change both)
    if aspects is None or 'groups' in aspects:
        try:
            with time_limit(30):
                la, lb = liveness(dc), liveness(dc2)
        except Exception as e:
            return {'status': 'changed', 'detail': [['liveness', 'probe raised', '%s: %s' % (type(e).__name__, str(e)[:200])]], 'types': sorted(types_in(text))}
        if la != lb:
            return {'status': 'changed', 'detail': [['liveness after restore (append a dataset / new group / remove it again)', la, lb]], 'types': sorted(types_in(text))}
    return {'status': 'ok', 'detail': None, 'types': sorted(types_in(text)), 'nontrivial': nontrivial(before)}


def liveness(dc):
    """follow-up behaviour of a collection (the hub wiring of its subset groups): a dataset appended afterwards gets one subset
    per group, a group created afterwards gets one subset per dataset, and removing the dataset takes them away again"""
    from glue.core import Data
    out = {}
    d = Data(probe_v=[1.0, 2.0, 3.0], label='__probe__')
    dc.append(d)
    out['subsets_of_appended_dataset'] = sorted(str(x.label) for x in d.subsets)
    out['group_sizes_after_append'] = [len(g.subsets) for g in dc.subset_groups]
    g = dc.new_subset_group(label='__probe_group__')
    out['new_group_members'] = len(g.subsets)
    out['datasets_with_new_group'] = [sum(1 for x in dd_.subsets if x.label == '__probe_group__') for dd_ in dc]
    dc.remove_subset_group(g)
    dc.remove(d)
    out['group_sizes_after_remove'] = [len(gr.subsets) for gr in dc.subset_groups]
    out['n_data_after_remove'] = len(dc)
    return out


def records_in(text):
    """(type, protocol, sorted keys) of every record of a saved session"""
    acc = set()
    try:
        top = json.loads(text)
    except ValueError:
        return acc
    for rec in top.values() if isinstance(top, dict) else []:
        stack = [rec]
        while stack:
            o = stack.pop()
            if isinstance(o, dict):
                if isinstance(o.get('_type'), str):
                    acc.add((o['_type'], o.get('_protocol', 1), tuple(sorted(k for k in o if isinstance(k, str)))))
                stack.extend(o.values())
            elif isinstance(o, list):
                stack.extend(o)
    return acc


SEEN_RECORDS = set()


def types_in(text):
    acc = set()

    def walk(o):
        if isinstance(o, dict):
            if isinstance(o.get('_type'), str):
                acc.add(o['_type'])
            for v in o.values():
                walk(v)
        elif isinstance(o, list):
            for v in o:
                walk(v)
    walk(json.loads(text))
    return acc


def nontrivial(obs):
    """a session is non-trivial when some subset mask is neither empty nor full, or some attribute is reachable across datasets"""
    for d in obs['data']:
        for s in d.get('subsets', []):
            m = s.get('mask')
            if isinstance(m, list) and 0 < sum(m) < len(m):
                return True
    return any(isinstance(v, list) for v in obs.get('linked', {}).values())


BAD = ('load-failed', 'changed', 'resave-failed', 'not-idempotent')


# ------------------------------------------------------------------ spec generation
def table_ds(label, n=6, seed=1, extra=(), **kw):
    comps = [{'name': 'x', 'kind': 'float', 'seed': seed}, {'name': 'y', 'kind': 'float', 'seed': seed + 1},
             {'name': 'z', 'kind': 'int', 'seed': seed + 2}, {'name': 'c', 'kind': 'cat', 'seed': seed + 3},
             {'name': 'c2', 'kind': 'cat', 'seed': seed + 4}]
    comps += list(extra)
    ds = {'label': label, 'shape': [n], 'comps': comps}
    ds.update(kw)
    return ds


def image_ds(label, shape=(3, 4), seed=5, extra=(), **kw):
    comps = [{'name': 'x', 'kind': 'float', 'seed': seed}, {'name': 'y', 'kind': 'float', 'seed': seed + 1}] + list(extra)
    ds = {'label': label, 'shape': list(shape), 'comps': comps}
    ds.update(kw)
    return ds


ROI_SPECS = {
    'RectangularROI': [{'cls': 'RectangularROI', 'xmin': 1, 'xmax': 6, 'ymin': 2, 'ymax': 7},
                       {'cls': 'RectangularROI', 'xmin': 1, 'xmax': 6, 'ymin': 2, 'ymax': 7, 'theta': 0.5}],
    'RangeROI': [{'cls': 'RangeROI', 'orientation': 'x', 'min': 2, 'max': 5}, {'cls': 'RangeROI', 'orientation': 'y', 'min': 2, 'max': 5}],
    'XRangeROI': [{'cls': 'XRangeROI', 'min': 1, 'max': 4}],
    'YRangeROI': [{'cls': 'YRangeROI', 'min': 3, 'max': 8}],
    'CircularROI': [{'cls': 'CircularROI', 'xc': 4, 'yc': 4, 'radius': 3}],
    'CircularAnnulusROI': [{'cls': 'CircularAnnulusROI', 'xc': 4, 'yc': 4, 'inner': 1.5, 'outer': 4}],
    'EllipticalROI': [{'cls': 'EllipticalROI', 'xc': 4, 'yc': 4, 'rx': 3, 'ry': 2}, {'cls': 'EllipticalROI', 'xc': 4, 'yc': 4, 'rx': 3, 'ry': 2, 'theta': 0.7}],
    'PolygonalROI': [{'cls': 'PolygonalROI', 'vx': [0, 6, 6, 2], 'vy': [0, 1, 7, 8]}],
    'Path': [{'cls': 'Path', 'vx': [0, 6, 6, 2], 'vy': [0, 1, 7, 8]}],
    'VertexROIBase': [{'cls': 'VertexROIBase', 'vx': [0, 6, 6, 2], 'vy': [0, 1, 7, 8]}],
    'PointROI': [{'cls': 'PointROI', 'x': 2, 'y': 3}],
    'Roi': [{'cls': 'Roi'}],
}
def _b(**kw):
    kw['boundary'] = True
    return kw


# boundary / degenerate parameter values, built through the public constructors
ROI_BOUNDARY = {
    'RectangularROI': [_b(cls='RectangularROI', xmin=6, xmax=1, ymin=2, ymax=7), _b(cls='RectangularROI', xmin=1, xmax=6, ymin=7, ymax=2),
                       _b(cls='RectangularROI', xmin=6, xmax=1, ymin=7, ymax=2), _b(cls='RectangularROI', xmin=3, xmax=3, ymin=2, ymax=7),
                       _b(cls='RectangularROI', xmin=3, xmax=3, ymin=4, ymax=4), _b(cls='RectangularROI', xmin=1, xmax=6, ymin=2, ymax=7, theta=-0.5),
                       _b(cls='RectangularROI', xmin=1, xmax=6, ymin=2, ymax=7, theta=7.0), _b(cls='RectangularROI', xmin=6, xmax=1, ymin=2, ymax=7, theta=0.5),
                       _b(cls='RectangularROI', xmin=1, xmax=6, ymin=2, ymax=7, theta=0)],
    'RangeROI': [_b(cls='RangeROI', orientation='x', min=5, max=2), _b(cls='RangeROI', orientation='y', min=3, max=3), _b(cls='RangeROI', orientation='x', min=-1, max=0)],
    'XRangeROI': [_b(cls='XRangeROI', min=4, max=1), _b(cls='XRangeROI', min=2, max=2)],
    'YRangeROI': [_b(cls='YRangeROI', min=8, max=3), _b(cls='YRangeROI', min=0, max=0)],
    'CircularROI': [_b(cls='CircularROI', xc=4, yc=4, radius=0), _b(cls='CircularROI', xc=4, yc=4, radius=-3), _b(cls='CircularROI', xc=0, yc=0, radius=100)],
    'CircularAnnulusROI': [_b(cls='CircularAnnulusROI', xc=4, yc=4, inner=4, outer=1.5), _b(cls='CircularAnnulusROI', xc=4, yc=4, inner=3, outer=3),
                           _b(cls='CircularAnnulusROI', xc=4, yc=4, inner=0, outer=4), _b(cls='CircularAnnulusROI', xc=4, yc=4, inner=0, outer=0)],
    'EllipticalROI': [_b(cls='EllipticalROI', xc=4, yc=4, rx=0, ry=2), _b(cls='EllipticalROI', xc=4, yc=4, rx=3, ry=0), _b(cls='EllipticalROI', xc=4, yc=4, rx=-3, ry=2),
                      _b(cls='EllipticalROI', xc=4, yc=4, rx=3, ry=2, theta=-1.0), _b(cls='EllipticalROI', xc=4, yc=4, rx=3, ry=2, theta=9.0), _b(cls='EllipticalROI', xc=4, yc=4, rx=3, ry=2, theta=0)],
    'PolygonalROI': [_b(cls='PolygonalROI', vx=[], vy=[]), _b(cls='PolygonalROI', vx=[3], vy=[3]), _b(cls='PolygonalROI', vx=[0, 6], vy=[0, 7]),
                     _b(cls='PolygonalROI', vx=[0, 6, 6, 0, 0], vy=[0, 0, 7, 7, 0]), _b(cls='PolygonalROI', vx=[0, 6, 0, 6], vy=[0, 7, 7, 0])],
    'Path': [_b(cls='Path', vx=[], vy=[]), _b(cls='Path', vx=[3], vy=[3]), _b(cls='Path', vx=[0, 6], vy=[0, 7])],
    'CategoricalROI': [],
}


PROJ = [[1, 0, 0, 0], [0, 1, 0, 0], [0, 0, 1, 0], [0, 0, 0, 1]]
PROJ2 = [[1, 0.5, 0, 0], [0, 1, 0.25, 1], [0, 0, 1, 0], [0, 0, 0, 2]]


def state_specs_for(cls_name, qualname):
    """canonical state specs for one SubsetState class (dataset 0 = table `t`, dataset 1 = image `im`)"""
    c = cls_name
    if c == 'SubsetState':
        return [{'cls': c}]
    if c == 'RangeSubsetState':
        return [{'cls': c, 'd': 0, 'att': 'x', 'lo': 2, 'hi': 5}, {'cls': c, 'd': 1, 'att': 'x', 'lo': 1.5, 'hi': 6}]
    if c == 'MultiRangeSubsetState':
        return [{'cls': c, 'd': 0, 'att': 'x', 'pairs': [[0, 1], [5, 7]]}]
    if c == 'InequalitySubsetState':
        return [{'cls': c, 'd': 0, 'left': 'x', 'right': 3, 'op': 'gt'}, {'cls': c, 'd': 0, 'left': 'x', 'right': 'y', 'op': 'le'},
                {'cls': c, 'd': 0, 'left': ['mul', 'x', 2], 'right': ['add', 'y', 3], 'op': 'ge'}, {'cls': c, 'd': 0, 'left': 4, 'right': 'z', 'op': 'ne'}]
    if c == 'RoiSubsetState':
        out = []
        for name, rs in ROI_SPECS.items():
            for r in rs:
                out.append({'cls': c, 'd': 0, 'x': 'x', 'y': 'y', 'roi': r})
        out.append({'cls': c, 'd': 1, 'x': 'pix1', 'y': 'pix0', 'roi': ROI_SPECS['RectangularROI'][0]})
        out.append({'cls': c, 'd': 0, 'x': 'x', 'y': 'y', 'roi': ROI_SPECS['CircularROI'][0], 'pre': 'radian'})
        out.append({'cls': c, 'd': 0, 'x': 'x', 'y': 'y', 'roi': ROI_SPECS['RectangularROI'][0], 'pre': 'fullsphere'})
        out.append({'cls': c, 'd': 0, 'x': 'x', 'y': 'y', 'roi': ROI_SPECS['RectangularROI'][0], 'pre': 'fullsphere_radian'})
        out.append({'cls': c, 'd': 0, 'x': 'x', 'y': 'y', 'roi': ROI_SPECS['RectangularROI'][0], 'pre': 'radian_xy'})
        return out
    if c == 'RoiSubsetStateNd':
        return [{'cls': c, 'd': 0, 'atts': ['x', 'y'], 'roi': ROI_SPECS['RectangularROI'][0]},
                {'cls': c, 'd': 0, 'atts': ['x', 'y'], 'roi': ROI_SPECS['CircularROI'][0], 'pre': 'radian'}]
    if c == 'RoiSubsetState3d':
        return [{'cls': c, 'd': 0, 'x': 'x', 'y': 'y', 'z': 'z', 'roi': {'cls': 'Projected3dROI', 'roi2d': ROI_SPECS['RectangularROI'][0], 'matrix': PROJ}},
                {'cls': c, 'd': 0, 'x': 'x', 'y': 'y', 'z': 'z', 'roi': {'cls': 'Projected3dROI', 'roi2d': ROI_SPECS['PolygonalROI'][0], 'matrix': PROJ2}}]
    if c == 'CategoricalROISubsetState':
        return [{'cls': c, 'd': 0, 'att': 'c', 'categories': ['a', 'dd']}]
    if c == 'CategoricalROISubsetState2D':
        return [{'cls': c, 'd': 0, 'att1': 'c', 'att2': 'c2', 'categories': {'a': ['a', 'b'], 'b': ['dd'], 'dd': ['a', 'b', 'c', 'dd']}}]
    if c == 'CategoricalMultiRangeSubsetState':
        return [{'cls': c, 'd': 0, 'cat': 'c', 'num': 'x', 'ranges': {'a': [[0, 3]], 'b': [[2, 4], [6, 8]], 'c': [[0, 8]]}}]
    base1 = {'cls': 'RangeSubsetState', 'd': 0, 'att': 'x', 'lo': 2, 'hi': 6}
    base2 = {'cls': 'InequalitySubsetState', 'd': 0, 'left': 'y', 'right': 4, 'op': 'lt'}
    if c in ('AndState', 'OrState', 'XorState', 'CompositeSubsetState'):
        return [{'cls': c, 'a': base1, 'b': base2}]
    if c == 'InvertState':
        return [{'cls': c, 'a': base1}]
    if c == 'MultiOrState':
        return [{'cls': c, 'states': [base1, base2, {'cls': 'CategoricalROISubsetState', 'd': 0, 'att': 'c', 'categories': ['c']}]}]
    if c == 'MaskSubsetState':
        return [{'cls': c, 'd': 1, 'seed': 3}, {'cls': c, 'd': 0, 'seed': 4}]
    if c == 'FloodFillSubsetState':
        return [{'cls': c, 'd': 1, 'att': 'x', 'start': [1, 1], 'threshold': 1.5}]
    if c in ('SliceSubsetState', 'PixelSubsetState'):
        return [{'cls': c, 'd': 1, 'slices': [[0, 2, None], [1, 3, None]]}, {'cls': c, 'd': 1, 'slices': [[1, 2, None]]}]
    if c == 'CategorySubsetState':
        return [{'cls': c, 'd': 0, 'att': 'c', 'codes': [0, 2]}]
    if c == 'ElementSubsetState':
        return [{'cls': c, 'd': 0, 'indices': [0, 2, 5]}]
    if c == 'ParsedSubsetState':
        return [{'cls': c, 'd': 0, 'cmd': '{a} > 2', 'refs': {'a': 'x'}}]
    return [{'cls': c, 'qualname': qualname, 'd': 0, 'att': 'x'}]


# boundary / falsy values for every style attribute (VisualAttributes.DEFAULT_ATTS); each is used for a dataset style and a subset-group style
STYLE_VALUES = {
    'alpha': [0, 0.0, 1, 1.0, 0.5],
    'linewidth': [0, 0.0, 1, 2.5],
    'markersize': [0, 0.0, 3, 7.5],
    'marker': ['o', '', 'None', '+', 's'],
    'linestyle': ['solid', 'none', 'dashed', 'dash-dot', 'dotted'],
    'color': ['#FF0000', 'red', '0.0', '0', '0.5', [0.0, 0.0, 0.0], [0.1, 0.2, 0.3], '#000000'],
    'preferred_cmap': [None, 'viridis'],
}


def style_cases():
    """one style spec per (attribute, boundary value), the other attributes at their defaults; plus all-falsy and mixed ones"""
    out = []
    for a, vals in STYLE_VALUES.items():
        for v in vals:
            out.append(('%s=%r' % (a, v), {a: v}))
    out.append(('all-zero', {'alpha': 0, 'linewidth': 0, 'markersize': 0, 'marker': '', 'linestyle': 'none', 'color': '0'}))
    out.append(('all-zero-float', {'alpha': 0.0, 'linewidth': 0.0, 'markersize': 0.0, 'marker': 'None', 'linestyle': 'none', 'color': [0.0, 0.0, 0.0]}))
    out.append(('all-one', {'alpha': 1, 'linewidth': 1, 'markersize': 1, 'marker': 'o', 'linestyle': 'solid', 'color': '1.0'}))
    return out


def random_style(rng):
    st = {}
    for a, vals in STYLE_VALUES.items():
        if a != 'preferred_cmap' and rng.random() < 0.6:
            st[a] = rng.choice(vals)
    return st


def join_spec(order, joins):
    """order: permutation of the dataset numbers (position in the collection); joins: [(i, col_i, j, col_j)] in creation order, dataset numbers before permutation"""
    n = len(order)
    dsets = []
    for num in order:
        dsets.append({'label': 'j%d' % num, 'shape': [7], 'comps': [{'name': 'x', 'kind': 'float', 'seed': 100 + num}, {'name': 'k', 'kind': 'key', 'seed': 200 + num},
                                                                    {'name': 'm', 'kind': 'key', 'seed': 300 + num}, {'name': 'p', 'kind': 'key', 'seed': 400 + num}]})
    pos = {num: k for k, num in enumerate(order)}
    links = [{'kind': 'join_on_key', 'a': [pos[i], ci], 'b': [pos[j], cj]} for i, ci, j, cj in joins]
    subsets = [{'label': 'sel%d' % num, 'state': {'cls': 'RangeSubsetState', 'd': pos[num], 'att': 'x', 'lo': 2, 'hi': 6}} for num in range(n)]
    return {'include_data': True, 'datasets': dsets, 'links': links, 'subsets': subsets}


def join_cases():
    out = []
    tri = [(0, 'k', 1, 'k'), (0, 'm', 2, 'm'), (2, 'p', 1, 'p')]
    for order in itertools.permutations(range(3)):
        for jo in itertools.permutations(range(3)):
            joins = [tri[q] for q in jo]
            # alternate which side calls join_on_key
            joins = [(j, cj, i, ci) if (k + sum(order[:1])) % 2 else (i, ci, j, cj) for k, (i, ci, j, cj) in enumerate(joins)]
            out.append(('joins:3:%s:%s' % (''.join(map(str, order)), ''.join(map(str, jo))), join_spec(order, joins)))
    quad = [(0, 'k', 1, 'k'), (1, 'm', 2, 'm'), (2, 'p', 3, 'p'), (3, 'k', 0, 'm'), (0, 'p', 2, 'k')]
    import random as _random
    rng = _random.Random(4)
    orders = list(itertools.permutations(range(4)))
    for order in orders[::2]:
        jo = list(range(5))
        rng.shuffle(jo)
        out.append(('joins:4:%s:%s' % (''.join(map(str, order)), ''.join(map(str, jo))), join_spec(order, [quad[q] for q in jo])))
    # chain and star without a cycle, a join next to a link
    out.append(('joins:chain', join_spec((2, 0, 1), [(0, 'k', 1, 'k'), (1, 'm', 2, 'm')])))
    out.append(('joins:star', join_spec((1, 2, 0, 3), [(0, 'k', 1, 'k'), (0, 'm', 2, 'm'), (0, 'p', 3, 'p')])))
    return out


# constructor options of CategoricalComponent: explicit category lists (order, unused entries, missing entries, how they are passed), jitter, units
CAT_OPTIONS = [
    ('default', {}),
    ('sorted-explicit', {'cats': {}}),
    ('reverse', {'cats': {'order': 'reverse'}}),
    ('rotate', {'cats': {'order': 'rotate'}}),
    ('swap-tuple', {'cats': {'order': 'swap', 'form': 'tuple'}}),
    ('reverse-array', {'cats': {'order': 'reverse', 'form': 'array'}}),
    ('unused-back', {'cats': {'back': ['zz']}}),
    ('unused-front', {'cats': {'front': ['A0']}}),
    ('reverse-unused', {'cats': {'order': 'reverse', 'front': ['zz'], 'back': ['A0', 'q']}}),
    ('missing', {'cats': {'drop': 1}}),
    ('rotate-missing', {'cats': {'order': 'rotate', 'drop': 1}}),
    ('empty', {'cats': {'drop': 9}}),
    ('jitter', {'jitter': 'uniform'}),
    ('jitter-reverse', {'jitter': 'uniform', 'cats': {'order': 'reverse'}}),
    ('units', {'units': 'mag'}),
    ('units-rotate-jitter', {'units': 'mag', 'jitter': 'uniform', 'cats': {'order': 'rotate', 'back': ['zz']}}),
]


def cat_states(d, name, other, num):
    """selections over a categorical attribute: on the integer codes, on the labels, and composites of them"""
    code = lambda codes: {'cls': 'CategorySubsetState', 'd': d, 'att': name, 'codes': codes}
    return [
        {'label': 'code0', 'state': code([0])},
        {'label': 'code12', 'state': code([1, 2])},
        {'label': 'code3', 'state': code([3])},
        {'label': 'labels', 'state': {'cls': 'CategoricalROISubsetState', 'd': d, 'att': name, 'categories': ['a', 'dd']}},
        {'label': 'range', 'state': {'cls': 'CategoricalROISubsetState', 'd': d, 'att': name, 'from_range': [0.5, 2]}},
        {'label': 'multi', 'state': {'cls': 'CategoricalMultiRangeSubsetState', 'd': d, 'cat': name, 'num': num, 'ranges': {'a': [[0, 3]], 'b': [[2, 4], [6, 8]], 'c': [[0, 8]]}}},
        {'label': '2d', 'state': {'cls': 'CategoricalROISubsetState2D', 'd': d, 'att1': name, 'att2': other, 'categories': {'a': ['a', 'b'], 'b': ['dd'], 'dd': ['a', 'b', 'c', 'dd']}}},
        {'label': 'notcode', 'state': {'cls': 'InvertState', 'a': code([1])}},
        {'label': 'and', 'state': {'cls': 'AndState', 'a': code([0, 1]), 'b': {'cls': 'RangeSubsetState', 'd': d, 'att': num, 'lo': 1, 'hi': 7}}},
        {'label': 'multior', 'state': {'cls': 'MultiOrState', 'states': [code([2]), {'cls': 'CategoricalROISubsetState', 'd': d, 'att': name, 'categories': ['a']}]}},
        {'label': 'roi', 'state': {'cls': 'RoiSubsetState', 'd': d, 'x': name, 'y': num, 'roi': {'cls': 'RectangularROI', 'xmin': 0.5, 'xmax': 2.5, 'ymin': 0, 'ymax': 8}}},
        {'label': 'coderange', 'state': {'cls': 'RangeSubsetState', 'd': d, 'att': name, 'lo': 0.5, 'hi': 1.5}},
    ]


def component_option_cases():
    """per-component constructor options x include_data on / off (off: the dataset comes from a file and the component under test is
    added in memory, which is the only way a component without a load log gets into such a session)"""
    out = []
    for nm, opt in CAT_OPTIONS:
        for inc in (True, False):
            if inc:
                t = table_ds('t', 8, 11)
                t['comps'][3] = dict(t['comps'][3], **opt)
                cname = 'c'
            else:
                t = table_ds('t', 8, 11, file='csv', extra=[dict({'name': 'cm', 'kind': 'cat', 'seed': 14, 'mem': True}, **opt)])
                cname = 'cm'
            sp = {'include_data': inc, 'datasets': [t, table_ds('t2', 8, 41)], 'links': [{'kind': 'LinkSame', 'a': [0, 'x'], 'b': [1, 'x']}],
                  'subsets': cat_states(0, cname, 'c2', 'x')}
            out.append(('cat:%s:%s' % (nm, 'data' if inc else 'ref'), sp))
    # N-d categorical components
    for nm, opt in CAT_OPTIONS[:1] + CAT_OPTIONS[2:3] + CAT_OPTIONS[6:7] + CAT_OPTIONS[12:13]:
        for shape in ((2, 3), (2, 2, 2)):
            im = image_ds('im', shape, 21, extra=[dict({'name': 'c', 'kind': 'cat', 'seed': 24}, **opt)])
            sp = {'include_data': True, 'datasets': [im], 'links': [], 'subsets': [
                {'label': 'code0', 'state': {'cls': 'CategorySubsetState', 'd': 0, 'att': 'c', 'codes': [0]}},
                {'label': 'labels', 'state': {'cls': 'CategoricalROISubsetState', 'd': 0, 'att': 'c', 'categories': ['a', 'dd']}}]}
            out.append(('cat-nd:%s:%dd' % (nm, len(shape)), sp))
    # units on every stored component kind
    for inc in (True, False):
        mem = {} if inc else {'mem': True}
        extra = [dict({'name': 'fu', 'kind': 'float', 'seed': 3, 'units': 'm'}, **mem), dict({'name': 'iu', 'kind': 'int', 'seed': 4, 'units': 'km / s'}, **mem),
                 dict({'name': 'nu', 'kind': 'floatnan', 'seed': 5, 'units': ''}, **mem), {'name': 'du', 'kind': 'datetime', 'seed': 6, 'units': 'yr'},
                 dict({'name': 'cu', 'kind': 'cat', 'seed': 7, 'units': 'class'}, **mem)]
        t = table_ds('t', 6, 11, file=None if inc else 'csv', extra=extra)
        out.append(('units:%s' % ('data' if inc else 'ref'), {'include_data': inc, 'datasets': [t], 'links': [], 'subsets': [
            {'label': 's', 'state': {'cls': 'RangeSubsetState', 'd': 0, 'att': 'fu', 'lo': 2, 'hi': 6}}]}))
    # units set on a derived component (Component.units is a public attribute)
    for k, dcomp in enumerate([{'name': 'q', 'kind': 'arith', 'expr': ['mul', 'x', 2]}, {'name': 'q', 'kind': 'func', 'from': ['x'], 'fn': 'double'},
                               {'name': 'q', 'kind': 'parsed', 'cmd': '{a} + 1', 'refs': {'a': 'x'}}]):
        t = table_ds('t', 6, 11, extra=[dict(dcomp, units='km')])
        out.append(('units:derived:%s' % dcomp['kind'], {'include_data': True, 'datasets': [t], 'links': [], 'subsets': [
            {'label': 's', 'state': {'cls': 'InequalitySubsetState', 'd': 0, 'left': 'q', 'right': 5, 'op': 'gt'}}]}))
    # a RegionData without extended component: the saver must fail loudly (see legit_unwritten_reads in coq/C02/CodecModel.v)
    out.append(('regiondata:no-extended', {'include_data': True, 'datasets': [{'label': 'reg', 'shape': [4], 'region': 'no-extended', 'comps': [{'name': 'v', 'kind': 'float', 'seed': 3}]}],
                                           'links': [], 'subsets': []}))
    return out


# magnitudes: (name, offset, step). float32 keeps 24 bits: at 1.7e9 neighbouring float32 values are 128 apart, at 2.46e6 0.25 apart, at 1e12 65536
# apart; the data of a session spans 9 steps, so the points lie between an edge and its single-precision image.
MAGS = [('epoch-s', 1.7e9 + 0.3, 7.0), ('julian', 2460000.5 + 1.0 / 3, 0.001), ('id-2^24', 2.0 ** 24 + 1, 1.0), ('1e12', 1e12 + 0.5, 1000.0),
        ('neg-epoch', -1.7e9 - 0.3, 7.0), ('1e6', 0.0, 1e6 / 3), ('tiny', 0.0, 1e-12 / 3), ('tenths', 0.1, 0.1)]


def mag_cases():
    """the magnitude dimension: every region class and every state with numeric parameters, at every magnitude, with and without data;
    the table has 25 rows whose x / y values fill the span of the regions (base values k * 0.37), so rows lie close to every edge"""
    out = []
    xs = [round(k * 0.37, 2) for k in range(25)]
    ys = [round(((7 * k) % 25) * 0.37, 2) for k in range(25)]
    rois = [r for name, rs in ROI_SPECS.items() if name not in ('PointROI', 'Roi', 'VertexROIBase') for r in rs]
    poly, path, rect = ROI_SPECS['PolygonalROI'][0], ROI_SPECS['Path'][0], ROI_SPECS['RectangularROI'][0]
    roi_states = [{'cls': 'RoiSubsetState', 'd': 0, 'x': 'x', 'y': 'y', 'roi': r} for r in rois]
    roi_states.append({'cls': 'RoiSubsetStateNd', 'd': 0, 'atts': ['x', 'y'], 'roi': poly})
    roi_states.append({'cls': 'RoiSubsetState3d', 'd': 0, 'x': 'x', 'y': 'y', 'z': 'z', 'roi': {'cls': 'Projected3dROI', 'roi2d': poly, 'matrix': PROJ}})
    roi_states.append({'cls': 'RoiSubsetState3d', 'd': 0, 'x': 'x', 'y': 'y', 'z': 'z', 'roi': {'cls': 'Projected3dROI', 'roi2d': rect, 'matrix': PROJ}})
    pstate = {'cls': 'RoiSubsetState', 'd': 0, 'x': 'x', 'y': 'y', 'roi': path}
    rng = {'cls': 'RangeSubsetState', 'd': 0, 'att': 'x', 'lo': 2.5, 'hi': 6.1}
    ineq = {'cls': 'InequalitySubsetState', 'd': 0, 'left': 'y', 'right': 4.3, 'op': 'lt'}
    other = [rng, {'cls': 'MultiRangeSubsetState', 'd': 0, 'att': 'x', 'pairs': [[0.2, 1.1], [5.3, 7.7]]}, ineq,
             {'cls': 'InequalitySubsetState', 'd': 0, 'left': 'x', 'right': 3.3, 'op': 'ge'},
             {'cls': 'InequalitySubsetState', 'd': 0, 'left': 'x', 'right': 'y', 'op': 'le'},
             {'cls': 'InequalitySubsetState', 'd': 0, 'left': ['sub', 'x', 'y'], 'right': ['sub', 3.3, 2.2], 'op': 'gt'},
             {'cls': 'CategoricalMultiRangeSubsetState', 'd': 0, 'cat': 'c', 'num': 'x', 'ranges': {'a': [[0.2, 3.1]], 'b': [[2.2, 4.4], [6.1, 8.3]], 'c': [[0.1, 8.8]]}},
             {'cls': 'AndState', 'a': rng, 'b': pstate}, {'cls': 'OrState', 'a': ineq, 'b': rng}, {'cls': 'InvertState', 'a': pstate},
             {'cls': 'MultiOrState', 'states': [rng, ineq, pstate]}]
    for name, off, step in MAGS:
        for gname, states in (('roi', roi_states), ('state', other)):
            for inc in (True, False):
                t = {'label': 't', 'shape': [25], 'comps': [{'name': 'x', 'kind': 'vals', 'vals': xs}, {'name': 'y', 'kind': 'vals', 'vals': ys},
                                                            {'name': 'z', 'kind': 'int', 'seed': 13}, {'name': 'c', 'kind': 'cat', 'seed': 14}]}
                if not inc:
                    t['file'] = 'csv'
                sp = {'include_data': inc, 'mag': {'off': off, 'step': step}, 'datasets': [t], 'links': [],
                      'subsets': [{'label': 's%d' % i, 'state': copy.deepcopy(st)} for i, st in enumerate(states)]}
                out.append(('mag:%s:%s:%s' % (name, gname, 'data' if inc else 'ref'), sp))
    return out


def base_spec(include_data=True, files=False):
    t = table_ds('t', n=8, seed=11, file='csv' if files else None)
    im = image_ds('im', (3, 4), seed=21, file='fits' if files else None)
    return {'include_data': include_data, 'datasets': [t, im], 'links': [], 'subsets': []}


def catalogue(tables):
    """the exhaustive stream over classes: one small session per (class, canonical argument set), from the regenerated class table"""
    cases = []
    fam = {0: [], 1: [], 2: [], 3: [], 4: [], 5: []}
    for row in tables['classes']:
        if row['family'] in fam and row['in_pkg']:
            fam[row['family']].append(row)
    # every SubsetState class (which includes every Roi class through RoiSubsetState)
    roi_seen = set()
    for row in fam[0]:
        cname = row['name'].rsplit('.', 1)[1]
        for st in state_specs_for(cname, row['name']):
            for inc in (True, False):
                sp = base_spec(include_data=inc, files=not inc)
                sp['subsets'] = [{'label': 's', 'state': st, 'style': {'color': '#123456', 'alpha': 0.25}}]
                cases.append(('state:' + cname, sp))
            if 'roi' in st:
                roi_seen.add(st['roi']['cls'])
    for row in fam[1]:
        cname = row['name'].rsplit('.', 1)[1]
        if cname not in roi_seen and cname not in ('CategoricalROI', 'Projected3dROI'):
            sp = base_spec()
            sp['subsets'] = [{'label': 's', 'state': {'cls': 'RoiSubsetState', 'd': 0, 'x': 'x', 'y': 'y', 'roi': {'cls': cname, 'qualname': row['name']}}}]
            cases.append(('roi:' + cname, sp))
    # link helpers
    two = lambda: {'include_data': True, 'datasets': [table_ds('t1', 6, 31), table_ds('t2', 6, 41)], 'links': [], 'subsets': [
        {'label': 's', 'state': {'cls': 'RangeSubsetState', 'd': 0, 'att': 'x', 'lo': 2, 'hi': 6}}]}
    link_specs = {
        'LinkSame': [{'kind': 'LinkSame', 'a': [0, 'x'], 'b': [1, 'y']}],
        'LinkTwoWay': [{'kind': 'LinkTwoWay', 'a': [0, 'x'], 'b': [1, 'y'], 'f': 'double', 'g': 'halve'}],
        'LinkSameWithUnits': [{'kind': 'LinkSameWithUnits', 'a': [0, 'x'], 'b': [1, 'y']}],
        'MultiLink': [{'kind': 'MultiLink', 'a': [0, 'x'], 'a2': [0, 'y'], 'b': [1, 'x']}],
        'LinkAligned': [{'kind': 'LinkAligned', 'd1': 0, 'd2': 1}],
        'JoinLink': [{'kind': 'JoinLink', 'a': [0, 'z'], 'b': [1, 'z']}],
        'BaseMultiLink': [{'kind': 'BaseMultiLink', 'a': [0, 'x'], 'b': [1, 'y']}],
        'LinkCollection': [{'kind': 'LinkCollection', 'a': [0, 'x'], 'b': [1, 'y']}],
        'WCSLink': [{'kind': 'WCSLink', 'd1': 0, 'd2': 1}],
        'AffineLink': [{'kind': 'WCSLink.affine', 'd1': 0, 'd2': 1}],
        'OffsetLink': [{'kind': 'WCSLink.offset', 'd1': 0, 'd2': 1}],
    }
    wcs_two = lambda: {'include_data': True, 'datasets': [image_ds('w1', (3, 4), 33, coords='wcs'), image_ds('w2', (3, 4), 43, coords='wcs', wcs_variant=True)],
                       'links': [], 'subsets': [{'label': 's', 'state': {'cls': 'RangeSubsetState', 'd': 0, 'att': 'x', 'lo': 2, 'hi': 6}},
                                                {'label': 'p', 'state': {'cls': 'RangeSubsetState', 'd': 0, 'att': 'pix1', 'lo': 1, 'hi': 2}}]}
    for row in fam[2]:
        cname = row['name'].rsplit('.', 1)[1]
        if cname in link_specs:
            lns = link_specs[cname]
        elif cname in ('ManualLinkCollection', 'PartialResult'):
            continue
        else:
            lns = [{'kind': 'helper:' + row['name'], 'd1': 0, 'd2': 1, 'c1': ['x', 'y', 'z'], 'c2': ['x', 'y', 'z']}]
        for ln in lns:
            sp = wcs_two() if ln['kind'].startswith('WCSLink') else two()
            if cname == 'LinkSameWithUnits':
                sp['datasets'][0]['comps'][0]['units'] = 'm'
                sp['datasets'][1]['comps'][1]['units'] = 'cm'
            sp['links'] = [ln]
            cases.append(('link:' + cname, sp))
    for extra in ([{'kind': 'ComponentLink', 'a': [0, 'x'], 'b': [1, 'y'], 'f': 'double', 'g': 'halve'}],
                  [{'kind': 'ComponentLink', 'a': [0, 'x'], 'b': [1, 'y'], 'f': 'plus_one'}],
                  [{'kind': 'ComponentLink2', 'a': [0, 'x'], 'a2': [0, 'y'], 'b': [1, 'x']}],
                  [{'kind': 'LinkSame', 'a': [0, 'y'], 'b': [1, 'y']}, {'kind': 'ComponentLink2', 'a': [1, 'y'], 'a2': [0, 'x'], 'b': [1, 'x']}],
                  [{'kind': 'LinkSame', 'a': [0, 'y'], 'b': [1, 'y']}, {'kind': 'ComponentLink2', 'a': [0, 'x'], 'a2': [1, 'y'], 'b': [1, 'z']}],
                  [{'kind': 'IdentityLink', 'a': [0, 'x'], 'b': [1, 'y']}],
                  [{'kind': 'PartialResultLink', 'a': [0, 'x'], 'b': [1, 'y']}],
                  [{'kind': 'FunctionalLinkCollection', 'a': [0, 'x'], 'b': [1, 'y']}],
                  [{'kind': 'join_on_key', 'a': [0, 'z'], 'b': [1, 'z']}],
                  [{'kind': 'join_on_key', 'a': [0, 'c'], 'b': [1, 'c']}],
                  [{'kind': 'LinkSame', 'a': [0, 'x'], 'b': [1, 'y']}, {'kind': 'join_on_key', 'a': [0, 'z'], 'b': [1, 'z']}]):
        sp = two()
        sp['links'] = extra
        cases.append(('link:' + extra[-1]['kind'], sp))
    # components / derived attributes, alone and seen through a link from another dataset
    derived = [
        {'name': 'q', 'kind': 'arith', 'expr': ['mul', 'x', 2]},
        {'name': 'q', 'kind': 'arith', 'expr': ['add', ['mul', 'x', 2], 'y']},
        {'name': 'q', 'kind': 'func', 'from': ['x'], 'fn': 'double'},
        {'name': 'q', 'kind': 'func', 'from': ['x', 'y'], 'fn': 'add2'},
        {'name': 'q', 'kind': 'parsed', 'cmd': '{a} * 3 + {b}', 'refs': {'a': 'x', 'b': 'y'}},
        {'name': 'q', 'kind': 'datetime', 'seed': 7},
        {'name': 'q', 'kind': 'floatnan', 'seed': 8},
    ]
    try:
        import dask  # noqa
        derived.append({'name': 'q', 'kind': 'dask', 'seed': 9})
    except ImportError:
        pass
    for comp in derived:
        for linked in (False, True):
            sp = two()
            sp['datasets'][0]['comps'].append(comp)
            if linked:
                sp['links'] = [{'kind': 'LinkSame', 'a': [0, 'x'], 'b': [1, 'x']}, {'kind': 'LinkSame', 'a': [0, 'y'], 'b': [1, 'y']}]
            sp['subsets'] = [{'label': 's', 'state': {'cls': 'InequalitySubsetState', 'd': 0, 'left': 'q', 'right': 5, 'op': 'gt'}}] if comp['kind'] not in ('datetime',) else []
            cases.append(('comp:' + comp['kind'] + (':linked' if linked else ''), sp))
    # coordinates, shapes up to 3-d, styles, metadata
    for coords in (None, 'identity', 'affine', 'legacy'):
        for shape in ((5,), (3, 4), (2, 3, 2)):
            if coords == 'legacy' and len(shape) != 2:
                continue
            sp = {'include_data': True, 'datasets': [image_ds('im', shape, 51, coords=coords, affine_units=True, affine_labels=len(shape) == 2, affine_shear=len(shape) == 3,
                                                              style={'color': '#ff0000', 'markersize': 7, 'alpha': 0.5},
                                                              meta={'origin': 'harness', 'n': 3, 'nested': [1, 2, 'three']}, meta_unserialisable=True)],
                  'links': [], 'subsets': [{'label': 's', 'state': {'cls': 'RangeSubsetState', 'd': 0, 'att': 'x', 'lo': 2, 'hi': 6}},
                                           {'label': 'w', 'state': {'cls': 'RangeSubsetState', 'd': 0, 'att': 'world0' if coords else 'pix0', 'lo': 0, 'hi': 12}}]}
            cases.append(('coords:%s:%dd' % (coords, len(shape)), sp))
    # every Roi class with boundary / degenerate parameters, alone and inside composite states
    inner = {'cls': 'RangeSubsetState', 'd': 0, 'att': 'x', 'lo': 0, 'hi': 8}
    for cname, rss in ROI_BOUNDARY.items():
        for k, rs in enumerate(rss):
            st = {'cls': 'RoiSubsetState', 'd': 0, 'x': 'x', 'y': 'y', 'roi': rs}
            sp = base_spec()
            sp['subsets'] = [{'label': 'alone', 'state': st}, {'label': 'and', 'state': {'cls': 'AndState', 'a': inner, 'b': st}},
                             {'label': 'not', 'state': {'cls': 'InvertState', 'a': st}},
                             {'label': 'multi', 'state': {'cls': 'MultiOrState', 'states': [st, {'cls': 'RangeSubsetState', 'd': 0, 'att': 'y', 'lo': 7, 'hi': 8}]}},
                             {'label': 'nd', 'state': {'cls': 'RoiSubsetStateNd', 'd': 0, 'atts': ['x', 'y'], 'roi': rs}}]
            cases.append(('roi-boundary:%s:%d' % (cname, k), sp))
    cases.append(('roi-boundary:CategoricalROI', dict(base_spec(), subsets=[
        {'label': 'none', 'state': {'cls': 'CategoricalROISubsetState', 'd': 0, 'att': 'c', 'categories': []}},
        {'label': 'unknown', 'state': {'cls': 'CategoricalROISubsetState', 'd': 0, 'att': 'c', 'categories': ['zz']}},
        {'label': 'all', 'state': {'cls': 'CategoricalROISubsetState', 'd': 0, 'att': 'c', 'categories': ['a', 'b', 'c', 'dd']}}])))
    cases.append(('roi-boundary:Projected3dROI', dict(base_spec(), subsets=[
        {'label': 'p', 'state': {'cls': 'RoiSubsetState3d', 'd': 0, 'x': 'x', 'y': 'y', 'z': 'z',
                                 'roi': {'cls': 'Projected3dROI', 'roi2d': ROI_BOUNDARY['RectangularROI'][0], 'matrix': PROJ}}}])))
    # component order: derived components before stored ones, reordered datasets (the label sequence is compared as a sequence)
    der = [{'name': 'twice', 'kind': 'arith', 'expr': ['mul', 'x', 2]}, {'name': 'fx', 'kind': 'func', 'from': ['x'], 'fn': 'double'},
           {'name': 'px', 'kind': 'parsed', 'cmd': '{a} + 1', 'refs': {'a': 'x'}}]
    for k, dcomp in enumerate(der):
        for reorder in (None, 'reverse', 'rotate', 'coords_last', 'all_reversed'):
            for shape in ((6,), (2, 3)):
                comps = [{'name': 'x', 'kind': 'float', 'seed': 3}, dict(dcomp), {'name': 'y', 'kind': 'float', 'seed': 4},
                         dict(der[(k + 1) % 3]), {'name': 'c', 'kind': 'cat', 'seed': 5}, {'name': 'z', 'kind': 'int', 'seed': 6}]
                ds = {'label': 'ord', 'shape': list(shape), 'comps': comps, 'reorder': reorder, 'coords': 'identity' if len(shape) == 2 else None}
                sp = {'include_data': True, 'datasets': [ds, table_ds('t2', 6, 71)], 'links': [], 'subsets': [
                    {'label': 's', 'state': {'cls': 'InequalitySubsetState', 'd': 0, 'left': dcomp['name'], 'right': 5, 'op': 'gt'}}]}
                if len(shape) == 1:
                    sp['links'] = [{'kind': 'LinkSame', 'a': [0, 'x'], 'b': [1, 'x']}]
                cases.append(('order:%s:%s:%dd' % (dcomp['kind'], reorder, len(shape)), sp))
    # a derived component as the very first component of the dataset (allowed by reorder_components)
    for dcomp in der:
        ds = {'label': 'ord', 'shape': [6], 'comps': [{'name': 'x', 'kind': 'float', 'seed': 3}, {'name': 'y', 'kind': 'float', 'seed': 4}, dict(dcomp)], 'reorder': 'all_reversed'}
        cases.append(('order:derived-first:%s' % dcomp['kind'], {'include_data': True, 'datasets': [ds], 'links': [], 'subsets': [
            {'label': 's', 'state': {'cls': 'InequalitySubsetState', 'd': 0, 'left': dcomp['name'], 'right': 5, 'op': 'gt'}}]}))
    # functions by reference: plain module-level functions, names re-defined after use, closures shadowing a module-level name
    for mode in ('plain', 'rebound', 'closure'):
        for use in ('derived', 'link', 'twoway', 'pretransform'):
            sp = two()
            sp['fnmode'] = mode
            if use == 'derived':
                sp['datasets'][0]['comps'].append({'name': 'q', 'kind': 'func', 'from': ['x'], 'fn': 'm:scale'})
                sp['links'] = [{'kind': 'LinkSame', 'a': [0, 'x'], 'b': [1, 'x']}]
                sp['subsets'] = [{'label': 's', 'state': {'cls': 'InequalitySubsetState', 'd': 0, 'left': 'q', 'right': 3500, 'op': 'gt'}}]
            elif use == 'link':
                sp['links'] = [{'kind': 'ComponentLink', 'a': [0, 'x'], 'b': [1, 'y'], 'f': 'm:scale', 'g': 'm:unscale'}]
                sp['subsets'] = [{'label': 's', 'state': {'cls': 'InequalitySubsetState', 'd': 1, 'left': 'y', 'right': 3500, 'op': 'gt'}}]
            elif use == 'twoway':
                sp['links'] = [{'kind': 'LinkTwoWay', 'a': [0, 'x'], 'b': [1, 'y'], 'f': 'm:scale', 'g': 'm:unscale'}]
                sp['subsets'] = [{'label': 's', 'state': {'cls': 'InequalitySubsetState', 'd': 0, 'left': 'x', 'right': 3, 'op': 'gt'}}]
            else:
                sp['subsets'] = [{'label': 's', 'state': {'cls': 'RoiSubsetState', 'd': 0, 'x': 'x', 'y': 'y', 'roi': ROI_SPECS['RectangularROI'][0], 'pre': 'm:pre'}}]
            cases.append(('fn:%s:%s' % (mode, use), sp))
    # key joins over 3 and 4 datasets, cycles included: every order of the collection x every order of making the joins (3 datasets),
    # a sample of them for 4; selections on every dataset, so that datasets with two joins are reached through both
    cases.extend(join_cases())
    # constructor options of the stored components (explicit category lists, jitter, units, N-d categoricals) with selections over the integer codes
    cases.extend(component_option_cases())
    # the magnitude dimension: regions, ranges and constants at 1e6 ... 1e12, tiny and non-dyadic values, compared bit for bit
    cases.extend(mag_cases())
    # styles: every attribute at its boundary / falsy values, on a dataset and on a subset group at once, with and without data
    for k, (nm, st) in enumerate(style_cases()):
        inc = k % 3 != 0
        t = table_ds('t', 6, 15, style=dict(st), file=None if inc else 'csv')
        sp = {'include_data': inc, 'datasets': [t, image_ds('im', (2, 3), 25, style=dict(st))], 'links': [], 'subsets': [
            {'label': 's', 'state': {'cls': 'RangeSubsetState', 'd': 0, 'att': 'x', 'lo': 2, 'hi': 6}, 'style': dict(st)},
            {'label': 'plain', 'state': {'cls': 'RangeSubsetState', 'd': 1, 'att': 'x', 'lo': 1, 'hi': 5}}]}
        cases.append(('style:' + nm, sp))
    for f in ('csv', 'npy', 'fits'):
        for inc in (False, True):
            ds = table_ds('tf', 6, 61, file=f) if f != 'fits' else image_ds('tf', (3, 4), 61, file=f)
            if f == 'npy':
                ds['comps'] = [c for c in ds['comps'] if c['kind'] != 'cat']
            ds['comps'].append({'name': 'q', 'kind': 'arith', 'expr': ['mul', 'x', 2]})
            sp = {'include_data': inc, 'datasets': [ds, table_ds('t2', 6, 71)], 'links': [], 'subsets': [
                {'label': 's', 'state': {'cls': 'RangeSubsetState', 'd': 0, 'att': 'x', 'lo': 2, 'hi': 6}}]}
            if f != 'fits':
                sp['links'] = [{'kind': 'LinkSame', 'a': [0, 'x'], 'b': [1, 'x']}]
            cases.append(('file:%s:%s' % (f, 'data' if inc else 'ref'), sp))
    sp = {'include_data': True, 'datasets': [{'label': 'reg', 'shape': [4], 'region': True, 'comps': [{'name': 'v', 'kind': 'float', 'seed': 3}]}, table_ds('t2', 4, 81)],
          'links': [], 'subsets': [{'label': 's', 'state': {'cls': 'RangeSubsetState', 'd': 0, 'att': 'v', 'lo': 2, 'hi': 6}}]}
    cases.append(('regiondata', sp))
    # equal labels: names must be disambiguated, not merged
    sp = {'include_data': True, 'datasets': [table_ds('same', 5, 91), table_ds('same', 5, 92), table_ds('same_0', 5, 93)], 'links': [
        {'kind': 'LinkSame', 'a': [0, 'x'], 'b': [1, 'x']}], 'subsets': [
        {'label': 'same', 'state': {'cls': 'RangeSubsetState', 'd': 0, 'att': 'x', 'lo': 2, 'hi': 6}},
        {'label': 'same', 'state': {'cls': 'RangeSubsetState', 'd': 1, 'att': 'y', 'lo': 1, 'hi': 3}}]}
    cases.append(('names:equal-labels', sp))
    return cases


def random_cat_option(rng):
    opt = {}
    if rng.random() < 0.75:
        cats = {}
        if rng.random() < 0.7:
            cats['order'] = rng.choice(['reverse', 'rotate', 'swap'])
        if rng.random() < 0.3:
            cats[rng.choice(['front', 'back'])] = rng.sample(['zz', 'A0', 'q'], rng.randrange(1, 3))
        if rng.random() < 0.1:
            cats['drop'] = 1
        if rng.random() < 0.3:
            cats['form'] = rng.choice(['tuple', 'array'])
        opt['cats'] = cats
    if rng.random() < 0.2:
        opt['jitter'] = 'uniform'
    if rng.random() < 0.2:
        opt['units'] = 'mag'
    return opt


def random_spec(rng, tables):
    """a larger random session: 1-3 datasets, random component kinds, coordinates, links, joins and 1-4 subset groups (composites to depth 2)"""
    nds = rng.choice([1, 2, 2, 3])
    dsets = []
    inc = rng.random() < 0.6
    for i in range(nds):
        kind = rng.choice(['table', 'table', 'image2', 'image3'])
        seed = rng.randrange(1, 10 ** 6)
        if kind == 'table':
            ds = table_ds('d%d' % i, rng.choice([4, 6, 9]), seed)
            if not inc and rng.random() < 0.7:
                ds['file'] = rng.choice(['csv', 'npy'])
                if ds['file'] == 'npy':
                    ds['comps'] = [c for c in ds['comps'] if c['kind'] != 'cat']
                if rng.random() < 0.5:          # a component without a load log next to the ones that come from the file
                    ds['comps'].append(dict({'name': 'cm', 'kind': 'cat', 'seed': seed + 7, 'mem': True}, **random_cat_option(rng)))
            else:
                if rng.random() < 0.3:
                    ds['comps'].append({'name': 'when', 'kind': 'datetime', 'seed': seed + 9, 'units': rng.choice([None, 'yr'])})
                if rng.random() < 0.6:
                    ds['comps'][3] = dict(ds['comps'][3], **random_cat_option(rng))
                if rng.random() < 0.3:
                    ds['comps'][0] = dict(ds['comps'][0], units=rng.choice(['m', '', 'km / s']))
        else:
            shape = (rng.choice([2, 3]), rng.choice([3, 4])) if kind == 'image2' else (2, rng.choice([2, 3]), 2)
            ds = image_ds('d%d' % i, shape, seed)
            ds['comps'].append({'name': 'z', 'kind': 'int', 'seed': seed + 2})
            if not inc and rng.random() < 0.5:
                ds['file'] = 'fits'
            else:
                ds['coords'] = rng.choice([None, 'identity', 'affine'])
                ds['affine_units'] = rng.random() < 0.5
                ds['affine_labels'] = rng.random() < 0.5
        if rng.random() < 0.3 and not ds.get('file'):
            ds['reorder'] = rng.choice(['reverse', 'rotate', 'coords_last', 'all_reversed'])
        if rng.random() < 0.6:
            ds['comps'].insert(rng.choice([len(ds['comps']), 2, min(3, len(ds['comps']))]) if not ds.get('file') else len(ds['comps']), rng.choice([
                {'name': 'q', 'kind': 'arith', 'expr': ['mul', 'x', 2]},
                {'name': 'q', 'kind': 'arith', 'expr': ['sub', 'x', ['add', 'y', 1]]},
                {'name': 'q', 'kind': 'func', 'from': ['x'], 'fn': 'plus_one'},
                {'name': 'q', 'kind': 'parsed', 'cmd': '{a} - {b}', 'refs': {'a': 'x', 'b': 'y'}}]))
        if rng.random() < 0.6:
            ds['style'] = random_style(rng)
        if rng.random() < 0.5:
            ds['meta'] = {'k%d' % j: rng.choice([1, 'two', [3, 4], 2.5]) for j in range(rng.randrange(1, 3))}
        dsets.append(ds)
    links = []
    comp_of = list(range(nds))      # links must form a forest over the datasets: two different routes to one attribute would make its value ambiguous
    if nds > 1:
        for _ in range(rng.randrange(0, 3)):
            i, j = rng.sample(range(nds), 2)
            if comp_of[i] == comp_of[j]:
                continue
            old_c, new_c = comp_of[j], comp_of[i]
            comp_of = [new_c if c == old_c else c for c in comp_of]
            same_shape = dsets[i]['shape'] == dsets[j]['shape']
            k = rng.choice(['LinkSame', 'LinkSame', 'LinkTwoWay', 'ComponentLink', 'join_on_key', 'LinkAligned' if same_shape else 'LinkSame', 'IdentityLink'])
            if k == 'LinkAligned':
                links.append({'kind': k, 'd1': i, 'd2': j})
            elif k == 'join_on_key':
                if len(dsets[i]['shape']) == 1 and len(dsets[j]['shape']) == 1 and not any(l['kind'] == 'join_on_key' for l in links):
                    links.append({'kind': k, 'a': [i, 'z'], 'b': [j, 'z']})
            else:
                ln = {'kind': k, 'a': [i, rng.choice(['x', 'y'])], 'b': [j, rng.choice(['x', 'y'])]}
                if k in ('LinkTwoWay', 'ComponentLink'):
                    ln['f'], ln['g'] = rng.choice([('double', 'halve'), ('plus_one', 'minus_one')])
                links.append(ln)
    # subsets
    def leaf(d):
        ds = dsets[d]
        is_table = len(ds['shape']) == 1
        names = [c['name'] for c in ds['comps']]
        opts = ['RangeSubsetState', 'InequalitySubsetState', 'RoiSubsetState', 'MultiRangeSubsetState', 'RoiSubsetStateNd', 'ParsedSubsetState', 'ElementSubsetState']
        catname = 'cm' if 'cm' in names else 'c'
        if catname in names:
            opts += ['CategoricalROISubsetState', 'CategorySubsetState', 'CategorySubsetState', 'CategoricalMultiRangeSubsetState', 'CategoricalROISubsetState:range']
            if 'c2' in names:
                opts += ['CategoricalROISubsetState2D']
        if not is_table:
            opts += ['MaskSubsetState', 'SliceSubsetState', 'PixelSubsetState', 'RoiSubsetState']
        if 'q' in names:
            opts += ['InequalitySubsetState:q']
        c = rng.choice(opts)
        if c == 'RangeSubsetState':
            lo = rng.randrange(0, 5)
            return {'cls': c, 'd': d, 'att': rng.choice(['x', 'y']), 'lo': lo, 'hi': lo + rng.randrange(1, 5)}
        if c == 'MultiRangeSubsetState':
            return {'cls': c, 'd': d, 'att': 'x', 'pairs': [[0, rng.randrange(1, 3)], [5, 5 + rng.randrange(0, 3)]]}
        if c == 'InequalitySubsetState':
            return {'cls': c, 'd': d, 'left': rng.choice(['x', ['mul', 'x', 2]]), 'right': rng.choice([3, 'y', ['add', 'y', 1]]), 'op': rng.choice(sorted(OPS))}
        if c == 'InequalitySubsetState:q':
            return {'cls': 'InequalitySubsetState', 'd': d, 'left': 'q', 'right': rng.randrange(0, 9), 'op': rng.choice(['gt', 'le'])}
        if c == 'RoiSubsetState':
            rname = rng.choice([k for k in ROI_SPECS if k not in ('PointROI', 'Roi', 'VertexROIBase')])
            x, y = ('x', 'y') if is_table or rng.random() < 0.5 else ('pix1', 'pix0')
            pool = ROI_BOUNDARY[rname] if (rng.random() < 0.3 and ROI_BOUNDARY.get(rname)) else ROI_SPECS[rname]
            st = {'cls': c, 'd': d, 'x': x, 'y': y, 'roi': rng.choice(pool)}
            if rng.random() < 0.15:
                st['pre'] = rng.choice(['radian', 'fullsphere'])
            return st
        if c == 'RoiSubsetStateNd':
            return {'cls': c, 'd': d, 'atts': ['x', 'y'], 'roi': rng.choice(ROI_SPECS[rng.choice(['RectangularROI', 'CircularROI', 'PolygonalROI'])])}
        if c == 'ParsedSubsetState':
            return {'cls': c, 'd': d, 'cmd': '{a} > %d' % rng.randrange(1, 7), 'refs': {'a': rng.choice(['x', 'y'])}}
        if c == 'ElementSubsetState':
            n = int(np.prod(ds['shape']))
            return {'cls': c, 'd': d, 'indices': sorted(rng.sample(range(n), min(3, n)))} if is_table else {'cls': 'RangeSubsetState', 'd': d, 'att': 'x', 'lo': 1, 'hi': 4}
        if c == 'CategoricalROISubsetState':
            return {'cls': c, 'd': d, 'att': catname, 'categories': rng.sample(['a', 'b', 'c', 'dd'], 2)}
        if c == 'CategoricalROISubsetState:range':
            lo = rng.choice([0, 0.5, 1])
            return {'cls': 'CategoricalROISubsetState', 'd': d, 'att': catname, 'from_range': [lo, lo + rng.choice([1, 1.5, 2])]}
        if c == 'CategorySubsetState':
            return {'cls': c, 'd': d, 'att': catname, 'codes': rng.sample([0, 1, 2, 3, 4], rng.randrange(1, 3))}
        if c == 'CategoricalMultiRangeSubsetState':
            return {'cls': c, 'd': d, 'cat': catname, 'num': 'x', 'ranges': {'a': [[0, 4]], 'b': [[3, 8]]}}
        if c == 'CategoricalROISubsetState2D':
            return {'cls': c, 'd': d, 'att1': catname, 'att2': 'c2', 'categories': {'a': ['a', 'b'], 'b': ['dd'], rng.choice(['c', 'dd']): ['a', 'c', 'dd']}}
        if c == 'MaskSubsetState':
            return {'cls': c, 'd': d, 'seed': rng.randrange(100)}
        return {'cls': c, 'd': d, 'slices': [[0, rng.choice([1, 2]), None]]}

    def state(depth, d):
        r = rng.random()
        if depth == 0 or r < 0.5:
            return leaf(d)
        if r < 0.8:
            return {'cls': rng.choice(['AndState', 'OrState', 'XorState']), 'a': state(depth - 1, d), 'b': state(depth - 1, d)}
        if r < 0.9:
            return {'cls': 'InvertState', 'a': state(depth - 1, d)}
        return {'cls': 'MultiOrState', 'states': [state(depth - 1, d) for _ in range(rng.randrange(1, 4))]}
    subsets = []
    for k in range(rng.randrange(1, 5)):
        sb = {'label': rng.choice(['s%d' % k, 'sel', 'd0']), 'state': state(2, rng.randrange(nds))}
        if rng.random() < 0.6:
            sb['style'] = random_style(rng)
        subsets.append(sb)
    return {'include_data': inc, 'datasets': dsets, 'links': links, 'subsets': subsets}


# ------------------------------------------------------------------ shrinking
def shrink(spec, still_fails, budget=60):
    """greedy: drop subsets, links, derived components, datasets while the failure persists"""
    cur = spec
    changed = True
    while changed and budget > 0:
        changed = False
        cands = []
        for i in range(len(cur['subsets'])):
            s = copy.deepcopy(cur)
            del s['subsets'][i]
            cands.append(s)
        if cur.get('mag') is not None and len(cur['subsets']) <= 1:
            s = copy.deepcopy(cur)
            del s['mag']
            cands.append(s)
        for i, sb in enumerate(cur['subsets']):
            st = sb['state']
            for key in ('a', 'b'):
                if key in st:
                    s = copy.deepcopy(cur)
                    s['subsets'][i]['state'] = st[key]
                    cands.append(s)
            for sub in st.get('states', []):
                s = copy.deepcopy(cur)
                s['subsets'][i]['state'] = sub
                cands.append(s)
        for i in range(len(cur['links'])):
            s = copy.deepcopy(cur)
            del s['links'][i]
            cands.append(s)
        for holder in ('subsets', 'datasets'):
            for i, it in enumerate(cur[holder]):
                for key in sorted((it.get('style') or {})):
                    if len(it['style']) > 1:
                        s = copy.deepcopy(cur)
                        del s[holder][i]['style'][key]
                        cands.append(s)
        for di, ds in enumerate(cur['datasets']):
            for ci, c in enumerate(ds['comps']):
                if c['kind'] in ('arith', 'func', 'parsed', 'datetime', 'dask') or c['name'] not in ('x', 'y', 'z', 'c'):
                    s = copy.deepcopy(cur)
                    del s['datasets'][di]['comps'][ci]
                    cands.append(s)
            for ci, c in enumerate(ds['comps']):
                for key in ('cats', 'jitter', 'units'):
                    if c.get(key) is not None:
                        s = copy.deepcopy(cur)
                        s['datasets'][di]['comps'][ci].pop(key)
                        cands.append(s)
                for key in sorted(c.get('cats') or {}):
                    s = copy.deepcopy(cur)
                    s['datasets'][di]['comps'][ci]['cats'].pop(key)
                    cands.append(s)
            for key in ('style', 'meta', 'coords', 'meta_unserialisable'):
                if ds.get(key):
                    s = copy.deepcopy(cur)
                    s['datasets'][di].pop(key)
                    cands.append(s)
        if len(cur['datasets']) > 1:
            used = set()
            for ln in cur['links']:
                for key in ('a', 'b', 'a2'):
                    if key in ln:
                        used.add(ln[key][0])
                for key in ('d1', 'd2'):
                    if key in ln:
                        used.add(ln[key])

            def refs(st):
                if 'd' in st:
                    used.add(st['d'])
                for key in ('a', 'b'):
                    if key in st:
                        refs(st[key])
                for sub in st.get('states', []):
                    refs(sub)
            for sb in cur['subsets']:
                refs(sb['state'])
            n = len(cur['datasets'])
            if n - 1 not in used:
                s = copy.deepcopy(cur)
                del s['datasets'][n - 1]
                cands.append(s)
        for s in cands:
            budget -= 1
            if budget <= 0:
                break
            try:
                if still_fails(s):
                    cur = s
                    changed = True
                    break
            except Exception:
                continue
    return cur


# ====================================================================================== model correspondence streams
class Labelled(object):
    def __init__(self, label):
        self.label = label


class Nolabel(object):
    pass


def chars(s):
    return (0, [ord(c) for c in s])


def stream_naming(R):
    """all sequences of GlueSerializer.id() calls over a small alphabet of labels (including labels that look like disambiguated names)"""
    from glue.core.state import GlueSerializer
    L = R.pick(5, 6)
    alphabet = [('new', 'a'), ('new', 'a_0'), ('new', 'a_1'), ('new', 'b'), ('new', None), ('old', 0), ('old', 1), ('old', 2)]
    seqs = []
    for n in range(1, L + 1):
        seqs.extend(itertools.product(alphabet, repeat=n))
    seqs = [s for s in seqs if s[0][0] == 'new']        # the first registration is the main object
    extra = [(('new', '__main__'), ('new', '__main__'), ('new', '__main___0'), ('new', '__main__')),
             (('new', 'x'),) + (('new', 'x'),) * 12,
             (('new', 'x'), ('new', 'x_0'), ('new', 'x_1'), ('new', 'x'), ('new', 'x'), ('new', 'x_2'), ('new', 'x'))]
    seqs += extra
    lines, impl = [], []
    nfail = 0
    for s in seqs:
        objs = []
        names_seen = {}
        ops = []
        gs = None
        bad = None
        for k, (kind, v) in enumerate(s):
            if kind == 'new':
                o = Labelled(v) if v is not None else Nolabel()
                objs.append(o)
            else:
                if v >= len(objs):
                    o = None
                else:
                    o = objs[v]
            if o is None:
                continue
            oid = objs.index(o)
            base = o.label if isinstance(o, Labelled) else type(o).__name__
            try:
                if gs is None:
                    gs = GlueSerializer(o)
                    nm = gs.id(o)
                    ops.append((oid, [1, chars(base)]))
                else:
                    ops.append((oid, [0, chars(base)]))
                    nm = gs.id(o)
            except AssertionError:
                continue        # a loud failure; the model leaves the registry unchanged as well
            if oid in names_seen and names_seen[oid] != nm and bad is None:
                bad = 'object %d renamed from %r to %r' % (oid, names_seen[oid], nm)
            names_seen[oid] = nm
            if len(set(names_seen.values())) != len(names_seen) and bad is None:
                bad = 'two objects share the name %r' % nm
            if gs.object(nm) is not o and bad is None:
                bad = 'name %r does not map back to its object' % nm
        reg = [(objs.index(o), n) for n, o in gs._objs.items()]
        impl.append(reg)
        lines.append(enc((1, ops)))
        R.count(('naming', tuple(s)), nontrivial=len(set(n for _, n in reg)) > 1, stream='naming', naming_len=len(s))
        if bad and nfail < 10:
            nfail += 1
            R.fail('oracle', {'stream': 'naming', 'ops': [list(x) for x in s]}, {'why': bad})
    outs = R.model(lines)
    for s, reg, o in zip(seqs, impl, outs):
        model = [(tag(e), ''.join(chr(c) for c in to_zs(kids(e)[0]))) for e in kids(o)]
        if model != reg and nfail < 20:
            nfail += 1
            R.fail('correspondence', {'stream': 'naming', 'ops': [list(x) for x in s]}, {'model': model, 'impl': reg})
    R.sample({'stream': 'naming', 'ops': [['new', 'a'], ['new', 'a'], ['new', 'a_0'], ['old', 1]]})
    R.stream('naming', cases=len(seqs), exhaustive=True,
             bound='all sequences of 1..%d id() calls over new objects labelled a, a_0, a_1, b or unlabelled and re-registrations of the first three objects; 3 directed long ones' % L)


class GNode(object):
    """test node for the graph codec: eager loader (references are loaded before the object exists)"""
    lazy = False

    def __init__(self, cls_code=0, fields=None):
        self.label = 'n'
        self.cls_code = cls_code
        self.fields = fields if fields is not None else []

    def __gluestate__(self, context):
        def w(f):
            if isinstance(f, list):
                return [w(x) for x in f]
            if isinstance(f, GNode):
                return context.id(f)
            return f
        return dict(cls_code=self.cls_code, fields=[w(f) for f in self.fields])

    @classmethod
    def __setgluestate__(cls, rec, context):
        def r(f):
            if isinstance(f, list):
                return [r(x) for x in f]
            if isinstance(f, str):
                return context.object(f)
            return f
        return cls(rec['cls_code'], [r(f) for f in rec['fields']])


class LNode(GNode):
    """two-phase (generator) loader: the object is registered before its references are loaded"""
    lazy = True

    @classmethod
    def __setgluestate__(cls, rec, context):
        def r(f):
            if isinstance(f, list):
                return [r(x) for x in f]
            if isinstance(f, str):
                return context.object(f)
            return f
        self = cls(rec['cls_code'], [])
        yield self
        self.fields = [r(f) for f in rec['fields']]


def graph_cases(R):
    """graphs as lists of (class code, fields); field = int literal | ('r', j) | ['l', field...]"""
    def node_opts(n):
        opts = [[], [7]]
        opts += [[('r', j)] for j in range(n)]
        opts += [[('r', j), ('r', k)] for j in range(n) for k in range(n)]
        opts += [[['l', ('r', j), 3, ('r', k)]] for j in range(n) for k in range(n)]
        return [(c, f) for c in (1, 100) for f in opts]
    cases = []
    for n in (1, 2):
        for g in itertools.product(node_opts(n), repeat=n):
            cases.append(list(g))
    three = list(itertools.product(node_opts(3), repeat=3))
    if R.quick():
        three = R.subrng('graph3').sample(three, 3000)
    cases += [list(g) for g in three]
    rng = R.subrng('graphN')
    for _ in range(R.pick(500, 5000)):
        n = rng.randrange(4, 8)
        g = []
        for i in range(n):
            fs = []
            for _ in range(rng.randrange(0, 4)):
                r = rng.random()
                if r < 0.25:
                    fs.append(rng.randrange(0, 9))
                elif r < 0.8:
                    fs.append(('r', rng.randrange(n)))
                else:
                    fs.append(['l'] + [('r', rng.randrange(n)) if rng.random() < 0.7 else rng.randrange(5) for _ in range(rng.randrange(0, 3))])
            g.append((rng.choice([1, 2, 100, 100, 101]), fs))
        cases.append(g)
    return cases


def build_graph(g):
    nodes = [(LNode if c >= 100 else GNode)(c) for c, _ in g]

    def mk(f):
        if isinstance(f, tuple):
            return nodes[f[1]]
        if isinstance(f, list):
            return [mk(x) for x in f[1:]]
        return f
    for nd, (c, fs) in zip(nodes, g):
        nd.fields = [mk(f) for f in fs]
    return nodes


def enc_gfield(f):
    if isinstance(f, tuple):
        return (1, [f[1]])
    if isinstance(f, list):
        return (2, [enc_gfield(x) for x in f[1:]])
    return (0, [f])


def parse_mfield(t):
    if tag(t) == 0:
        return kids(t)[0][0]
    if tag(t) == 1:
        return ('r', kids(t)[0][0])
    return ['l'] + [parse_mfield(x) for x in kids(t)]


def stream_graph(R):
    from glue.core.state import GlueSerializer, GlueUnSerializer, GlueSerializeError
    cases = graph_cases(R)
    lines = [enc((2, [0] + [(i, [c] + [enc_gfield(f) for f in fs]) for i, (c, fs) in enumerate(g)])) for g in cases]
    outs = R.model(lines)
    op_lines, op_idx = [], []
    impl_load = {}
    nfail = 0
    for ci, (g, o) in enumerate(zip(cases, outs)):
        if nfail >= 10:
            break       # enough failing inputs; a non-terminating load would otherwise cost 10 s per remaining case
        nodes = build_graph(g)
        gs = GlueSerializer(nodes[0])
        text = gs.dumps()
        rec = json.loads(text)
        order = [nodes.index(ob) for ob in gs._objs.values()]          # registration order, as node numbers
        name_idx = {nm: k for k, nm in enumerate(gs._objs.keys())}
        lost = [nm for nm in gs._objs if nm not in rec]
        if lost:
            if nfail < 10:
                nfail += 1
                R.fail('oracle', {'stream': 'graph', 'graph': g}, {'why': 'objects were named but no record was written for them: %s' % lost})
            continue

        def conv(f):
            if isinstance(f, list):
                return ['l'] + [conv(x) for x in f]
            if isinstance(f, str):
                return ('r', name_idx[f])
            return f
        recs = [(rec[nm]['cls_code'], [conv(f) for f in rec[nm]['fields']]) for nm in gs._objs.keys()]
        m_order = to_zs(kids(o)[0])
        m_recs = [(kids(t)[0][0], [parse_mfield(x) for x in kids(t)[1:]]) for t in kids(kids(o)[1])]
        reach = len(order)
        cyc = any(True for _ in [0]) and reach > 0
        R.count(('graph', json.dumps(g)), nontrivial=reach > 1, stream='graph', graph_nodes=len(g), graph_reachable=reach)
        if (order, recs) != (m_order, m_recs) and nfail < 10:
            nfail += 1
            R.fail('correspondence', {'stream': 'graph', 'graph': g}, {'impl': [order, recs], 'model': [m_order, m_recs]})
        # operational load on the real records; the model gets the records in index form
        try:
            with time_limit(10):
                back = GlueUnSerializer.loads(text).object('__main__')
            ok = True
        except GlueSerializeError as e:
            ok = False
            back = None
            if 'ircular' not in str(e) and nfail < 10:
                nfail += 1
                R.fail('oracle', {'stream': 'graph', 'graph': g}, {'why': 'a saved object graph fails at load time: %s' % e})
        except Exception as e:
            ok = False
            back = None
            if nfail < 10:
                nfail += 1
                R.fail('oracle', {'stream': 'graph', 'graph': g}, {'why': 'a saved object graph fails at load time: %s: %s' % (type(e).__name__, str(e)[:200])})
        impl_load[ci] = ok
        op_lines.append(enc((3, [(i, [c] + [enc_gfield(f) for f in fs]) for i, (c, fs) in enumerate(recs)])))
        op_idx.append(ci)
        if ok:
            # the property on the real code: the restored graph saves to the same text (sharing, cycles, order preserved)
            text2 = GlueSerializer(back).dumps()
            if text2 != text and nfail < 10:
                nfail += 1
                R.fail('oracle', {'stream': 'graph', 'graph': g}, {'why': 'the restored object graph does not save to the same records', 'first': text[:300], 'second': text2[:300]})
    outs2 = R.model(op_lines)
    ncirc = 0
    for ci, o in zip(op_idx, outs2):
        m_ok = not is_err(o)
        ncirc += 0 if impl_load[ci] else 1
        if m_ok != impl_load[ci] and nfail < 20:
            nfail += 1
            R.fail('correspondence', {'stream': 'graph-load', 'graph': cases[ci]}, {'model_loads': m_ok, 'impl_loads': impl_load[ci]})
    R.sample({'stream': 'graph', 'graph': [[100, [['r', 1], ['r', 1]]], [1, [['r', 0], 5]]]})
    R.stream('graph', cases=len(cases), circular_reference_errors=ncirc, exhaustive=True,
             bound='all graphs of 1-2 nodes and %s graphs of 3 nodes (eager or two-phase loader; fields: none, a literal, one or two references, a list of two references), '
                   '%d random graphs of 4-7 nodes' % ('3000 sampled' if R.quick() else 'all', R.pick(500, 5000)))


def stream_tables(R, T):
    """the table predicates of the model per class (in_scope, pair_ok, ctor_ok): reported, and cross-checked with what the catalogue observes"""
    names = T['names']
    rows = [r for r in T['classes']]
    outs = R.model([enc((4, [names[r['name']]])) for r in rows])
    flags = {}
    for r, o in zip(rows, outs):
        if is_err(o):
            R.fail('correspondence', {'stream': 'tables', 'class': r['name']}, {'why': 'class missing from the model table'})
            continue
        a, b, c = to_zs(o)
        flags[r['name']] = (bool(a), bool(b), bool(c))
        R.count(('tables', r['name']), nontrivial=bool(a), stream='tables')
    return flags


def stream_codecs(R):
    """the field-level codec table of the model against the records the real savers wrote in this run: every key of a record
    written by a registered saver function is a key of that saver in the table, and every key the table has on all paths of the
    saver is in every such record"""
    import gen_codecs
    from glue.core.state import GlueSerializer
    C = gen_codecs.collect()
    names = C['names']
    by_row = {(r['cls'], r['version']): r for r in C['savers']}
    seen = {}
    for typ, proto, keys in sorted(SEEN_RECORDS):
        try:
            cls = lookup(typ)
        except Exception:
            continue
        if not isinstance(cls, type) or hasattr(cls, '__gluestate__'):
            continue
        row = None
        for k in cls.mro():
            if k in GlueSerializer.dispatch:
                row = ('%s.%s' % (k.__module__, k.__qualname__), proto)
                break
        if row is None or row not in by_row:
            R.fail('correspondence', {'stream': 'codecs', 'type': typ, 'protocol': proto}, {'why': 'a record was written for a type that has no row in the codec table'})
            continue
        seen.setdefault(row, set()).add(keys)
    lines, idx = [], []
    for row in sorted(seen):
        for nm, i in sorted(names.items(), key=lambda kv: kv[1]):
            lines.append(enc((5, [names[row[0]], row[1], i])))
            idx.append((row, nm))
    outs = R.model(lines)
    flags = {}
    for (row, nm), o in zip(idx, outs):
        flags.setdefault(row, {})[nm] = to_zs(o)
    nbad = 0
    for row in sorted(seen):
        dynamic = any(p['dynamic'] for p in by_row[row]['paths'])
        f = flags[row]
        always = set(nm for nm, z in f.items() if len(z) == 3 and z[0])
        sometimes = set(nm for nm, z in f.items() if len(z) == 3 and z[1])
        table_py = set(k for p in by_row[row]['paths'] for k in p['keys'])
        for keys in sorted(seen[row]):
            ks = set(keys) - {'_type', '_protocol'}
            R.count(('codecs', row, keys), nontrivial=bool(ks), stream='codecs')
            bad = None
            if sometimes != table_py:
                bad = 'the extracted model and the generator disagree on the keys of the row'
            elif not dynamic and not ks <= sometimes:
                bad = 'the saver wrote keys that the table does not have: %s' % sorted(ks - sometimes)
            elif not always <= ks:
                bad = 'the table says these keys are written on every path, the record lacks them: %s' % sorted(always - ks)
            if bad and nbad < 10:
                nbad += 1
                R.fail('correspondence', {'stream': 'codecs', 'saver': list(row), 'record_keys': sorted(ks)}, {'why': bad, 'model_always': sorted(always), 'model_sometimes': sorted(sometimes)})
    R.stream('codecs', cases=sum(len(v) for v in seen.values()), exhaustive=False, rows_seen=len(seen), rows_total=len(by_row),
             bound='every distinct (type, protocol, key set) record written by a registered saver function in the sessions of this run')
    # the method table (gen/Gen_methodcodecs.v): every record written by a __gluestate__ method in this run has exactly the keys of one
    # path of the row of the class that defines the method
    rows = {r['cls']: r for r in C['methods']['savers']}
    mseen, nbad = {}, 0
    for typ, proto, keys in sorted(SEEN_RECORDS):
        try:
            cls = lookup(typ)
        except Exception:
            continue
        if not isinstance(cls, type) or not hasattr(cls, '__gluestate__') or not typ.startswith('glue.'):
            continue
        owner = next((k for k in cls.__mro__ if '__gluestate__' in k.__dict__), None)
        oname = '%s.%s' % (owner.__module__, owner.__qualname__)
        if oname not in rows:
            continue          # a class outside the families of the class table (Session, LoadLog, viewers ...)
        ks = set(keys) - {'_type', '_protocol'}
        mseen.setdefault(oname, set()).add(tuple(sorted(ks)))
        R.count(('method-codecs', oname, keys), nontrivial=bool(ks), stream='method-codecs')
        if not any(set(p['keys']) == ks for p in rows[oname]['paths']) and nbad < 10:
            nbad += 1
            R.fail('correspondence', {'stream': 'method-codecs', 'type': typ, 'provider': oname, 'record_keys': sorted(ks)},
                   {'why': 'no path of the __gluestate__ row of the method table writes exactly these keys', 'table': [sorted(p['keys']) for p in rows[oname]['paths']]})
    R.stream('method-codecs', cases=sum(len(v) for v in mseen.values()), exhaustive=False, rows_seen=len(mseen), rows_total=len(rows),
             bound='every distinct (type, key set) record written by a __gluestate__ method of a class of the class table in the sessions of this run')


# ====================================================================================== entry points
def classify(spec, result):
    """known-finding key for exactly the recorded input class, else None"""
    if result['status'] == 'load-failed' and "FunctionalLinkCollection' not found" in str(result['detail']) and \
            any(ln['kind'] == 'FunctionalLinkCollection' for ln in spec.get('links', [])):
        return 'load-failed:functional_link_collection'
    if result['status'] == 'changed' and isinstance(result['detail'], list) and result['detail']:
        # an N-d categorical component with default categories is restored with an explicit category list, for which the codes
        # cannot be computed (pandas merge on an N-d array): codes and code-based masks raise ValueError after the load
        nd = set()
        for i, ds in enumerate(spec.get('datasets', [])):
            if len(ds['shape']) > 1 and any(c['kind'] == 'cat' and c.get('cats') is None and not (ds.get('file') and not c.get('mem')) for c in ds['comps']):
                nd.add(i)
        import re as _re
        ok = bool(nd)
        for path, before, after in result['detail']:
            m = _re.match(r'^/data/(\d+)/(categorical/\d+/codes|subsets/\d+/mask)$', path)
            if not (m and int(m.group(1)) in nd and after == 'EXC:ValueError' and isinstance(before, list)):
                ok = False
        if ok:
            return 'changed:nd-categorical-default-categories'
        # units set on a derived component are neither saved nor restored
        du = {}
        for i, ds in enumerate(spec.get('datasets', [])):
            for c in ds['comps']:
                if c['kind'] in ('arith', 'func', 'parsed') and c.get('units'):
                    du[i] = c['units']
        ok = bool(du)
        for path, before, after in result['detail']:
            m = _re.match(r'^/data/(\d+)/units/\d+$', path)
            if not (m and int(m.group(1)) in du and before == du[int(m.group(1))] and after == ''):
                ok = False
        if ok:
            return 'changed:derived-component-units'
    return None


SEEN_TYPES = set()


def check_session(R, name, spec, via_app, stream, nfail):
    if nfail[0] >= 12:
        return {'status': 'skipped', 'detail': 'enough failing inputs already'}
    r = trip(spec, R.scratch, via_app=via_app)
    st = r['status']
    SEEN_TYPES.update(r.get('types') or [])
    key = json.dumps(spec, sort_keys=True, default=str)
    R.count((stream, key, via_app), nontrivial=st == 'ok' and r.get('nontrivial', False), session_status=st, stream=stream,
            session_kind=name.split(':')[0], include_data=spec.get('include_data'))
    if st in BAD:
        k = classify(spec, r)
        if nfail[0] < 12 or k:
            nfail[0] += 0 if k else 1       # a recorded finding does not use up the budget of failing inputs
            hang = 'no result after' in str(r['detail'])
            small = shrink(spec, lambda s: trip(s, R.scratch, via_app=via_app)['status'] == st) if not (k or hang) else spec
            rr = trip(small, R.scratch, via_app=via_app) if small is not spec else r
            if rr['status'] != st:
                small, rr = spec, r
            R.fail('oracle', {'stream': stream, 'name': name, 'via_app': via_app, 'spec': small}, {'status': rr['status'], 'detail': rr['detail']}, key=k)
    elif st == 'build-failed':
        R.fail('correspondence', {'stream': stream, 'name': name, 'spec': spec}, {'why': 'the harness could not build its own session', 'detail': r['detail']})
    return r


def run(R):
    sys.path.insert(0, os.path.join(os.path.dirname(os.path.dirname(os.path.abspath(__file__))), 'gen'))
    import gen_tables
    R.rule = ('naming / graph: exhaustive small-scope enumeration + seeded random graphs, non-trivial when more than one object gets named / is reachable; '
              'sessions: one per (class of the regenerated class table, canonical argument set) x include_data on/off (catalogue) + seeded random sessions; '
              'a session is non-trivial when it restores with a subset mask that is neither empty nor full or an attribute reachable across datasets; '
              'distinct = distinct canonical specs')
    T = gen_tables.collect()
    flags = {}
    if R.model_available:
        for fn in (stream_naming, stream_graph):
            try:
                fn(R)
            except Exception as e:        # keep going: the session streams may still find the failing input
                import traceback
                R.fail('correspondence', {'stream': fn.__name__}, {'why': 'stream crashed', 'trace': traceback.format_exc()[-1500:]})
        flags = stream_tables(R, T)
    nfail = [0]
    cat = catalogue(T)
    statuses = {}
    for k, (name, sp) in enumerate(cat):
        r = check_session(R, name, sp, False, 'catalogue', nfail)
        statuses.setdefault(name, []).append(r['status'])
        if k % 3 == 0 and r['status'] == 'ok':
            check_session(R, name, sp, True, 'catalogue_via_application', nfail)
    norecipe = sorted(set(n for n, s in statuses.items() if all(x == 'no-recipe' for x in s)))
    loud = sorted(set(n for n, s in statuses.items() if all(x == 'save-failed' for x in s)))
    if norecipe:
        R.note('classes found by introspection that the harness cannot instantiate with generic arguments: ' + ', '.join(norecipe))
    if loud:
        R.note('classes whose sessions fail loudly at save time (allowed by the property): ' + ', '.join(loud))
    # every class in scope of the table theorem must have been exercised (or be reported)
    loud_names = set(n.split(':', 1)[1] for n in loud if ':' in n)
    missing = [nm for nm, (a, b, c) in flags.items() if a and nm not in SEEN_TYPES and nm.rsplit('.', 1)[1] not in loud_names
               and T['classes'][[r['name'] for r in T['classes']].index(nm)]['family'] in (0, 1, 2, 4)]
    if missing:
        R.note('classes with instance state never written as a _type by a session that saved: ' + ', '.join(missing))
    R.stream('catalogue', cases=len(cat), exhaustive=True,
             bound='every SubsetState class (every Roi class inside RoiSubsetState; pretransforms), every link helper class, derived / datetime / NaN / dask components '
                   'alone and seen through links, coordinates none/identity/affine/legacy x 1-3 dimensions, csv/npy/fits with and without data, RegionData, equal labels; '
                   '16 CategoricalComponent constructor option sets (explicit category order, unused / missing / no categories, list / tuple / array, jitter, units) x include_data on / off '
                   'with 12 code-based and label-based selections each, N-d categorical components, units on every stored and derived component kind')
    n = R.pick(110, 1500)
    for i in range(n):
        rng = R.subrng('session', i)
        sp = random_spec(rng, T)
        mrng = R.subrng('magnitude', i)
        if mrng.random() < 0.3:
            _, off, step = MAGS[mrng.randrange(len(MAGS))]
            sp['mag'] = {'off': off, 'step': step}
        check_session(R, 'random:%d' % i, sp, i % 2 == 1, 'random', nfail)
    if statuses.get('regiondata:no-extended') and statuses['regiondata:no-extended'] not in (['save-failed'], ['skipped']):
        R.fail('correspondence', {'stream': 'catalogue', 'name': 'regiondata:no-extended'},
               {'why': 'a RegionData without extended component no longer fails loudly at save time: the reason given for legit_unwritten_reads in coq/C02/CodecModel.v is stale',
                'status': statuses['regiondata:no-extended']})
    if R.model_available:
        try:
            stream_codecs(R)
        except Exception:
            import traceback
            R.fail('correspondence', {'stream': 'codecs'}, {'why': 'stream crashed', 'trace': traceback.format_exc()[-1500:]})
    R.sample({'stream': 'catalogue', 'name': cat[0][0], 'spec': cat[0][1]})
    R.stream('random', cases=n, exhaustive=False, bound='1-3 datasets (1-d tables, 2-d / 3-d images; files when include_data is off), 1-4 subset groups with composites to depth 2, links forming a forest')


def replay(R, case):
    st = case.get('stream', '')
    out = {'case': case}
    if st in ('catalogue', 'random', 'catalogue_via_application'):
        r = trip(case['spec'], R.scratch, via_app=bool(case.get('via_app')))
        out.update(result=r, violates=r['status'] in BAD)
    elif st == 'naming':
        from glue.core.state import GlueSerializer
        objs, gs, names = [], None, {}
        bad = None
        for kind, v in case['ops']:
            if kind == 'new':
                o = Labelled(v) if v is not None else Nolabel()
                objs.append(o)
            elif v < len(objs):
                o = objs[v]
            else:
                continue
            if gs is None:
                gs = GlueSerializer(o)
            nm = gs.id(o)
            i = objs.index(o)
            if names.get(i, nm) != nm:
                bad = 'renamed'
            names[i] = nm
        if len(set(names.values())) != len(names):
            bad = 'shared name'
        out.update(names=names, violates=bool(bad), why=bad)
    elif st.startswith('graph'):
        from glue.core.state import GlueSerializer, GlueUnSerializer
        g = [(c, [tuple(f) if isinstance(f, list) and f and f[0] == 'r' else f for f in fs]) for c, fs in case['graph']]
        nodes = build_graph(g)
        text = GlueSerializer(nodes[0]).dumps()
        try:
            back = GlueUnSerializer.loads(text).object('__main__')
            text2 = GlueSerializer(back).dumps()
            out.update(same=text == text2, violates=text != text2)
        except Exception as e:
            out.update(load_error=repr(e), violates=False)
    else:
        out.update(note='re-run ./check C02 --tier quick', violates=False)
    return out
