"""C17 — a dataset stays structurally consistent and announces every structural change.

Operation sequences over the whole mutation API of glue.core.data.Data are run on real Data objects
(outside a collection, attached to a hub only, inside a DataCollection with a bystander dataset), with a
recording HubListener subscribed to Message (i.e. to every message class).  After every call

* correspondence: the canonical structure (shape, ordered component table with kinds / shapes / link
  inputs, pixel ids, world ids, coordinates object, coordinate links, labels, externally derivable ids,
  find_component_id for every label and id in play) and the message log (class, dataset, component ids)
  are compared with the extracted Coq model (coq/C17/Model.v);
* oracle: the invariant of the property and "announced <=> happened" are evaluated directly on the real
  objects by diffing snapshots taken before and after the call (no use of the model).
"""
import itertools
import operator

import numpy as np

from harness.common import enc, Z, kids, tag, to_zs, is_err, err_code

PROP = 'C17'
GENERATORS = ['gen_findcid', 'gen_datamut']
TRUSTED = [
    'hand model coq/C17/Model.v of Data.add_component / add_component_link / ComponentID.label / coords setter / update_values_from_data / '
    'DataCollection.append+remove and of the hub (delay_callbacks queue, DataCollection handler re-deriving the externally derivable '
    'components): tied by correspondence only',
    'Data.remove_component (+ _removed_derived_that_depend_on), reorder_components, update_id, update_components are regenerated from '
    'data.py by tools/gen/gen_datamut.py (coq/gen/Gen_datamut.v) and proved equal to the model (coq/C17/GenEquiv.v); trusted there: the '
    'translator, its prelude of ordered-dict / list primitives, the instance env17 (get_component = lookup in _components, '
    'ComponentLink.replace_ids as dm_replace_ids, clear_mask_caches = identity, the hub = emit)',
    'the model follows the repaired code (fix commits for F-C03 and F-C14a); on a tree without them the comparison of the externally '
    'derivable ids / ExternallyDerivableComponentsChangedMessage is suspended from the first call that leaves a dangling internal link',
    'numpy / CPython set iteration: the removal order inside update_values_from_data is canonicalised (compared as a multiset)',
]
ASSUMPTIONS = [
    'coordinates objects have independent axes (IdentityCoordinates, diagonal AffineCoordinates) and the dimension of the dataset',
    'derived components are added through add_component(link, label) with BinaryComponentLink chains with at least one input (no identity links, no external links)',
    'update_id(old, new) with new already in use, update_components on derived / coordinate components (including an id that is no longer a '
    'component but still externally derivable: get_component resolves it to a helper DerivedComponent) and update_components({}) are outside the domain',
    'assigning an equal label / equal values counts as a change that happened (the call is the change): ComponentID.label = same announces a rename',
    'update_values_from_data: the correspondence stream only uses sources whose pixel / world attribute names equal the target\'s; the '
    'other sources are exercised by the oracle-only stream (known findings)',
]

# ------------------------------------------------------------------ label coding
USER_LABELS = {0: 'a', 1: 'b', 2: 'c', 3: 'z', 4: 'w', 5: 'p', 6: 'q', -1: '?'}
DLABELS = {0: 'd', 1: 's1', 2: 's2'}
ERRS = {'ValueError': 1, 'TypeError': 2, 'IncompatibleAttribute': 3, 'RecursionError': 5}
FIRST_FRESH = 100

_label_code = None
_WORLD = {}


def label_tables():
    """string <-> code for every label the harness or the code can produce (the model computes the same codes)"""
    global _label_code
    if _label_code is not None:
        return _label_code
    from glue.core.data import pixel_label
    from glue.core.coordinate_helpers import axis_label
    code = {}
    for k, v in USER_LABELS.items():
        code[v] = k
    for nd in (1, 2, 3):
        for i in range(nd):
            s = 'Pixel Axis %s' % pixel_label(i, nd)
            c = 1000 + 10 * i + (nd - 1 - i)
            assert code.get(s, c) == c
            code[s] = c
    for kind in (0, 1):
        for nd in (1, 2, 3):
            co = make_coords(kind, nd)
            for i in range(nd):
                s = axis_label(co, i)
                c = (2000 + i) if kind == 0 else (2100 + (nd - 1 - i))
                assert code.get(s, c) == c, (s, c, code.get(s))
                code[s] = c
    inv = {}
    for s, c in code.items():
        assert c not in inv, ('label code clash', s, inv.get(c))
        inv[c] = s
    _label_code = (code, inv)
    return _label_code


def make_coords(kind, nd):
    from glue.core.coordinates import IdentityCoordinates, AffineCoordinates
    if kind == 0:
        return IdentityCoordinates(n_dim=nd)
    m = np.diag([2.0] * nd + [1.0])
    return AffineCoordinates(m, labels=['xw', 'yw', 'zw'][:nd])


def lstr(code):
    return label_tables()[1][code]


def lcode(s):
    return label_tables()[0].get(s, -7)


# ------------------------------------------------------------------ executor on the real objects
class Unknown(Exception):
    pass


class Exec(object):
    """runs concrete operations on a real Data object and observes it"""

    def __init__(self, mode, coords, pool, dlabel=0):
        from glue.core import Data, DataCollection, HubListener
        from glue.core.component_id import ComponentID
        from glue.core.message import Message
        self.G = __import__('glue.core.message', fromlist=['x'])
        self.objs = {}          # number -> ComponentID
        self.num = {}           # id(ComponentID) -> number
        self.coords_objs = {}   # id -> coordinates object
        self.coords_spec = {}
        self.pool = []
        for n, l in pool:
            c = ComponentID(lstr(l))
            self._bind(c, n)
            self.pool.append(n)
        self.next = FIRST_FRESH
        self.d = Data(label=DLABELS[dlabel], coords=self.coords(coords))
        self.log = []
        self.ext_seen = {}
        self.pa_seen = {}
        # the collection, its bystander dataset and the recording listener are shared by all cases (creating a Data object
        # costs ~1 ms); the previous case's dataset has been removed from the collection and the bystander's link-manager
        # bookkeeping is reset, so every case starts from the same collection state
        W = _WORLD
        if not W:
            W['b'] = Data(label='bystander', v=[1, 2])
            W['dc'] = DataCollection([W['b']])

            class Rec(HubListener):
                def register_to_hub(self, hub):
                    hub.subscribe(self, Message, handler=lambda m: W['sink'](m), priority=10 ** 6)
            W['rec'] = Rec()
            W['rec'].register_to_hub(W['dc'].hub)
        self.b, self.dc, self.rec = W['b'], W['dc'], W['rec']
        for old in list(self.dc):
            if old is not self.b:
                self.dc.remove(old)
        self.b._pixel_aligned_data = type(self.b._pixel_aligned_data)()
        self.b._externally_derivable_components = type(self.b._externally_derivable_components)()
        W['sink'] = self._record
        if mode == 2:
            self.dc.append(self.d)
        elif mode == 1:
            self.d.register_to_hub(self.dc.hub)
        self.log = []
        self.tainted = False          # a dangling internal link has been seen (F-C03 / F-C14a unrepaired, or coordinate removal)
        self.coord_removed = False    # history contains remove / replacement of a coordinate component (known finding class)
        self.uvfd_misaligned = False  # history contains update_values_from_data with differing coordinate attribute names
        self.uvfd_empty = False
        self.number_new()
        self._remember_links()

    # -- identities
    def _bind(self, c, n):
        self.objs[n] = c
        self.num[id(c)] = n

    def n(self, c):
        if c is None:
            return None
        return self.num.get(id(c), -1)

    def nn(self, c):
        return -2 if c is None else self.num.get(id(c), -1)

    def obj(self, n):
        if n not in self.objs:
            raise Unknown(n)
        return self.objs[n]

    def coords(self, spec):
        if spec is None:
            return None
        i, kind, nd = spec
        if i not in self.coords_objs:
            self.coords_objs[i] = make_coords(kind, nd)
            self.coords_spec[i] = [i, kind, nd]
        return self.coords_objs[i]

    def coords_id(self, obj):
        if obj is None:
            return None
        for i, o in self.coords_objs.items():
            if o is obj:
                return i
        return -1

    def number_new(self):
        d = self.d
        for c in list(d.components) + list(d.pixel_component_ids) + list(d._world_component_ids):
            if id(c) not in self.num:
                self._bind(c, self.next)
                self.next += 1

    # -- recording
    def _ext_sig(self, x):
        return tuple(sorted((id(k), id(v.link)) for k, v in x._externally_derivable_components.items()))

    def _pa_sig(self, x):
        return tuple(sorted((id(k), tuple(v)) for k, v in x._pixel_aligned_data.items()))

    def _remember_links(self):
        for x in (self.d, self.b):
            self.ext_seen[id(x)] = self._ext_sig(x)
            self.pa_seen[id(x)] = self._pa_sig(x)

    def _record(self, m):
        G = self.G
        note = None
        if type(m) is G.ExternallyDerivableComponentsChangedMessage:
            sig = self._ext_sig(m.sender)
            note = sig != self.ext_seen.get(id(m.sender))
            self.ext_seen[id(m.sender)] = sig
        elif type(m) is G.PixelAlignedDataChangedMessage:
            sig = self._pa_sig(m.sender)
            note = sig != self.pa_seen.get(id(m.sender))
            self.pa_seen[id(m.sender)] = sig
        self.log.append((m, note))

    def canon_msg(self, m):
        G = self.G
        t = type(m)
        if t is G.DataAddComponentMessage:
            r = (1, self.nn(m.component_id))
        elif t is G.DataRemoveComponentMessage:
            r = (2, self.nn(m.component_id))
        elif t is G.ComponentsChangedMessage:
            r = (3,)
        elif t is G.ComponentReplacedMessage:
            r = (4, self.nn(m.old), self.nn(m.new))
        elif t is G.DataReorderComponentMessage:
            r = (5, tuple(self.nn(c) for c in m.component_ids))
        elif t is G.DataRenameComponentMessage:
            r = (6, self.nn(m.component_id))
        elif t is G.NumericalDataChangedMessage:
            r = (7, None if m.components_changed is None else tuple(self.nn(c) for c in m.components_changed))
        elif t is G.DataUpdateMessage:
            r = (8,) if m.attribute == 'label' else (8, str(m.attribute))
        elif t is G.ExternallyDerivableComponentsChangedMessage:
            r = (9,)
        elif t is G.DataCollectionAddMessage:
            r = (10,) if m.data is self.d else (10, 'other')
        elif t is G.DataCollectionDeleteMessage:
            r = (11,) if m.data is self.d else (11, 'other')
        elif t is G.PixelAlignedDataChangedMessage:
            r = (12,)
        else:
            r = (99, t.__name__)
        return r

    # -- observation
    def raw(self):
        d = self.d
        return {'comps': list(d.components), 'pixel': list(d.pixel_component_ids), 'world': list(d._world_component_ids),
                'shape': tuple(d.shape), 'coords': d.coords, 'label': d.label,
                'labels': {id(c): c.label for c in d.components},
                'member': self.d in self.dc}

    def dangling(self):
        d = self.d
        present = set(id(c) for c in d.components)
        for l in d.links:
            if id(l.get_to_id()) not in present:
                return True
            for f in l.get_from_ids():
                if id(f) not in present:
                    return True
        return False

    def snapshot(self, finds):
        from glue.core.component import DerivedComponent, CoordinateComponent
        d = self.d
        comps = []
        for c in d.components:
            comp = d._components[c]
            if isinstance(comp, DerivedComponent):
                k, extra = 2, [self.n(f) for f in comp.link.get_from_ids()]
            elif isinstance(comp, CoordinateComponent):
                k, extra = 3, [1 if comp.world else 0, int(comp.axis)]
            else:
                k, extra = 1, []
            try:
                sh = [int(x) for x in comp.shape]
            except Exception as e:  # pragma: no cover
                sh = ['ERR', type(e).__name__]
            comps.append([k, self.n(c), sh, extra])
        return {
            'shape': [int(x) for x in d.shape],
            'comps': comps,
            'pixel': [self.n(c) for c in d.pixel_component_ids],
            'world': [self.n(c) for c in d._world_component_ids],
            'coords': self.coords_id(d.coords),
            'clinks': [[[self.n(f) for f in l.get_from_ids()], self.n(l.get_to_id())] for l in d.coordinate_links],
            'labels': [lcode(c.label) for c in d.components],
            'ext': sorted(self.n(c) for c in d._externally_derivable_components),
            'finds': [self.n(d.find_component_id(lstr(l))) for l in finds],
            'findc': [self.n(d.find_component_id(c)) for c in d.components],
            'dlabel': {v: k for k, v in DLABELS.items()}.get(d.label, -7),
        }

    # -- the operations
    def classify(self, op):
        """(expected outcome by the documented contract, evaluated on the real state before the call)"""
        from glue.core.component import DerivedComponent, CoordinateComponent
        d = self.d
        k = op[0]
        ncomp = len(d.components)
        if k in ('addnew', 'addat'):
            sh = tuple(op[2])
            if ncomp == 0 or sh == tuple(d.shape):
                return 'ok'
            return 'ValueError'
        if k == 'addder':
            if any(self.obj(f) not in d.components for f in op[2]):
                return 'ValueError'
            return 'TypeError' if ncomp == 0 else 'ok'
        if k == 'reorder':
            ids = [id(self.obj(c)) for c in op[1]]
            if len(ids) != ncomp or set(ids) != set(id(c) for c in d.components):
                return 'ValueError'
            return 'ok'
        if k == 'updcomps':
            for c, sh in op[1]:
                if self.obj(c) not in d.components:
                    return 'IncompatibleAttribute'
                if tuple(sh) != tuple(d.shape):
                    return 'ValueError'
            return 'ok'
        if k == 'updfrom':
            old = [c.label for c in d.components]
            if len(old) != len(set(old)) or len(op[2]) != len(set(op[2])):
                return 'ValueError'
            return 'ok'
        return 'ok'

    def uvfd_aligned(self, op):
        """do the pixel / world attribute names of the source equal those of the dataset?"""
        from glue.core.component import CoordinateComponent
        from glue.core.data import pixel_label
        from glue.core.coordinate_helpers import axis_label
        d = self.d
        mine = sorted(c.label for c in d.components if isinstance(d._components[c], CoordinateComponent))
        nd = len(op[1])
        theirs = []
        if len(op[2]) > 0:
            theirs = ['Pixel Axis %s' % pixel_label(i, nd) for i in range(nd)]
            if op[3] is not None:
                theirs += [axis_label(self.coords(op[3]), i) for i in range(nd)]
        elif nd > 0:
            return False
        if nd != len(d.shape) or (d.coords is None) != (op[3] is None):
            return False
        return mine == sorted(theirs)

    def in_model_domain(self, op):
        """calls the Coq model covers (the others are exercised by the oracle-only stream or excluded, see ASSUMPTIONS)"""
        from glue.core.component import DerivedComponent, CoordinateComponent
        d = self.d
        k = op[0]
        if k == 'updfrom':
            return self.classify(op) != 'ok' or self.uvfd_aligned(op)
        if k == 'updid' and op[1] != op[2]:
            inuse = set(id(c) for c in list(d.components) + list(d.pixel_component_ids) + list(d._world_component_ids))
            return not (id(self.obj(op[1])) in inuse and id(self.obj(op[2])) in inuse)
        if k == 'coords' and op[1] is not None and len(d.components) > 0:
            # a pixel component removed through the public API (known finding): the setter can empty the dataset half-way
            # and then recurses for ever; the model does not follow the code there
            present = set(id(c) for c in d.components)
            if any(id(c) not in present for c in d.pixel_component_ids):
                return False
        if k == 'updcomps':
            if len(op[1]) == 0 or len(set(c for c, _ in op[1])) != len(op[1]):
                return False
            for c, sh in op[1]:
                o = self.obj(c)
                if o not in d.components:
                    # get_component also resolves externally derivable ids (stale ones after leaving the collection, or a
                    # removed coordinate id reachable through the coordinate links) to a helper DerivedComponent: updating
                    # that is "update_components on a non-stored component", outside the domain
                    if any(o is k for k in d._externally_derivable_components):
                        return False
                    return True       # raises before anything else is looked at
                if tuple(sh) != tuple(d.shape):
                    return True
                if isinstance(d._components[o], (DerivedComponent, CoordinateComponent)):
                    return False
        return True

    def build_source(self, op):
        from glue.core import Data
        _, sh, mains, co, dl = op
        s = Data(label=DLABELS[dl])
        if co is not None:
            s.coords = self.coords(co)
        for j, l in enumerate(mains):
            s.add_component(np.full(tuple(sh), float(j + 1)), lstr(l))
        return s

    def apply(self, op):
        from glue.core.component_link import BinaryComponentLink
        d = self.d
        k = op[0]
        if k == 'addnew':
            d.add_component(np.zeros(tuple(op[2])), lstr(op[1]))
        elif k == 'addat':
            d.add_component(np.ones(tuple(op[2])), self.obj(op[1]))
        elif k == 'addder':
            ids = [self.obj(f) for f in op[2]]
            if len(ids) == 0:
                link = BinaryComponentLink(1, 2, operator.add)
            elif len(ids) == 1:
                link = ids[0] + 1
            else:
                link = ids[0] + ids[1]
                for x in ids[2:]:
                    link = link + x
            d.add_component(link, lstr(op[1]))
        elif k == 'remove':
            d.remove_component(self.obj(op[1]))
        elif k == 'reorder':
            d.reorder_components([self.obj(c) for c in op[1]])
        elif k == 'updid':
            d.update_id(self.obj(op[1]), self.obj(op[2]))
        elif k == 'rename':
            self.obj(op[1]).label = lstr(op[2])
        elif k == 'coords':
            d.coords = self.coords(op[1])
        elif k == 'updcomps':
            self._fill = getattr(self, '_fill', 10) + 1
            d.update_components(dict((self.obj(c), np.full(tuple(sh), float(self._fill))) for c, sh in op[1]))
        elif k == 'updfrom':
            d.update_values_from_data(self.build_source(op))
        elif k == 'join':
            self.dc.append(d)
        elif k == 'leave':
            self.dc.remove(d)
        else:
            raise ValueError('unknown op %r' % (op,))

    def check_refs(self, op):
        k = op[0]
        refs = []
        if k in ('addat', 'remove'):
            refs = [op[1]]
        elif k == 'addder':
            refs = op[2]
        elif k == 'reorder':
            refs = op[1]
        elif k == 'updid':
            refs = [op[1], op[2]]
        elif k == 'rename':
            refs = [op[1]]
        elif k == 'updcomps':
            refs = [c for c, _ in op[1]]
        for r in refs:
            self.obj(r)

    def step(self, op, finds):
        """run one op; returns dict(outcome, msgs, snap, oracle=[(what, key)], tainted)"""
        from glue.core.component import DerivedComponent, CoordinateComponent
        self.check_refs(op)
        d = self.d
        before = self.raw()
        expected = self.classify(op)
        hub_before = d.hub is not None
        k = op[0]
        coordset = set(id(c) for c in before['pixel'] + before['world'])
        if k in ('remove', 'addat') and id(self.obj(op[1])) in coordset:
            self.coord_removed = True
        misaligned_now = False
        if k == 'updfrom' and expected == 'ok' and not self.uvfd_aligned(op):
            misaligned_now = True
            self.uvfd_misaligned = True
            if len(d.components) == 0:
                self.uvfd_empty = True
        self.log = []
        self._remember_links()
        try:
            self.apply(op)
            outcome = 'ok'
        except RecursionError:
            outcome = 'RecursionError'
        except Exception as e:
            outcome = type(e).__name__
        self.number_new()
        raw_log = self.log
        self.log = []
        msgs = [self.canon_msg(m) for m, _ in raw_log]
        after = self.raw()
        if self.dangling():
            self.tainted = True
        fails = []
        key = None
        if self.coord_removed:
            key = 'remove-coordinate-component'
        elif self.uvfd_empty:
            key = 'uvfd-empty-target'
        elif self.uvfd_misaligned:
            key = 'uvfd-coordinate-names-differ'

        def bad(what):
            fails.append((what, key))

        # ---- outcome
        if outcome != expected:
            bad('call with %s arguments ended with %s' % ('valid' if expected == 'ok' else 'invalid (%s expected)' % expected, outcome))
        # ---- invariant on the real object
        nd = len(d.shape)
        for c in d.components:
            comp = d._components[c]
            try:
                if tuple(comp.shape) != tuple(d.shape):
                    bad('component %s has shape %r, dataset %r' % (c.label, tuple(comp.shape), tuple(d.shape)))
                if not isinstance(comp, (DerivedComponent, CoordinateComponent)) and np.shape(d[c]) != tuple(d.shape):
                    bad('values of %s have shape %r, dataset %r' % (c.label, np.shape(d[c]), tuple(d.shape)))
            except Exception as e:
                bad('shape of component %s cannot be read: %s' % (c.label, type(e).__name__))
        if len(d.pixel_component_ids) != nd:
            bad('%d pixel ids for %d dimensions' % (len(d.pixel_component_ids), nd))
        nworld = nd if d.coords is not None else 0
        if len(d._world_component_ids) != nworld or len(d.world_component_ids) != nworld:
            bad('%d world ids for %d dimensions, coords %s' % (len(d._world_component_ids), nd, 'set' if d.coords is not None else 'None'))
        present = dict((id(c), c) for c in d.components)
        for lst, isworld, nm in ((d.pixel_component_ids, False, 'pixel'), (d._world_component_ids, True, 'world')):
            for i, c in enumerate(lst):
                comp = d._components.get(c) if id(c) in present else None
                if comp is None:
                    bad('%s id %d (%s) is not a component of the dataset' % (nm, i, c.label))
                elif not isinstance(comp, CoordinateComponent) or bool(comp.world) != isworld or comp.axis != i:
                    bad('%s id %d (%s) is not the %s coordinate component of axis %d' % (nm, i, c.label, nm, i))
        coord_now = [c for c in d.components if isinstance(d._components[c], CoordinateComponent)]
        listed = set(id(c) for c in list(d.pixel_component_ids) + list(d._world_component_ids))
        for c in coord_now:
            if id(c) not in listed:
                bad('coordinate component %s is neither a pixel nor a world id of the dataset' % c.label)
        for nm, lst in (('components', after['comps']), ('pixel ids', after['pixel']), ('world ids', after['world'])):
            if len(set(id(c) for c in lst)) != len(lst):
                bad('%s are not unique' % nm)
        # stable order
        bids = [id(c) for c in before['comps']]
        aids = [id(c) for c in after['comps']]
        if k == 'updid' and outcome == 'ok':
            o, nw = id(self.obj(op[1])), id(self.obj(op[2]))
            want = [nw if x == o else x for x in bids]
            if aids != want:
                bad('update_id did not keep the other components and the order')
        elif k == 'reorder' and outcome == 'ok' and expected == 'ok':
            if aids != [id(self.obj(c)) for c in op[1]]:
                bad('reorder_components did not produce the requested order')
        else:
            kept = [x for x in bids if x in set(aids)]
            new = [x for x in aids if x not in set(bids)]
            if aids != kept + new:
                bad('order of the components is not stable (kept ones first in their order, new ones appended)')
        if outcome != 'ok':
            if msgs and not (self.coord_removed or self.uvfd_misaligned):
                bad('rejected call (%s) logged messages %r' % (outcome, msgs))
            if (aids != bids or after['shape'] != before['shape'] or [id(c) for c in after['pixel']] != [id(c) for c in before['pixel']]
                    or [id(c) for c in after['world']] != [id(c) for c in before['world']] or after['coords'] is not before['coords']):
                bad('failed call (%s) changed the structure' % outcome)
        # lookup by name / id
        classes = [[c for c in d.components if not isinstance(d._components[c], (DerivedComponent, CoordinateComponent))],
                   [c for c in d.components if isinstance(d._components[c], DerivedComponent)],
                   coord_now, list(d._externally_derivable_components)]

        def ref_find(pred):
            for cl in classes:
                hit = [c for c in cl if pred(c)]
                if len(hit) == 1:
                    return hit[0]
                if len(hit) > 1:
                    return None
            return None
        for l in set([lstr(x) for x in finds] + [c.label for c in d.components]):
            got = d.find_component_id(l)
            if got is not ref_find(lambda c: c.label == l):
                bad('find_component_id(%r) returned %s' % (l, None if got is None else got.label))
        for c in list(d.components) + [self.objs[p] for p in self.pool]:
            got = d.find_component_id(c)
            if got is not ref_find(lambda x: x is c):
                bad('find_component_id(<id %s>) returned %s' % (c.label, None if got is None else got.label))
        # ---- announcements
        if not hub_before and k != 'join':
            if msgs:
                bad('messages %r although the dataset has no hub' % (msgs,))
        elif d.hub is not None:
            for (m, note), cm in zip(raw_log, msgs):
                if cm[0] in (1, 2, 3, 4, 5, 6, 7, 8, 9) and m.sender is not d:
                    bad('message %r sent for dataset %s' % (cm, getattr(m.sender, 'label', '?')))
                if cm[0] == 99 or len(cm) > 1 and cm[-1] == 'other':
                    bad('unexpected message %r' % (cm,))
                if cm[0] in (9, 12) and note is False:
                    bad('%s announced but nothing changed' % type(m).__name__)
            added = [x for x in aids if x not in set(bids)]
            removed = [x for x in bids if x not in set(aids)]
            if k == 'updid' and outcome == 'ok':
                o, nw = self.obj(op[1]), self.obj(op[2])
                changed = (aids != bids or [id(c) for c in after['pixel']] != [id(c) for c in before['pixel']]
                           or [id(c) for c in after['world']] != [id(c) for c in before['world']])
                want = [(4, self.n(o), self.n(nw))] if changed else []
                if [x for x in msgs if x[0] == 4] != want:
                    bad('ComponentReplacedMessage: got %r, change happened: %r' % ([x for x in msgs if x[0] == 4], changed))
                added = [x for x in added if x != id(nw)]
                removed = [x for x in removed if x != id(o)]
            elif any(x[0] == 4 for x in msgs):
                bad('ComponentReplacedMessage without update_id')
            got_add = sorted(x[1] for x in msgs if x[0] == 1)
            got_rem = sorted(x[1] for x in msgs if x[0] == 2)
            if got_add != sorted(self.num[x] for x in added):
                bad('DataAddComponentMessage for %r, components added %r' % (got_add, sorted(self.num[x] for x in added)))
            if got_rem != sorted(self.num[x] for x in removed):
                bad('DataRemoveComponentMessage for %r, components removed %r' % (got_rem, sorted(self.num[x] for x in removed)))
            ncc = sum(1 for x in msgs if x[0] == 3)
            if ncc != len(added) + len(removed):
                bad('%d ComponentsChangedMessage for %d added + %d removed components' % (ncc, len(added), len(removed)))
            reo = [x for x in msgs if x[0] == 5]
            reordered = set(aids) == set(bids) and aids != bids and k == 'reorder'
            if reo != ([(5, tuple(self.num[x] for x in aids))] if reordered else []):
                bad('DataReorderComponentMessage %r, order changed: %r' % (reo, reordered))
            ren = [x for x in msgs if x[0] == 6]
            want = []
            if k == 'rename' and outcome == 'ok' and self.obj(op[1]).parent is d:
                want = [(6, op[1])]
            if ren != want:
                bad('DataRenameComponentMessage %r expected %r' % (ren, want))
            numc = [x for x in msgs if x[0] == 7]
            want = []
            if outcome == 'ok' and k == 'updcomps':
                want = [(7, tuple(c for c, _ in op[1]))]
            if outcome == 'ok' and k == 'updfrom':
                want = [(7, None)]
            if numc != want:
                bad('NumericalDataChangedMessage %r expected %r' % (numc, want))
            lab = [x for x in msgs if x[0] == 8]
            if lab != ([(8,)] if after['label'] != before['label'] else []):
                bad('DataUpdateMessage %r, label changed: %r' % (lab, after['label'] != before['label']))
            if (self._ext_sig(d) != self.ext_seen.get(id(d))):
                bad('externally derivable components changed without a message')
            mem = [x for x in msgs if x[0] in (10, 11)]
            want = []
            if after['member'] != before['member']:
                want = [(10,)] if after['member'] else [(11,)]
            if mem != want:
                bad('collection messages %r, membership changed: %r' % (mem, after['member'] != before['member']))
        return {'outcome': outcome, 'msgs': msgs, 'snap': self.snapshot(finds), 'oracle': fails, 'tainted': self.tainted,
                'misaligned': misaligned_now}


# ------------------------------------------------------------------ model side
def enc_crd(c):
    return (0, []) if c is None else (1, [int(c[0]), int(c[1]), int(c[2])])


def enc_op(op):
    k = op[0]
    if k == 'addnew':
        return (1, [op[1], Z(op[2])])
    if k == 'addat':
        return (2, [op[1], Z(op[2])])
    if k == 'addder':
        return (3, [op[1], Z(op[2])])
    if k == 'remove':
        return (4, [op[1]])
    if k == 'reorder':
        return (5, [Z(op[1])])
    if k == 'updid':
        return (6, [op[1], op[2]])
    if k == 'rename':
        return (7, [op[1], op[2]])
    if k == 'coords':
        return (8, [enc_crd(op[1])])
    if k == 'updcomps':
        return (9, [(0, [(0, [c, Z(sh)]) for c, sh in op[1]])])
    if k == 'updfrom':
        return (10, [Z(op[1]), Z(op[2]), enc_crd(op[3]), op[4]])
    if k == 'join':
        return (11, [])
    if k == 'leave':
        return (12, [])
    raise ValueError(op)


def enc_case(case, finds, tag_=1):
    return enc((tag_, [case['mode'], enc_crd(case['coords']), (0, [(0, [n, l]) for n, l in case['pool']]), Z(finds), 0,
                    (0, [enc_op(o) for o in case['ops']])]))


def optz(t):
    return None if tag(t) == 0 and not kids(t) else kids(t)[0][0]


def dec_state(t):
    k = kids(t)
    comps = []
    for c in kids(k[1]):
        cc = kids(c)
        comps.append([tag(c), cc[0][0], to_zs(cc[1]), to_zs(cc[2])])
    return {
        'shape': to_zs(k[0]), 'comps': comps, 'pixel': to_zs(k[2]), 'world': to_zs(k[3]), 'coords': optz(k[4]),
        'clinks': [[to_zs(kids(l)[0]), kids(l)[1][0]] for l in kids(k[5])],
        'labels': to_zs(k[6]), 'ext': sorted(to_zs(k[7])),
        'finds': [optz(x) for x in kids(k[8])], 'findc': [optz(x) for x in kids(k[9])],
        'dlabel': k[10][0], 'stuck': k[11][0],
    }


def dec_msg(t):
    g = tag(t)
    k = kids(t)
    if g in (1, 2, 6):
        return (g, k[0][0])
    if g == 4:
        return (4, k[0][0], k[1][0])
    if g == 5:
        return (5, tuple(to_zs(k[0])))
    if g == 7:
        return (7, None if not k else tuple(to_zs(k[0])))
    return (g,)


def dec_step(t):
    k = kids(t)
    r = k[0]
    out = 'ok' if tag(r) == 0 else {1: 'ValueError', 2: 'TypeError', 3: 'IncompatibleAttribute', 5: 'RecursionError',
                                    -3: 'UNMODELLED'}.get(err_code(r), 'ERR%r' % err_code(r))
    return {'outcome': out, 'msgs': [dec_msg(m) for m in kids(k[1])], 'snap': dec_state(k[2])}


def canon_uvfd(msgs):
    """the removal phase of update_values_from_data iterates a set of names: compare it as a multiset"""
    i = 0
    while i < len(msgs) and msgs[i][0] in (2, 3, 9):
        i += 1
    return sorted(msgs[:i], key=repr) + list(msgs[i:])


def compare(op, real, model, tainted):
    """returns None or a description of the first difference"""
    if model['outcome'] != real['outcome']:
        return {'field': 'outcome', 'model': model['outcome'], 'impl': real['outcome']}
    rm, mm = list(real['msgs']), list(model['msgs'])
    # PixelAlignedDataChangedMessage belongs to the link manager (not modelled; the oracle checks it against the change)
    rm = [x for x in rm if x[0] != 12]
    if tainted:
        rm = [x for x in rm if x[0] != 9]
        mm = [x for x in mm if x[0] != 9]
    if op[0] == 'updfrom':
        rm, mm = canon_uvfd(rm), canon_uvfd(mm)
    if rm != mm:
        return {'field': 'messages', 'model': mm, 'impl': rm}
    for f in ('shape', 'comps', 'pixel', 'world', 'coords', 'clinks', 'labels', 'dlabel'):
        a, b = real['snap'][f], model['snap'][f]
        if tainted and f == 'clinks':
            continue      # stale coordinate links (F-C03, owned by C03) / links to removed coordinate components
        if tainted and f == 'comps':
            # inputs of derived links are compared only while no internal link dangles (F-C14a on an unrepaired tree)
            a = [[k, c, sh, [] if k == 2 else ex] for k, c, sh, ex in a]
            b = [[k, c, sh, [] if k == 2 else ex] for k, c, sh, ex in b]
        if a != b:
            return {'field': f, 'model': b, 'impl': a}
    if model['snap']['stuck']:
        return {'field': 'stuck', 'model': 1, 'impl': 0}
    if not tainted:
        for f in ('ext', 'finds', 'findc'):
            if real['snap'][f] != model['snap'][f]:
                return {'field': f, 'model': model['snap'][f], 'impl': real['snap'][f]}
    return None


# ------------------------------------------------------------------ running cases
FINDS = [0, 1, 2, 3, 4, 5, 1000, 1001, 1010, 2000, 2001, 2100, 2101]
POOL = [(1, 5), (2, 6), (3, 0), (4, 5)]


def run_real(case, finds=FINDS):
    """-> (steps, executor); steps[i] for ops[i]; raises Unknown if an op refers to an id that does not exist"""
    ex = Exec(case['mode'], case['coords'], case['pool'])
    init = ex.snapshot(finds)
    steps = []
    for op in case['ops']:
        steps.append(ex.step(op, finds))
    return init, steps, ex


GEN_OPS = ('remove', 'reorder', 'updid', 'updcomps')
GEN_STATS = {'cases': 0, 'ops': 0}


def evaluate(R, cases, stream, model=True, count=True, done=None):
    """run cases on implementation (+ model); report failures; returns list of (case, kind) failures.
    done: results of the implementation runs when the generator has already executed the case"""
    reals = []
    lines = []
    for j, case in enumerate(cases):
        if done is not None:
            reals.append(done[j])
        else:
            init, steps, ex = run_real(case)
            reals.append((init, steps))
        if model:
            lines.append(enc_case(case, FINDS))
    outs = R.model(lines) if model else [None] * len(cases)
    failures = []
    # the same cases through the code generated from data.py (run_case tag 2), when they have a translated call
    gen_cases = [j for j, case in enumerate(cases) if model and any(op[0] in GEN_OPS for op in case['ops'])]
    gouts = R.model([enc_case(cases[j], FINDS, tag_=2) for j in gen_cases]) if gen_cases else []
    GEN_STATS['cases'] += len(gen_cases)
    passes = [(case, real, o, False) for case, real, o in zip(cases, reals, outs)]
    passes += [(cases[j], reals[j], go, True) for j, go in zip(gen_cases, gouts)]
    for case, (init, steps), o, is_gen in passes:
        if is_gen:
            GEN_STATS['ops'] += sum(1 for op in case['ops'] if op[0] in GEN_OPS)
            diff = None
            if is_err(o) or len(kids(o)) - 1 != len(steps):
                diff = {'step': 0, 'field': 'decode', 'generated': True}
            else:
                for i, (s, mt) in enumerate(zip(steps, kids(o)[1:])):
                    dd = compare(case['ops'][i], s, dec_step(mt), s['tainted'])
                    if dd is not None:
                        dd.update(step=i, op=case['ops'][i], generated=True)
                        diff = dd
                        break
            if diff is not None:
                failures.append((case, 'correspondence', diff.get('step', 0), diff, None))
            continue
        any_msg = any(s['msgs'] for s in steps)
        changed = len(steps) > 0 and steps[-1]['snap'] != init
        if count:
            R.count((case['mode'], repr(case['coords']), repr(case['ops'])), nontrivial=bool(any_msg or changed), stream=stream,
                    length=min(len(case['ops']), 30) // 5 * 5 if len(case['ops']) > 4 else len(case['ops']),
                    mode=['no hub', 'hub only', 'in collection'][case['mode']])
            for op, s in zip(case['ops'], steps):
                R.hist['op_kind'][op[0]] += 1
                R.hist['outcome'][s['outcome']] += 1
                if s['tainted']:
                    R.hist['ext_comparison']['suspended (dangling internal link)'] += 1
                else:
                    R.hist['ext_comparison']['compared'] += 1
        for i, s in enumerate(steps):
            if s['oracle']:
                what, key = s['oracle'][0]
                failures.append((case, 'oracle', i, {'step': i, 'op': case['ops'][i], 'why': [w for w, _ in s['oracle']][:4]}, key))
                break
        if model:
            if is_err(o):
                failures.append((case, 'correspondence', 0, {'model': 'wire error %r' % (err_code(o),)}, None))
                continue
            mk = kids(o)
            minit = dec_state(mk[0])
            diff = None
            for f in ('shape', 'comps', 'pixel', 'world', 'coords', 'ext', 'finds'):
                if minit[f] != init[f]:
                    diff = {'step': -1, 'field': f, 'model': minit[f], 'impl': init[f]}
            if diff is None:
                if len(mk) - 1 != len(steps):
                    diff = {'step': len(mk) - 1, 'field': 'decode', 'model': 'trace of %d steps' % (len(mk) - 1), 'impl': len(steps)}
                else:
                    for i, (s, mt) in enumerate(zip(steps, mk[1:])):
                        ms = dec_step(mt)
                        dd = compare(case['ops'][i], s, ms, s['tainted'])
                        if dd is not None:
                            dd['step'] = i
                            dd['op'] = case['ops'][i]
                            diff = dd
                            break
            if diff is not None:
                failures.append((case, 'correspondence', diff.get('step', 0), diff, None))
    return failures


def shrink(R, case, kind, key, model=True):
    """greedy removal of operations while the same kind of failure persists"""
    class Quiet(object):
        hist = R.hist

        def model(self, lines):
            return R.model(lines)

        def count(self, *a, **k):
            pass

    def fails(c):
        try:
            if model:      # candidates must stay inside the modelled domain
                ex = Exec(c['mode'], c['coords'], c['pool'])
                for op in c['ops']:
                    ex.check_refs(op)
                    if not ex.in_model_domain(op):
                        return None
                    ex.step(op, [])
            fl = evaluate(Quiet(), [c], 'shrink', model=model, count=False)
        except Unknown:
            return None
        except Exception:
            return None
        for f in fl:
            if f[1] == kind and f[4] == key:
                return f
        return None
    best = case
    bestf = fails(case)
    if bestf is None:
        return case, None
    # cut the tail after the failing step first
    cut = dict(best, ops=best['ops'][:bestf[2] + 1])
    f = fails(cut)
    if f is not None:
        best, bestf = cut, f
    budget = 60
    progress = True
    while progress and budget > 0:
        progress = False
        for i in reversed(range(len(best['ops']))):
            budget -= 1
            if budget <= 0:
                break
            cand = dict(best, ops=best['ops'][:i] + best['ops'][i + 1:])
            f = fails(cand)
            if f is not None:
                best, bestf = cand, f
                progress = True
    return best, bestf


def report(R, failures, model=True):
    seen = set()
    for case, kind, step, detail, key in failures:
        sig = (kind, key, repr(detail.get('why', detail.get('field')))[:80])
        if sig in seen or len(seen) > 6:
            continue
        seen.add(sig)
        small, f = shrink(R, case, kind, key, model=model)
        if f is not None:
            case, detail = small, f[3]
        R.fail(kind, case, detail, key=('C17:' + key) if key else None)


# ------------------------------------------------------------------ generators
class Tracker(object):
    """a real dataset used only to resolve abstract choices into concrete operations"""

    def __init__(self, mode, coords, pool):
        self.ex = Exec(mode, coords, pool)
        self.mode, self.coords0 = mode, coords
        self.init = self.ex.snapshot(FINDS)
        self.steps = []
        self.ops = []
        self.ncoords = 10
        self.used_pool = set()

    def do(self, op):
        if not self.ex.in_model_domain(op):
            return False
        self.steps.append(self.ex.step(op, FINDS))
        self.ops.append(op)
        return True

    def case(self, **extra):
        c = {'mode': self.mode, 'coords': self.coords0, 'pool': POOL, 'ops': self.ops}
        c.update(extra)
        return c, (self.init, self.steps)

    # helpers on the current real state
    def ids(self, kinds):
        from glue.core.component import DerivedComponent, CoordinateComponent
        d = self.ex.d
        out = []
        for c in d.components:
            comp = d._components[c]
            k = 'd' if isinstance(comp, DerivedComponent) else 'c' if isinstance(comp, CoordinateComponent) else 'm'
            if k in kinds:
                out.append(self.ex.n(c))
        return out

    def shape(self):
        return list(self.ex.d.shape)

    def free_pool(self):
        d = self.ex.d
        inuse = set(id(c) for c in list(d.components) + list(d.pixel_component_ids) + list(d._world_component_ids))
        return [p for p in self.ex.pool if id(self.ex.objs[p]) not in inuse]

    def new_coords(self, kind, nd):
        self.ncoords += 1
        return [self.ncoords, kind, nd]

    def aligned_source(self, shape, mains, share_coords=False, dl=1):
        d = self.ex.d
        co = None
        if d.coords is not None:
            spec = self.ex.coords_spec[self.ex.coords_id(d.coords)]
            co = list(spec) if share_coords else self.new_coords(spec[1], spec[2])
        return ['updfrom', list(shape), list(mains), co, dl]


def abstract_alphabet():
    """name -> function(Tracker) -> concrete op or None (not applicable)"""
    A = {}

    def default_shape(t):
        return t.shape() if len(t.ex.d.components) else [2]
    A['add_a'] = lambda t: ['addnew', 0, default_shape(t)]
    A['add_b_badshape'] = lambda t: ['addnew', 1, [3] if default_shape(t) != [3] else [2]]
    A['add_derived'] = lambda t: ['addder', 1, [(t.ids('md') or t.ids('c') or [1])[-1]]]
    A['remove_first'] = lambda t: ['remove', (t.ids('md') or [2])[0]]
    A['remove_last'] = lambda t: ['remove', (t.ids('md') or [2])[-1]]
    A['reorder_rev'] = lambda t: ['reorder', list(reversed(t.ids('mdc')))]
    A['reorder_bad'] = lambda t: ['reorder', t.ids('mdc')[:-1] if t.ids('mdc') else [1]]
    A['reorder_dup'] = lambda t: (['reorder', t.ids('mdc')[:-1] + [t.ids('mdc')[0]]] if len(t.ids('mdc')) >= 2 else None)
    A['update_id_first'] = lambda t: (['updid', (t.ids('md') or [3])[0], t.free_pool()[0]] if t.free_pool() else None)
    A['update_id_pixel'] = lambda t: (['updid', (t.ex.snapshot([])['pixel'] or [3])[0], t.free_pool()[-1]] if t.free_pool() else None)
    A['rename_first_b'] = lambda t: ['rename', (t.ids('md') or [1])[0], 1]
    A['coords_toggle'] = lambda t: ['coords', None if t.ex.d.coords is not None else t.new_coords(0, max(len(t.shape()), 1))]
    A['update_values'] = lambda t: ['updcomps', [[(t.ids('m') or [1])[0], t.shape() or [2]]]]
    A['update_values_bad'] = lambda t: ['updcomps', [[(t.ids('m') or [1])[0], [5]]]]
    A['refresh'] = lambda t: t.aligned_source([3] if t.shape() else [], [0, 2] if t.shape() else [], dl=1)
    A['join_leave'] = lambda t: ['leave'] if t.ex.d in t.ex.dc else ['join']
    A['add_at_pool'] = lambda t: (['addat', t.free_pool()[0], default_shape(t)] if t.free_pool() else None)
    return A


CORE = ['add_a', 'add_derived', 'remove_first', 'reorder_rev', 'update_id_first', 'rename_first_b', 'coords_toggle', 'refresh']


def stream_exhaustive(R):
    A = abstract_alphabet()
    names = sorted(A)
    plan = []
    full_len = R.pick(3, 4)
    side_len = R.pick(2, 3)
    for mode, upto in ((2, full_len), (0, side_len), (1, side_len)):
        for n in range(1, upto + 1):
            for seq in itertools.product(names, repeat=n):
                plan.append((mode, None, seq))
    if R.quick():
        for seq in itertools.product(CORE, repeat=4):
            plan.append((2, None, seq))
    # datasets created with coordinates (core alphabet, length <= 3)
    for seq_len in (1, 2, 3):
        for seq in itertools.product(CORE, repeat=seq_len):
            plan.append((2, [1, 0, 1], seq))
    cases = []
    done = []
    seen = set()
    for mode, coords, seq in plan:
        t = Tracker(mode, coords, POOL)
        for nm in seq:
            op = A[nm](t)
            if op is None:
                continue
            t.do(op)
        key = (mode, repr(coords), repr(t.ops))
        if key in seen:
            continue
        seen.add(key)
        c, res = t.case(abstract=list(seq))
        cases.append(c)
        done.append(res)
    fl = []
    for i in range(0, len(cases), 4000):
        fl += evaluate(R, cases[i:i + 4000], 'exhaustive', done=done[i:i + 4000])
    report(R, fl)
    R.sample({'stream': 'exhaustive', 'case': cases[len(cases) // 2]})
    R.stream('exhaustive', cases=len(cases), planned=len(plan), exhaustive=True,
             bound='every sequence of 1..%d abstract operations over %d names (%s) inside a collection and of 1..%d without hub / hub only%s, '
                   'resolved against the current state; plus sequences <= 3 over the core names on a dataset created with coordinates'
                   % (full_len, len(names), ', '.join(names), side_len,
                      '; plus length 4 over the 8 core names inside a collection' if R.quick() else ''))


def random_case(R, i):
    rng = R.subrng('random', i)
    mode = rng.choice([0, 1, 2, 2, 2])
    nd = rng.choice([1, 1, 2])
    coords = None
    if rng.random() < 0.3:
        coords = [1, rng.choice([0, 1]), nd]
    t = Tracker(mode, coords, POOL)
    base = [rng.choice([2, 3]) for _ in range(nd)]
    n = rng.randint(3, R.pick(30, 30))
    allow_coord_removal = rng.random() < 0.08
    for _ in range(n):
        sh = t.shape() if len(t.ex.d.components) else base
        r = rng.random()
        op = None
        md = t.ids('md')
        m = t.ids('m')
        allc = t.ids('mdc')
        if r < 0.16 or not allc:
            bad = rng.random() < 0.12
            op = ['addnew', rng.choice([0, 1, 2, 4]), ([x + 1 for x in sh] if bad else sh)]
        elif r < 0.26 and allc:
            k = rng.choice([1, 1, 2, 3])
            src = [rng.choice(allc) for _ in range(k)]
            if rng.random() < 0.08:
                src = src + [rng.choice(t.ex.pool)]
            op = ['addder', rng.choice([3, 4, 2]), src]
        elif r < 0.38:
            if allow_coord_removal and rng.random() < 0.3:
                op = ['remove', rng.choice(allc)]
            elif md and rng.random() < 0.85:
                op = ['remove', rng.choice(md)]
            else:
                op = ['remove', rng.choice(t.ex.pool)]
        elif r < 0.46:
            perm = list(allc)
            rng.shuffle(perm)
            q = rng.random()
            if q < 0.1 and perm:
                perm = perm[:-1]
            elif q < 0.2 and perm:
                perm[0] = perm[-1]
            elif q < 0.3:
                perm = list(allc)
            op = ['reorder', perm]
        elif r < 0.56:
            fp = t.free_pool()
            if fp:
                old = rng.choice(allc) if rng.random() < 0.85 else rng.choice(t.ex.pool)
                new = rng.choice(fp)
                if rng.random() < 0.05:
                    new = old
                op = ['updid', old, new]
        elif r < 0.64:
            tgt = rng.choice(allc) if rng.random() < 0.8 else rng.choice(t.ex.pool)
            op = ['rename', tgt, rng.choice([0, 1, 2, 3, 6])]
        elif r < 0.74:
            if t.ex.d.coords is not None and rng.random() < 0.4:
                op = ['coords', None]
            elif t.ex.d.coords is not None and rng.random() < 0.2:
                op = ['coords', list(t.ex.coords_spec[t.ex.coords_id(t.ex.d.coords)])]
            else:
                op = ['coords', t.new_coords(rng.choice([0, 1]), len(sh))]
        elif r < 0.82 and m:
            ents = [[rng.choice(m), sh] for _ in range(rng.choice([1, 1, 2]))]
            q = rng.random()
            if q < 0.1:
                ents[-1][1] = [x + 2 for x in sh]
            elif q < 0.2:
                ents[-1][0] = rng.choice(t.ex.pool)
            if len(set(e[0] for e in ents)) == len(ents):
                op = ['updcomps', ents]
        elif r < 0.90 and allc:
            labels = [c.label for c in t.ex.d.components]
            mains = rng.sample([0, 1, 2, 4, 6], rng.randint(1, 3))
            if rng.random() < 0.06:
                mains = mains + [mains[0]]
            newsh = [rng.choice([2, 3, 4]) for _ in sh]
            op = t.aligned_source(newsh, mains, share_coords=rng.random() < 0.3, dl=rng.choice([0, 1, 2]))
        elif r < 0.95:
            op = ['leave'] if t.ex.d in t.ex.dc else ['join']
        else:
            fp = t.free_pool()
            if fp and rng.random() < 0.7:
                op = ['addat', rng.choice(fp), sh]
            elif m:
                op = ['addat', rng.choice(m), sh if rng.random() < 0.8 else [x + 1 for x in sh]]
        if op is None:
            continue
        t.do(op)
    return t.case(sub=i)


def stream_random(R):
    n = R.pick(350, 6000)
    both = [random_case(R, i) for i in range(n)]
    cases = [c for c, _ in both]
    done = [r for _, r in both]
    fl = []
    for i in range(0, len(cases), 2000):
        fl += evaluate(R, cases[i:i + 2000], 'random', done=done[i:i + 2000])
    report(R, fl)
    R.sample({'stream': 'random', 'case': cases[0]})
    R.stream('random', cases=n, exhaustive=False,
             bound='seeded sequences of 3..30 calls on 1-d and 2-d datasets, ~12% invalid arguments, 8% of the sequences may remove coordinate components')


def stream_known(R):
    """oracle-only: update_values_from_data between datasets whose coordinate attributes differ (outside the model)"""
    base = [['addnew', 0, [3]], ['addnew', 1, [3]]]
    cases = [
        {'name': 'ndim-change', 'coords': None, 'ops': base + [['updfrom', [2, 2], [0], None, 1]]},
        {'name': 'coords-only-in-source', 'coords': None, 'ops': base + [['updfrom', [4], [0], [21, 0, 1], 1]]},
        {'name': 'renamed-pixel', 'coords': None, 'ops': base + [['rename', 100, 5], ['updfrom', [4], [0], None, 1]]},
        {'name': 'empty-source', 'coords': None, 'ops': base + [['updfrom', [], [], None, 1]]},
        {'name': 'empty-target', 'coords': None, 'ops': [['updfrom', [4], [0], None, 1]]},
        {'name': 'empty-target-then-add', 'coords': None, 'ops': [['updfrom', [4], [0], None, 1], ['addnew', 0, [2]]]},
        {'name': 'world-names-differ', 'coords': [20, 0, 1], 'ops': base + [['updfrom', [4], [0], [22, 1, 1], 1]]},
    ]
    fl = []
    for mode in (0, 2):
        cs = [{'mode': mode, 'coords': c['coords'], 'pool': POOL, 'ops': c['ops'], 'name': c['name']} for c in cases]
        fl += evaluate(R, cs, 'known-oracle-only', model=False)
    report(R, fl, model=False)
    R.stream('known-oracle-only', cases=2 * len(cases), exhaustive=False,
             bound='7 hand-written histories x 2 hub modes: update_values_from_data with differing coordinate attribute names / empty target')


def stream_malformed(R):
    """list-taking calls with malformed arguments, small-scope exhaustive: every list over the existing ids and one foreign
    id for reorder_components (permutations, right-length lists with duplicates, wrong lengths, foreign ids), mappings /
    input lists with foreign ids or wrong shapes for update_components / add_component(link).  Every rejected call must
    leave the whole structural snapshot unchanged and log nothing (oracle), and the model must agree on accept / reject."""
    bases = [
        ('one', 2, None, [['addnew', 0, [2]]]),
        ('two', 2, None, [['addnew', 0, [2]], ['addnew', 1, [2]]]),
        ('two-nohub', 0, None, [['addnew', 0, [2]], ['addnew', 1, [2]]]),
        ('2d', 2, None, [['addnew', 0, [2, 2]]]),
        ('coords+derived', 2, [1, 0, 1], [['addnew', 0, [2]], ['addnew', 1, [2]], ['addder', 3, [102, 103]]]),
    ]
    foreign = 1
    cases = []
    rng = R.subrng('malformed')
    for name, mode, coords, ops in bases:
        t = Tracker(mode, coords, POOL)
        for op in ops:
            t.do(op)
        ids = t.ids('mdc')
        n = len(ids)
        symbols = ids + [foreign]
        lists = []
        if n <= 3:
            for ln in range(max(1, n - 1), n + 2):
                lists += [list(x) for x in itertools.product(symbols, repeat=ln)]
        else:
            lists += [list(x) for x in itertools.permutations(ids)]
            dups = []
            for i in range(n):          # one id left out, another one repeated, at every position
                for j in range(n):
                    if i != j:
                        base = [x for x in ids if x != ids[i]]
                        for pos in range(n):
                            dups.append(base[:pos] + [ids[j]] + base[pos:])
            lists += dups
            lists += [ids[:-1], ids + [ids[0]], ids + [foreign], ids[:-1] + [foreign], []]
            if R.quick() and len(lists) > 260:
                lists = rng.sample(lists, 260)
        for l in lists:
            cases.append({'mode': mode, 'coords': coords, 'pool': POOL, 'ops': list(t.ops) + [['reorder', l]], 'base': name})
        # update_components / add_component(link) with lists that contain a foreign id or a wrong shape at each position
        m = t.ids('m')
        sh = t.shape()
        bad_sh = [x + 1 for x in sh]
        for ents in ([[m[0], sh]], [[m[0], bad_sh]], [[foreign, sh]], [[m[0], sh], [foreign, sh]], [[foreign, sh], [m[0], sh]],
                     [[m[0], sh], [m[-1], bad_sh]] if len(m) > 1 else [[m[0], bad_sh]]):
            if len(set(e[0] for e in ents)) == len(ents):
                cases.append({'mode': mode, 'coords': coords, 'pool': POOL, 'ops': list(t.ops) + [['updcomps', ents]], 'base': name})
        # (an input-less link, BinaryComponentLink(1, 2, op), is a degenerate object the operators cannot build: the link manager
        #  makes it derivable in every dataset of the collection; not generated)
        for src in ([ids[0], foreign], [foreign], [foreign, ids[-1]], [ids[-1], ids[-1]]):
            cases.append({'mode': mode, 'coords': coords, 'pool': POOL, 'ops': list(t.ops) + [['addder', 3, src]], 'base': name})
    fl = []
    for i in range(0, len(cases), 2000):
        fl += evaluate(R, cases[i:i + 2000], 'malformed')
    report(R, fl)
    R.stream('malformed', cases=len(cases), exhaustive=True,
             bound='5 base datasets; reorder_components with every list of length n-1..n+1 over the existing ids and one foreign id (n <= 3), '
                   'or every permutation, every right-length list with one id left out and another repeated at every position, and wrong-length / '
                   'foreign-id lists (n = 5); update_components mappings and add_component(link) input lists with a foreign id / wrong shape at each position')


def run(R):
    label_tables()
    R.rule = ('a case is a concrete sequence of mutation calls (ids by number) on one Data object in one hub mode; non-trivial when '
              'it changes the structure or produces at least one message; distinct = distinct (mode, coordinates, concrete operation list)')
    stream_known(R)
    stream_malformed(R)
    stream_exhaustive(R)
    stream_random(R)
    R.stream('generated-code', cases=GEN_STATS['cases'], exhaustive=True, translated_calls=GEN_STATS['ops'],
             bound='every modelled case of the streams above that has a remove_component / reorder_components / update_id / '
                   'update_components call, re-run with these calls taken from coq/gen/Gen_datamut.v (translated from data.py) instead of the '
                   'hand-written model; outcome, messages and the whole structure compared with the implementation after every step')


def replay(R, case):
    label_tables()
    out = {'case': case}
    init, steps, ex = run_real(case)
    out['implementation'] = [{'op': o, 'outcome': s['outcome'], 'messages': s['msgs'], 'components': s['snap']['comps'],
                              'pixel': s['snap']['pixel'], 'world': s['snap']['world'], 'shape': s['snap']['shape']}
                             for o, s in zip(case['ops'], steps)]
    out['oracle'] = [{'step': i, 'why': [w for w, _ in s['oracle']], 'key': s['oracle'][0][1]} for i, s in enumerate(steps) if s['oracle']]
    out['violates'] = bool(out['oracle'])
    if R.model_available and not any(s.get('misaligned') for s in steps):
        o = R.model([enc_case(case, FINDS)])[0]
        if not is_err(o):
            mk = kids(o)
            diffs = []
            for i, (s, mt) in enumerate(zip(steps, mk[1:])):
                dd = compare(case['ops'][i], s, dec_step(mt), s['tainted'])
                if dd is not None:
                    dd['step'] = i
                    diffs.append(dd)
                    break
            out['model_differences'] = diffs
    return out
