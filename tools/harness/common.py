"""
Shared harness code: wire encoding, model driver, run bookkeeping, evidence.

A property module  tools/harness/cNN.py  defines

    PROP        = 'CNN'
    GENERATORS  = ['gen_array', ...]        # tools/gen/<name>.py run before the proofs (may be [])
    TRUSTED     = [...]                     # strings added to the evidence's trusted_base
    def run(R): ...                         # R : Run ; generate cases, run implementation + model + oracle
    def replay(R, case): ...                # optional: re-run one stored case, return a dict of results

and reports through R:
    R.count(case_key, nontrivial, kind=...) every explored case
    R.fail(kind, case, detail, key=None)    kind in 'oracle' | 'correspondence'
    R.model(list_of_wire_strings)           -> list of parsed trees (the extracted Coq model)
"""
import collections
import hashlib
import json
import os
import random
import subprocess
import sys
import time

VERIF = os.path.dirname(os.path.dirname(os.path.dirname(os.path.abspath(__file__))))
REPO = os.environ.get('GLUE_REPO', '/repo')


# ------------------------------------------------------------------ wire
def enc(t):
    """python -> S-expression text.  int -> leaf; (tag, [kids]) or (tag, kid, kid...) -> node"""
    if isinstance(t, bool):
        return '1' if t else '0'
    if isinstance(t, int):
        return str(int(t))
    if hasattr(t, 'item') and not isinstance(t, (tuple, list)):
        return str(int(t))
    tag = t[0]
    kids = t[1] if (len(t) == 2 and isinstance(t[1], list)) else t[1:]
    if len(kids) == 0:
        return '(%d)' % int(tag)
    return '(%d %s)' % (int(tag), ' '.join(enc(k) for k in kids))


def Z(seq):
    return (0, [int(x) for x in seq])


def B(seq):
    return (0, [1 if x else 0 for x in seq])


def opt(v):
    return (0, []) if v is None else (1, [int(v)])


def parse(s):
    """S-expression text -> nested (tag, [kids]); a leaf n is (n, [])"""
    s = s.strip()
    pos = 0
    n = len(s)

    def rd():
        nonlocal pos
        while pos < n and s[pos] == ' ':
            pos += 1
        if s[pos] == '(':
            pos += 1
            st = pos
            while pos < n and (s[pos] == '-' or s[pos].isdigit()):
                pos += 1
            v = int(s[st:pos])
            kids = []
            while True:
                while pos < n and s[pos] == ' ':
                    pos += 1
                if s[pos] == ')':
                    pos += 1
                    break
                kids.append(rd())
            return (v, kids)
        st = pos
        while pos < n and (s[pos] == '-' or s[pos].isdigit()):
            pos += 1
        return (int(s[st:pos]), [])
    if s.startswith('PARSE-ERROR') or s.startswith('STACK-OVERFLOW'):
        return (-1000, [])
    return rd()


def tag(t):
    return t[0]


def kids(t):
    return t[1]


def to_zs(t):
    return [k[0] for k in t[1]]


def is_err(t):
    return t[0] == -1


def err_code(t):
    return t[1][0][0] if t[1] else None


# ------------------------------------------------------------------ run bookkeeping
class Run:
    def __init__(self, prop, tier, seed, scratch):
        self.prop = prop
        self.tier = tier
        self.seed = seed
        self.scratch = scratch
        self.rng = random.Random(seed * 1000003 + sum(ord(c) for c in prop))
        self.evaluations = 0
        self._distinct = set()
        self.hist = collections.defaultdict(collections.Counter)
        self.samples = []
        self.failures = []
        self._fail_counts = {}
        self.notes = []
        self.rule = ''
        self.exhaustive = False
        self.streams = {}
        self.driver = os.path.join(VERIF, 'build', prop, 'driver')
        self.model_available = os.path.exists(self.driver)
        self.model_calls = 0
        self.max_failures = 100
        self.t0 = time.time()

    def quick(self):
        return self.tier == 'quick'

    def pick(self, quick, thorough):
        return quick if self.tier == 'quick' else thorough

    def subrng(self, *key):
        return random.Random(hashlib.sha256(repr((self.seed, self.prop) + key).encode()).hexdigest())

    def count(self, case_key, nontrivial=True, **hist):
        """register one explored case; case_key must be a canonical hashable description of the input"""
        self.evaluations += 1
        if nontrivial:
            self._distinct.add(hashlib.blake2b(repr(case_key).encode(), digest_size=10).digest())
        for k, v in hist.items():
            self.hist[k][str(v)] += 1

    def sample(self, case, every=None):
        if len(self.samples) < 6:
            self.samples.append(case)

    def fail(self, kind, case, detail, key=None):
        # the cap is per (kind, key) class so that many correspondence disagreements (or many instances of one
        # known finding) cannot starve a different oracle failure out of the list
        n = self._fail_counts.get((kind, key), 0)
        self._fail_counts[(kind, key)] = n + 1
        if n < self.max_failures:
            self.failures.append({'kind': kind, 'case': case, 'detail': detail, 'key': key})

    def note(self, s):
        self.notes.append(s)

    def stream(self, name, **info):
        self.streams[name] = info

    def model(self, lines, chunk=200000):
        """run wire lines through the extracted model; returns parsed trees"""
        if not self.model_available:
            raise RuntimeError('model driver not built: ' + self.driver)
        out = []
        for i in range(0, len(lines), chunk):
            part = lines[i:i + chunk]
            self.model_calls += len(part)
            p = subprocess.run(['bash', '-c', 'ulimit -s unlimited 2>/dev/null; exec "$0"', self.driver],
                               input=('\n'.join(part) + '\n').encode(), stdout=subprocess.PIPE, stderr=subprocess.PIPE)
            if p.returncode != 0:
                raise RuntimeError('model driver failed: ' + p.stderr.decode()[:500])
            res = p.stdout.decode().split('\n')
            if res and res[-1] == '':
                res.pop()
            if len(res) != len(part):
                raise RuntimeError('model driver returned %d lines for %d cases' % (len(res), len(part)))
            out.extend(parse(r) for r in res)
        return out

    @property
    def distinct_nontrivial(self):
        return len(self._distinct)


def jsonable(x):
    try:
        import numpy as np
    except Exception:  # pragma: no cover
        np = None
    if isinstance(x, dict):
        return {str(k): jsonable(v) for k, v in x.items()}
    if isinstance(x, (list, tuple, set, frozenset)):
        return [jsonable(v) for v in x]
    if np is not None:
        if isinstance(x, np.ndarray):
            return jsonable(x.tolist())
        if isinstance(x, np.generic):
            return jsonable(x.item())
    if isinstance(x, float):
        if x != x:
            return 'nan'
        if x in (float('inf'), float('-inf')):
            return 'inf' if x > 0 else '-inf'
        return x
    if isinstance(x, (int, str, bool)) or x is None:
        return x
    if isinstance(x, slice):
        return {'slice': [x.start, x.stop, x.step]}
    return repr(x)


def load_known(prop=None):
    """known findings live in /verif/known_findings/<Cxx>.json (one committed file per property; never written at run time)"""
    out = {'findings': [], 'fixed': []}
    d = os.path.join(VERIF, 'known_findings')
    if not os.path.isdir(d):
        return out
    for f in sorted(os.listdir(d)):
        if f.endswith('.json') and (prop is None or f == prop + '.json'):
            j = json.load(open(os.path.join(d, f)))
            out['findings'] += j.get('findings', [])
            out['fixed'] += j.get('fixed', [])
    return out
