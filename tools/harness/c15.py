"""C15 - world coordinates, their links and inverses agree with the coordinate object.

Implementation side: Data(coords=AffineCoordinates | IdentityCoordinates): data[world_cid, view],
data.coordinate_links[k].compute(data, view), coords.pixel_to_world_values / world_to_pixel_values,
pixel2world_single_axis / world2pixel_single_axis on broadcast inputs, dependent_axes.
Model side: coq/C15/Model.v (exact, over Q).  Oracle: the matrix applied directly to the pixel grid
with `fractions`, then the view applied by numpy; tolerance 1e-9.
"""
import itertools
from fractions import Fraction as F

import numpy as np

from harness.common import enc, Z, to_zs, is_err, err_code, kids, tag

PROP = 'C15'
GENERATORS = ['gen_coordcomp']
TRUSTED = [
    'hand model coq/C15/Model.v of AffineCoordinates/IdentityCoordinates, dependent_axes, pixel2world_single_axis, world2pixel_single_axis, '
    'CoordinateComponent._calculate and CoordinateComponentLink.using (as repaired by the fix: commits of wt-C15); tied by correspondence only',
    'numpy: resolution of a basic view entry to the list of selected indices (arange(n)[entry]), unbroadcast/broadcast_to/meshgrid being value-preserving '
    '(C20), float matmul being within 1e-9 of the exact rational value on the small integer/dyadic inputs generated',
    'np.linalg.inv: the model receives the exact inverse computed with fractions; the theorems take Minv*M = I and M*Minv = I as hypotheses',
]
ASSUMPTIONS = [
    'coordinate classes covered: IdentityCoordinates and AffineCoordinates in 1-3 dimensions (astropy WCS is an external C library and is not modelled)',
    'views covered by the model: integers, slices (any step), shorter tuples, bare entries, Ellipsis/None, one list entry, tuples of index arrays; '
    'boolean masks and a bare ndarray view belong to C04 (F-C04a)',
    'floating point: a value is compared with tolerance 1e-9 x (sum of |coefficient| x extent of the inputs + |offset|) of the row that produces it, '
    'i.e. relative to the largest quantity entering its float computation (entries from 2^-40 to 2^30 are generated)',
]
TOL = 1e-9


_ncorr = {}


def corr_fail(R, case, detail):
    """at most 20 correspondence failures per stream, so that the shared failure list keeps room for oracle failures"""
    st = case.get('stream')
    _ncorr[st] = _ncorr.get(st, 0) + 1
    if _ncorr[st] <= 20:
        R.fail('correspondence', case, detail)


def oracle_fail(R, case, detail, key=None):
    """at most 30 recorded oracle failures per informative key (all of them are counted in the histogram)"""
    k = ('oracle', key)
    _ncorr[k] = _ncorr.get(k, 0) + 1
    R.hist['oracle_failure_class'][str(key)] += 1
    if _ncorr[k] <= 30:
        R.fail('oracle', case, detail, key=key)


# ------------------------------------------------------------------ exact linear algebra
def finv(M):
    n = len(M)
    A = [[F(x) for x in row] + [F(int(i == j)) for j in range(n)] for i, row in enumerate(M)]
    for c in range(n):
        p = next((r for r in range(c, n) if A[r][c] != 0), None)
        if p is None:
            return None
        A[c], A[p] = A[p], A[c]
        piv = A[c][c]
        A[c] = [x / piv for x in A[c]]
        for r in range(n):
            if r != c and A[r][c] != 0:
                f = A[r][c]
                A[r] = [x - f * y for x, y in zip(A[r], A[c])]
    return [row[n:] for row in A]


def spec_dim(spec):
    return spec[1] if spec[0] == 'id' else len(spec[1])


def spec_json(spec):
    if spec[0] == 'id':
        return ['id', spec[1]]
    return ['aff', [[str(F(x)) for x in r] for r in spec[1]], [str(F(x)) for x in spec[2]]]


def spec_from_json(j):
    if j[0] == 'id':
        return ('id', int(j[1]))
    return ('aff', tuple(tuple(F(x) for x in r) for r in j[1]), tuple(F(x) for x in j[2]))


def q_enc(x):
    x = F(x)
    return (0, [x.numerator, x.denominator])


def vec_enc(v):
    return (0, [q_enc(x) for x in v])


def mat_enc(M):
    return (0, [vec_enc(r) for r in M])


_cenc = {}


def coords_enc(spec):
    if spec not in _cenc:
        if spec[0] == 'id':
            _cenc[spec] = (0, [spec[1]])
        else:
            _, M, t = spec
            Mi = finv(M)
            ti = [-sum(Mi[i][j] * t[j] for j in range(len(M))) for i in range(len(M))]
            _cenc[spec] = (1, [mat_enc(M), vec_enc(t), mat_enc(Mi), vec_enc(ti)])
    return _cenc[spec]


def mk_coords(spec):
    from glue.core.coordinates import AffineCoordinates, IdentityCoordinates
    if spec[0] == 'id':
        return IdentityCoordinates(n_dim=spec[1])
    _, M, t = spec
    n = len(M)
    A = np.zeros((n + 1, n + 1))
    for i in range(n):
        for j in range(n):
            A[i, j] = float(M[i][j])
        A[i, n] = float(t[i])
    A[n, n] = 1
    return AffineCoordinates(A)


def mk_data(spec, shape, late=False):
    from glue.core import Data
    if late == 2:
        # the coordinate object is replaced: world attributes and links must follow the new one
        n = len(shape)
        other = ('aff', tuple(tuple(F(3 if i == n - 1 - j else (1 if i == j else 0)) for j in range(n)) for i in range(n)), tuple(F(5) for _ in range(n)))
        if n == 1 or (spec[0] == 'aff' and other[1] == spec[1]):
            other = ('id', n)
        d = Data(x=np.zeros(shape), coords=mk_coords(other))
        d.coords = mk_coords(spec)
    elif late:
        d = Data(x=np.zeros(shape))
        d.coords = mk_coords(spec)
    else:
        d = Data(x=np.zeros(shape), coords=mk_coords(spec))
    return d


def oracle_grids(spec, shape):
    """exact world value of every numpy axis at every pixel, and the pixel grids (float arrays)"""
    n = len(shape)
    idx = np.indices(shape)
    if spec[0] == 'id':
        return [idx[a].astype(float) for a in range(n)], [idx[a].astype(float) for a in range(n)]
    _, M, t = spec
    out = []
    obj = [idx[a].astype(object) for a in range(n)]
    for a in range(n):
        k = n - 1 - a
        val = np.full(shape, F(t[k]), dtype=object)
        for j in range(n):
            if M[k][j] != 0:
                val = val + F(M[k][j]) * obj[n - 1 - j]
        out.append(np.array(val, dtype=float).reshape(shape))
    return out, [idx[a].astype(float) for a in range(n)]


def apply_exact(A, b, x):
    return [sum(F(A[k][j]) * F(x[j]) for j in range(len(x))) + F(b[k]) for k in range(len(A))]


# ------------------------------------------------------------------ views
def view_py(vj):
    """JSON form -> python view"""
    kind, ents = vj
    if kind == 'none':
        return None
    if kind == 'ellipsis':
        return Ellipsis

    def e(x):
        if isinstance(x, int):
            return x
        if x[0] == 's':
            return slice(x[1], x[2], x[3])
        if x[0] == 'l':
            return list(x[1])
        if x[0] == 'a':
            return np.array(x[1], dtype=int)
        raise ValueError(x)
    if kind == 'bare':
        return e(ents[0])
    return tuple(e(x) for x in ents)


def view_basic(vj):
    kind, ents = vj
    return kind in ('tuple', 'bare') and all(isinstance(x, int) or x[0] == 's' for x in ents)


def view_enc(vj, shape):
    """wire form of a basic view (ints raw, slices resolved by numpy)"""
    out = []
    for x, n in zip(vj[1], shape):
        if isinstance(x, int):
            out.append((1, [x]))
        else:
            out.append((2, list(range(n))[slice(x[1], x[2], x[3])]))
    return (0, out)


def axis_entries(n, rng=None):
    es = [['s', None, None, None], 0, n - 1, -1, ['s', 1, None, None], ['s', None, -1, None], ['s', None, None, 2],
          ['s', None, None, -1], ['s', 0, 0, None], ['s', n, None, None], ['s', -2, None, None], ['s', 1, None, -2]]
    return es


def random_view(rng, shape, allow_special=True):
    n = len(shape)
    r = rng.random()
    if allow_special and r < 0.05:
        return ['none', []]
    if allow_special and r < 0.10:
        return ['ellipsis', []]
    if allow_special and r < 0.17:
        k = rng.randrange(1, 4)
        return ['fancy', [['a', [rng.randrange(s) for _ in range(k)]] for s in shape]]
    if allow_special and r < 0.24 and n >= 2:
        # (a list entry on a 1-d dataset reaches _calculate as a bare list through join_component_view: F-C04a, owned by C04)
        ax = rng.randrange(n)
        ents = []
        for i, s in enumerate(shape):
            if i == ax:
                ents.append(['l', [rng.randrange(s) for _ in range(rng.randrange(1, 4))]])
            else:
                ents.append(rng.choice([['s', None, None, None], ['s', 1, None, None], rng.randrange(s)]))
        return ['tuple', ents]
    ln = rng.choice([n] * 4 + list(range(1, n + 1)))
    ents = [rng.choice(axis_entries(s)) for s in shape[:ln]]
    if ln == 1 and rng.random() < 0.4:
        return ['bare', ents]
    return ['tuple', ents]


# ------------------------------------------------------------------ one (spec, shape) with several views
def exc_name(e):
    return type(e).__name__


def close(a, b, tol=TOL):
    a = np.asarray(a, dtype=float)
    b = np.asarray(b, dtype=float)
    return a.shape == b.shape and bool(np.all(np.abs(a - b) <= tol))


def aff_scale(A, b, mags):
    """per output coordinate: sum_j |A[k][j]| * mags[j] + |b[k]|  = the size of the largest quantities that enter the float
    computation of that coordinate (its round-off is a small multiple of eps times this)"""
    return [sum(abs(F(A[k][j])) * F(mags[j]) for j in range(len(mags))) + abs(F(b[k])) for k in range(len(A))]


def spec_scales(spec, mags):
    """(forward, backward) scales in fits order for inputs bounded by mags (fits order); backward = the inverse applied to the forward range"""
    n = spec_dim(spec)
    if spec[0] == 'id':
        return [F(m) for m in mags], [F(m) for m in mags]
    _, M, t = spec
    fw = aff_scale(M, t, mags)
    Mi = finv(M)
    ti = [-sum(Mi[i][j] * t[j] for j in range(n)) for i in range(n)]
    return fw, aff_scale(Mi, ti, fw)


def view_tols(spec, shape):
    """tolerance per observation of one dataset: RTOL times the scale of the row times the extent of the grid (and never less than
    RTOL times the extent for pixel values), instead of an absolute 1e-9 which hides a wrong value of order 1e-10"""
    n = len(shape)
    mags = [shape[n - 1 - j] - 1 for j in range(n)]          # fits order
    fw, bw = spec_scales(spec, mags)
    out = {}
    for a in range(n):
        k = n - 1 - a
        out['world%d' % a] = out['link_p2w%d' % a] = TOL * float(fw[k])
        # pixel values are of order of the grid extent whatever the scales of the matrix; numpy's inverse is accurate normwise, not row by row
        out['link_w2p%d' % a] = TOL * float(max([bw[k], F(1)] + [F(m) for m in mags]))
    return out


def classify(spec, what, vj, detail):
    """informative key of an oracle failure (none of these is registered as a known finding: all three defects are repaired)"""
    if spec[0] == 'aff':
        M = spec[1]
        n = len(M)
        if isinstance(detail, dict) and detail.get('impl_exception') == 'IndexError' and detail.get('expected_size') == 0:
            return 'empty-view'
        if any(M[i][i] == 0 for i in range(n)):
            return 'permuted-axes'
        if (what.startswith('link_w2p') or what.startswith('w2p_single')) and any(M[i][j] != 0 for i in range(n) for j in range(n) if i != j):
            return 'sheared-inverse'
    elif isinstance(detail, dict) and detail.get('impl_exception') == 'IndexError' and detail.get('expected_size') == 0:
        return 'empty-view'
    return None


def observe(d, spec, shape, vj):
    """run the implementation: {name: array | ('exc', name)}"""
    n = len(shape)
    view = view_py(vj)
    out = {}
    links = list(d.coordinate_links)
    for a in range(n):
        try:
            if vj[0] == 'none':
                out['world%d' % a] = np.asarray(d[d.world_component_ids[a]])
            else:
                out['world%d' % a] = np.asarray(d[d.world_component_ids[a], view])
        except Exception as e:  # noqa
            out['world%d' % a] = ('exc', exc_name(e))
    if vj[0] != 'fancy':
        for a in range(n):
            for k, nm in ((0, 'link_p2w'), (1, 'link_w2p')):
                link = links[2 * a + k]
                try:
                    if k == 0 and a % 2 == 0 and vj[0] != 'none':
                        out['%s%d' % (nm, a)] = np.asarray(d[link, view])     # Data.__getitem__ route
                    else:
                        out['%s%d' % (nm, a)] = np.asarray(link.compute(d, view))
                except Exception as e:  # noqa
                    out['%s%d' % (nm, a)] = ('exc', exc_name(e))
    return out


def expected(spec, shape, vj, grids):
    """the property evaluated directly: {name: array | ('exc', 'IndexError')}"""
    n = len(shape)
    worlds, pix = grids
    view = view_py(vj)
    out = {}

    def ap(g):
        try:
            return g if view is None else g[view]
        except IndexError:
            return ('exc', 'IndexError')
    for a in range(n):
        out['world%d' % a] = ap(worlds[a])
        if vj[0] != 'fancy':
            out['link_p2w%d' % a] = ap(worlds[a])
            out['link_w2p%d' % a] = ap(pix[a])
    return out


def model_lines(spec, shape, vj):
    """wire lines for one (spec, shape, view) and how to read them back: list of (name, line, post)"""
    n = len(shape)
    ce = coords_enc(spec)
    res = []
    if view_basic(vj):
        ve = view_enc(vj, shape)
        for a in range(n):
            res.append(('world%d' % a, enc((2, [ce, Z(shape), ve, a])), None))
            res.append(('link_p2w%d' % a, enc((3, [ce, Z(shape), ve, a, 1])), None))
            res.append(('link_w2p%d' % a, enc((3, [ce, Z(shape), ve, a, 0])), None))
    elif vj[0] == 'fancy':
        arrs = [x[1] for x in vj[1]]            # numpy order
        ins = (0, [vec_enc(a) for a in arrs[::-1]])
        for a in range(n):
            res.append(('world%d' % a, enc((4, [ce, 1, n - 1 - a, ins])), 'fancy'))
    else:
        # not optimised by the code: full computation, then the view applied by numpy
        for a in range(n):
            res.append(('world%d' % a, enc((2, [ce, Z(shape), (0, []), a])), 'numpy-view'))
            res.append(('link_p2w%d' % a, enc((3, [ce, Z(shape), (0, []), a, 1])), 'numpy-view'))
            res.append(('link_w2p%d' % a, enc((3, [ce, Z(shape), (0, []), a, 0])), 'numpy-view'))
    return res


def dec_vals(t):
    """model result -> float array | ('exc', name)"""
    if is_err(t):
        return ('exc', {2: 'IndexError'}.get(err_code(t), 'model-error-%s' % err_code(t)))
    sh = to_zs(kids(t)[0])
    vals = [k[1][0][0] / k[1][1][0] for k in kids(kids(t)[1])]
    return np.array(vals, dtype=float).reshape(sh)


def same(x, y, tol=TOL):
    if isinstance(x, tuple) or isinstance(y, tuple):
        return isinstance(x, tuple) and isinstance(y, tuple) and x == y
    return close(x, y, tol)


def brief(x):
    if isinstance(x, tuple):
        return {'exception': x[1]}
    x = np.asarray(x)
    return {'shape': list(x.shape), 'values': [float('%.12g' % v) for v in np.asarray(x, dtype=float).ravel().tolist()[:24]]}


class Batch:
    """collects (case, implementation results, expected results, model lines); flushed through the model at the end of a stream"""

    def __init__(self, R, stream):
        self.R = R
        self.stream = stream
        self.items = []
        self.lines = []

    def add(self, case, spec, shape, vj, impl, exp, tols=None):
        ml = model_lines(spec, shape, vj)
        start = len(self.lines)
        self.lines += [l for _, l, _ in ml]
        self.items.append((case, spec, shape, vj, impl, exp, ml, start, tols or {}))

    def finish(self):
        R = self.R
        outs = R.model(self.lines) if self.lines else []
        for case, spec, shape, vj, impl, exp, ml, start, tols in self.items:
            view = view_py(vj)
            for off, (name, _, post) in enumerate(ml):
                m = dec_vals(outs[start + off])
                if post == 'numpy-view' and not isinstance(m, tuple):
                    try:
                        m = m if view is None else m[view]
                    except IndexError:
                        m = ('exc', 'IndexError')
                elif post == 'fancy' and not isinstance(m, tuple):
                    m = m.reshape(np.shape(vj[1][0][1]))
                if name in impl and not same(impl[name], m, tols.get(name, TOL)):
                    corr_fail(R, dict(case, observed=name), {'model': brief(m), 'impl': brief(impl[name])})


def check_views(R, batch, spec, shape, views, stream, late=False, kindname=''):
    """implementation vs oracle (immediately) and vs model (queued in batch) for one dataset and several views"""
    d = mk_data(spec, shape, late)
    grids = oracle_grids(spec, shape)
    tols = view_tols(spec, shape)
    nfail = 0
    for vj in views:
        case = {'stream': stream, 'coords': spec_json(spec), 'shape': list(shape), 'view': vj, 'late': late}
        impl = observe(d, spec, shape, vj)
        exp = expected(spec, shape, vj, grids)
        size = 0
        for name, e in exp.items():
            if not isinstance(e, tuple):
                size = max(size, np.size(e))
            if not same(impl[name], e, tols[name]):
                nfail += 1
                detail = {'observed': name, 'impl': brief(impl[name]), 'expected': brief(e), 'tolerance': tols[name]}
                if isinstance(impl[name], tuple):
                    detail['impl_exception'] = impl[name][1]
                    detail['expected_size'] = 0 if isinstance(e, tuple) else int(np.size(e))
                oracle_fail(R, dict(case, observed=name), detail, key=classify(spec, name, vj, detail))
        R.count((stream, spec, tuple(shape), repr(vj), late), nontrivial=size > 1 and spec_dim(spec) >= 1,
                stream=stream, ndim=len(shape), matrix_kind=kindname or matrix_kind(spec), view_kind=vj[0],
                result_size=min(size, 30))
        if batch is not None:
            batch.add(case, spec, shape, vj, impl, exp, tols)
    return nfail


def matrix_kind(spec):
    if spec[0] == 'id':
        return 'identity'
    M = spec[1]
    n = len(M)
    offd = [(i, j) for i in range(n) for j in range(n) if i != j and M[i][j] != 0]
    if not offd:
        return 'diagonal'
    if all(sum(1 for x in r if x != 0) == 1 for r in M):
        return 'permuted'
    if any(M[i][i] == 0 for i in range(n)):
        return 'coupled-zero-diagonal'
    if all(i < j for i, j in offd) or all(i > j for i, j in offd):
        return 'triangular'
    return 'coupled'


# ------------------------------------------------------------------ matrix families
def det(M):
    n = len(M)
    if n == 1:
        return F(M[0][0])
    if n == 2:
        return F(M[0][0]) * M[1][1] - F(M[0][1]) * M[1][0]
    return sum((-1) ** j * F(M[0][j]) * det([r[:j] + r[j + 1:] for r in M[1:]]) for j in range(n))


def all_matrices(n, entries):
    for flat in itertools.product(entries, repeat=n * n):
        M = tuple(tuple(flat[i * n:(i + 1) * n]) for i in range(n))
        if det([list(r) for r in M]) != 0:
            yield M


def random_unimodular(rng, n, steps=4):
    M = [[int(i == j) for j in range(n)] for i in range(n)]
    for _ in range(steps):
        op = rng.randrange(3)
        i, j = rng.randrange(n), rng.randrange(n)
        if op == 0 and i != j:
            c = rng.choice([-2, -1, 1, 2])
            M[i] = [a + c * b for a, b in zip(M[i], M[j])]
        elif op == 1 and i != j:
            M[i], M[j] = M[j], M[i]
        elif op == 2:
            M[i] = [-a for a in M[i]]
    return tuple(tuple(F(x) for x in r) for r in M)


def random_structured(rng, n):
    """diagonal / permuted / block / triangular / dense with dyadic or small integer entries"""
    kind = rng.choice(['diag', 'perm', 'block', 'tri', 'uni', 'uni'])
    vals = [F(1), F(-1), F(2), F(1, 2), F(3), F(-2), F(1, 4)]
    if kind == 'uni' or n == 1 and kind in ('block', 'tri'):
        M = random_unimodular(rng, n, rng.randrange(1, 6))
        s = [rng.choice(vals) for _ in range(n)]
        return tuple(tuple(s[i] * x for x in M[i]) for i in range(n))
    M = [[F(0)] * n for _ in range(n)]
    if kind == 'diag':
        for i in range(n):
            M[i][i] = rng.choice(vals)
    elif kind == 'perm':
        p = list(range(n))
        rng.shuffle(p)
        for i in range(n):
            M[i][p[i]] = rng.choice(vals)
    elif kind == 'tri':
        up = rng.random() < 0.5
        for i in range(n):
            M[i][i] = rng.choice(vals)
            for j in range(n):
                if (j > i if up else j < i) and rng.random() < 0.6:
                    M[i][j] = rng.choice(vals)
    else:   # block: two axes coupled (possibly through a permutation), the rest diagonal
        p = list(range(n))
        rng.shuffle(p)
        B = random_unimodular(rng, 2, 3) if n >= 2 else ((F(1),),)
        for a in range(min(2, n)):
            for b in range(min(2, n)):
                M[p[a]][p[b]] = B[a][b]
        q = p[2:]
        tgt = list(q)
        rng.shuffle(tgt)
        for a, b in zip(q, tgt):
            M[a][b] = rng.choice(vals)
    M = tuple(tuple(r) for r in M)
    if det([list(r) for r in M]) == 0:
        return random_structured(rng, n)
    return M


def dir_scale(spec, dcode, mags):
    """scale per output coordinate (fits order) of: 1 forward, 0 inverse applied to inputs bounded by mags, 2 round trip"""
    n = spec_dim(spec)
    if dcode == 1:
        return spec_scales(spec, mags)[0]
    # backward: np.linalg.inv is accurate relative to the largest entry of the inverse (normwise), so one scale for all coordinates
    if dcode == 2:
        sc = spec_scales(spec, mags)[1] + [F(m) for m in mags] + [F(1)]
    elif spec[0] == 'id':
        sc = [F(m) for m in mags]
    else:
        _, M, t = spec
        Mi = finv(M)
        ti = [-sum(Mi[i][j] * t[j] for j in range(n)) for i in range(n)]
        sc = aff_scale(Mi, ti, mags)
    return [max(sc)] * n


MAG_CLASSES = {'tiny': [-40, -34, -27], 'small': [-27, -20], 'tiny-small': [-40, -34, -27, -20], 'unit': [0, 1, -1], 'big': [20, 30]}


def random_magnitudes(rng, n):
    """(M, t): entries are +-2^e with e from one magnitude class per row (classes differ between the rows of one matrix: 2^-40 .. 2^30),
    pattern diagonal / permuted / coupled / triangular.  Within a row the exponents span at most 2^20 and the offset is a small integer
    multiple of the smallest entry of the row, so every world value is exactly representable in float64 and the smallest term of a row is
    far above 1e-9 times the largest one."""
    kind = rng.choice(['diag', 'diag', 'perm', 'coupled', 'coupled', 'tri'])
    rows = [rng.choice(list(MAG_CLASSES)) for _ in range(n)]

    def entry(k):
        return F(2) ** rng.choice(MAG_CLASSES[rows[k]]) * rng.choice([1, 1, -1])
    M = [[F(0)] * n for _ in range(n)]
    if kind == 'diag':
        for i in range(n):
            M[i][i] = entry(i)
    elif kind == 'perm':
        p = list(range(n))
        rng.shuffle(p)
        for i in range(n):
            M[i][p[i]] = entry(i)
    elif kind == 'tri':
        up = rng.random() < 0.5
        for i in range(n):
            M[i][i] = entry(i)
            for j in range(n):
                if (j > i if up else j < i) and rng.random() < 0.6:
                    M[i][j] = entry(i)
    else:
        p = list(range(n))
        rng.shuffle(p)
        for i in range(n):
            M[i][p[i]] = entry(i)
            for j in range(n):
                if j != p[i] and rng.random() < 0.5:
                    M[i][j] = entry(i)
    M = tuple(tuple(r) for r in M)
    if det([list(r) for r in M]) == 0:
        return random_magnitudes(rng, n)
    t = tuple(min(abs(x) for x in M[i] if x != 0) * rng.choice([0, 1, -3, 2000, -513]) for i in range(n))
    return M, t


def small_translation(rng, n):
    return tuple(rng.choice([F(0), F(1), F(-2), F(3), F(1, 2)]) for _ in range(n))


# ------------------------------------------------------------------ streams
def stream_dependent_axes(R):
    from glue.core.coordinate_helpers import dependent_axes

    class W:
        pass
    cases = []
    for n in (1, 2, 3):
        for flat in itertools.product([0, 1], repeat=n * n):
            cases.append((n, flat))
    rng = R.subrng('dep4')
    n4 = R.pick(1500, 20000)
    for _ in range(n4):
        cases.append((4, tuple(rng.randrange(2) for _ in range(16))))
    lines, idx = [], []
    for n, flat in cases:
        for ax in range(n):
            rows = [(0, list(flat[i * n:(i + 1) * n])) for i in range(n)]
            lines.append(enc((1, [(0, rows), ax])))
            idx.append((n, flat, ax))
    outs = R.model(lines)
    for (n, flat, ax), o in zip(idx, outs):
        w = W()
        w.axis_correlation_matrix = np.array(flat, dtype=bool).reshape((n, n))
        try:
            impl = [int(x) for x in dependent_axes(w, ax)]
        except Exception as e:  # noqa
            impl = exc_name(e)
        model = to_zs(o)
        R.count(('dep', n, flat, ax), nontrivial=impl != [ax], stream='dependent_axes', dep_size=len(impl) if isinstance(impl, list) else -1)
        if impl != model:
            corr_fail(R, {'stream': 'dependent_axes', 'n': n, 'matrix': list(flat), 'axis': ax}, {'model': model, 'impl': impl})
    R.stream('dependent_axes', cases=len(idx), exhaustive=True,
             bound='every boolean correlation matrix of size 1..3 and every axis; %d random 4x4 matrices' % n4)


def views_for(rng, shape, k, exhaustive=False):
    if exhaustive:
        per = [axis_entries(s) for s in shape]
        out = [['tuple', list(v)] for ln in range(1, len(shape) + 1) for v in itertools.product(*per[:ln])]
        out += [['bare', [e]] for e in per[0]] + [['none', []], ['ellipsis', []]]
        return out
    return [random_view(rng, shape) for _ in range(k)]


def stream_small(R):
    """exhaustive small scope: every invertible matrix over a small entry set, a few shapes, sampled views;
    plus every view of the catalogue on a few fixed matrices"""
    batch = Batch(R, 'small')
    rng = R.subrng('small')
    nd = 0
    fams = [(1, [F(1), F(-1), F(2), F(1, 2), F(3)]), (2, R.pick([-1, 0, 1, 2], [-2, -1, 0, 1, 2, F(1, 2)])),
            (3, R.pick([0, 1], [0, 1, -1]))]
    kv = R.pick(6, 10)
    for n, ents in fams:
        mats = list(all_matrices(n, ents))
        if n == 3 and not R.quick() and len(mats) > 3000:
            mats = rng.sample(mats, 3000)
            R.note('small stream: 3x3 matrices over {0,1,-1} sampled to 3000 of the invertible ones')
        for M in mats:
            t = small_translation(rng, n)
            shape = tuple(rng.choice([1, 2, 3, 4]) for _ in range(n))
            spec = ('aff', tuple(tuple(F(x) for x in r) for r in M), t)
            check_views(R, batch, spec, shape, views_for(rng, shape, kv), 'small', late=rng.choice([0, 0, 0, 0, 0, 0, 1, 2]))
            nd += 1
    for n in (1, 2, 3):
        for shape in ([(3,), (1,)], [(2, 3), (3, 1)], [(2, 3, 2)])[n - 1]:
            check_views(R, batch, ('id', n), shape, views_for(rng, shape, kv * 3), 'small')
            nd += 1
    # every catalogue view on fixed matrices (diagonal, swap, shear, cyclic permutation, block)
    fixed = [(((2,),), (3,)), (((0, 1), (1, 0)), (3, 2)), (((1, 1), (0, 1)), (2, 3)), (((1, 0), (2, 1)), (3, 3)),
             (((2, 0), (0, -1)), (2, 4))]
    if not R.quick():
        fixed += [(((0, 1, 0), (0, 0, 1), (1, 0, 0)), (2, 2, 3)), (((1, 1, 0), (0, 1, 1), (0, 0, 1)), (2, 3, 2)),
                  (((1, 1, 0), (1, 2, 0), (0, 0, 3)), (3, 2, 2))]
    else:
        fixed += [(((1, 1, 0), (0, 1, 1), (0, 0, 1)), (2, 2, 2))]
    nv = 0
    for M, shape in fixed:
        n = len(M)
        spec = ('aff', tuple(tuple(F(x) for x in r) for r in M), tuple(F(k + 1) for k in range(n)))
        vs = views_for(rng, shape, 0, exhaustive=True)
        if R.quick() and len(vs) > 400:
            vs = rng.sample(vs, 400)
        nv += len(vs)
        check_views(R, batch, spec, shape, vs, 'small')
        nd += 1
    batch.finish()
    R.stream('small', datasets=nd, exhaustive=True,
             bound='every invertible matrix with entries in %s (1-d), %s (2-d), %s (3-d), sizes 1..4 per axis, %d sampled views each; '
                   'the whole view catalogue (12 entries per axis, all tuple lengths, bare, None, Ellipsis: %d views) on %d fixed matrices'
                   % ([str(x) for x in fams[0][1]], [str(x) for x in fams[1][1]], [str(x) for x in fams[2][1]], kv, nv, len(fixed)))


def stream_random(R):
    batch = Batch(R, 'random')
    N = R.pick(700, 5000)
    for i in range(N):
        rng = R.subrng('random', i)
        n = rng.choice([1, 2, 2, 3, 3, 3])
        if rng.random() < 0.08:
            spec = ('id', n)
        else:
            spec = ('aff', random_structured(rng, n), small_translation(rng, n))
        shape = tuple(rng.choice([1, 2, 3, 4, 5]) for _ in range(n))
        views = [random_view(rng, shape) for _ in range(R.pick(5, 6))]
        nf = check_views(R, batch, spec, shape, views, 'random', late=rng.choice([0, 0, 0, 0, 1, 1, 2, 2]))
        if i < 3:
            R.sample({'coords': spec_json(spec), 'shape': list(shape), 'views': views})
    batch.finish()
    R.stream('random', datasets=N, exhaustive=False,
             bound='seeded: diagonal / permuted / block / triangular / unimodular x row scaling, entries from small integers and dyadics, 1-3 dims, sizes 1..5')


def stream_magnitudes(R):
    """matrices whose non-zero entries span 2^-40 .. 2^30 (a wavelength axis in metres next to a frequency axis in Hz): a coefficient is
    'non-zero' however small it is; every comparison is relative to the scale of the row"""
    batch = Batch(R, 'magnitudes')
    # physically motivated fixed cases with decimal (non-dyadic) entries: a wavelength axis in metres, alone and next to a position / frequency axis
    fixed = [(((F('2e-10'),),), (F('4e-7'),), (6,)),
             (((F('2e-10'), F(0)), (F(0), F('0.5'))), (F('4e-7'), F(10)), (3, 5)),
             (((F(0), F('3e-9')), (F('1.5e6'), F(0))), (F('5e-7'), F('1.4e9')), (4, 3)),
             (((F('2e-10'), F('1e-12'), F(0)), (F(0), F(1), F(0)), (F(0), F(0), F('2.5e8'))), (F('4e-7'), F(0), F('1e9')), (2, 3, 4))]
    rng = R.subrng('magnitudes-fixed')
    for M, t, shape in fixed:
        views = [['tuple', [['s', None, None, None]] * len(shape)], ['none', []], ['ellipsis', []]] + [random_view(rng, shape) for _ in range(6)]
        check_views(R, batch, ('aff', M, t), shape, views, 'magnitudes')
    N = R.pick(300, 1500)
    for i in range(N):
        rng = R.subrng('magnitudes', i)
        n = rng.choice([1, 1, 2, 2, 3, 3])
        M, t = random_magnitudes(rng, n)
        spec = ('aff', M, t)
        shape = tuple(rng.choice([2, 3, 4, 5]) for _ in range(n))
        views = [['tuple', [['s', None, None, None]] * n], ['none', []]] + [random_view(rng, shape) for _ in range(R.pick(3, 4))]
        check_views(R, batch, spec, shape, views, 'magnitudes', late=rng.choice([0, 0, 0, 1, 2]))
        if i < 2:
            R.sample({'coords': spec_json(spec), 'shape': list(shape), 'views': views[:3]})
    batch.finish()
    R.stream('magnitudes', datasets=N, exhaustive=False,
             bound='entries +-2^e, e from one class per row (tiny -40/-34/-27, small -27/-20, tiny-small, unit, big 20/30), diagonal / permuted / coupled / '
                   'triangular, 1-3 dims, sizes 2..5, offsets = small integer multiples of the smallest entry of the row; tolerance 1e-9 x row scale x extent')


LAYOUTS = ['C', 'F', 'T', 'perm', 'neg', 'neg-last', 'strided', 'strided-first']


def apply_layout(arr, name):
    """the same values and shape in another memory layout (Fortran order, transposed storage, negative strides, non-contiguous views)"""
    arr = np.array(arr, dtype=float)
    if arr.ndim == 0 or name == 'C':
        return np.ascontiguousarray(arr)
    if name == 'F':
        return np.asfortranarray(arr)
    if name == 'T':
        return np.ascontiguousarray(arr.T).T
    if name == 'perm':
        ax = list(range(arr.ndim))
        ax[0], ax[-1] = ax[-1], ax[0]
        if arr.ndim >= 3:
            ax[0], ax[1] = ax[1], ax[0]
        inv = np.argsort(ax)
        return np.ascontiguousarray(arr.transpose(ax)).transpose(inv)
    if name == 'neg':
        return np.ascontiguousarray(arr[::-1])[::-1]
    if name == 'neg-last':
        return np.asfortranarray(arr[..., ::-1])[..., ::-1]
    if name == 'strided':
        big = np.zeros(arr.shape[:-1] + (2 * arr.shape[-1],))
        big[..., ::2] = arr
        return big[..., ::2]
    if name == 'strided-first':
        big = np.zeros((3 * arr.shape[0],) + arr.shape[1:], order='F')
        big[1::3] = arr
        return big[1::3]
    raise ValueError(name)


def stream_single_axis(R):
    """the helpers called directly with inputs that are broadcast along arbitrary axes or stored in another memory layout
    (Fortran, transposed, negative strides, non-contiguous), and whose first element is not special"""
    from glue.core.coordinate_helpers import pixel2world_single_axis, world2pixel_single_axis
    N = R.pick(600, 4000)
    lines, meta = [], []
    for i in range(N):
        rng = R.subrng('single', i)
        n = rng.choice([1, 2, 3])
        spec = ('id', n) if rng.random() < 0.05 else ('aff', random_structured(rng, n), small_translation(rng, n))
        if rng.random() < 0.3:
            spec = ('aff',) + random_magnitudes(rng, n)
        c = mk_coords(spec)
        oshape = tuple(rng.choice([1, 2, 3, 4]) for _ in range(rng.choice([1, 2, 2, 3])))
        ins, layouts = [], []
        for k in range(n):
            if rng.random() < 0.45:
                flags = [rng.random() < 0.4 for _ in oshape]
                small = tuple(1 if f else s for f, s in zip(flags, oshape))
                vals = np.array([rng.choice([-2, -1, 0, 1, 2, 3, 0.5]) for _ in range(int(np.prod(small)))], dtype=float).reshape(small)
                ins.append(np.broadcast_to(vals, oshape))
                layouts.append('broadcast')
            else:
                vals = np.array([rng.choice([-2, -1, 0, 1, 2, 3, 0.5, 4, -3]) for _ in range(int(np.prod(oshape)))], dtype=float).reshape(oshape)
                lay = rng.choice(LAYOUTS)
                ins.append(apply_layout(vals, lay))
                layouts.append(lay)
        for direction in (1, 0):
            for ax in range(n):
                try:
                    if direction:
                        r = np.asarray(pixel2world_single_axis(c, *ins, world_axis=ax))
                    else:
                        r = np.asarray(world2pixel_single_axis(c, *ins, pixel_axis=ax))
                except Exception as e:  # noqa
                    r = ('exc', exc_name(e))
                # oracle: the transformation applied point by point
                if spec[0] == 'id':
                    exp = np.array(ins[ax], dtype=float)
                else:
                    _, M, t = spec
                    if direction:
                        A, b = M, t
                    else:
                        A = finv(M)
                        b = [-sum(A[p][q] * t[q] for q in range(n)) for p in range(n)]
                    flat = [a.ravel() for a in ins]
                    exp = np.array([float(apply_exact(A, b, [F(float(f[p])) for f in flat])[ax]) for p in range(len(flat[0]))]).reshape(oshape)
                case = {'stream': 'single_axis', 'coords': spec_json(spec), 'direction': 'p2w' if direction else 'w2p', 'axis': ax,
                        'inputs': [a.tolist() for a in ins], 'layouts': layouts}
                nm = ('p2w_single' if direction else 'w2p_single')
                R.count(('single', spec, direction, ax, tuple(a.tobytes() for a in ins), oshape), nontrivial=len(flat[0]) > 1 if spec[0] != 'id' else False,
                        stream='single_axis', ndim=n, matrix_kind=matrix_kind(spec), input_ndim=len(oshape), layout='/'.join(sorted(set(layouts))))
                tol = TOL * float(dir_scale(spec, direction, [float(np.max(np.abs(a))) for a in ins])[ax])
                if not same(r, exp, tol):
                    oracle_fail(R, case, {'impl': brief(r), 'expected': brief(exp), 'tolerance': tol}, key=classify(spec, nm, None, None))
                lines.append(enc((4, [coords_enc(spec), direction, ax, (0, [vec_enc([F(float(x)) for x in a.ravel()]) for a in ins])])))
                meta.append((case, r, oshape, tol))
    outs = R.model(lines)
    for (case, r, oshape, tol), o in zip(meta, outs):
        m = dec_vals(o)
        if not isinstance(m, tuple):
            m = m.reshape(oshape)
        if not same(r, m, tol):
            corr_fail(R, case, {'model': brief(m), 'impl': brief(r), 'tolerance': tol})
    R.stream('single_axis', cases=len(lines), exhaustive=False,
             bound='pixel2world_single_axis / world2pixel_single_axis with 1-3 inputs of 1-3 dimensions (sizes 1..4), each broadcast along random axes or '
                   'stored as C / Fortran / transposed / axis-permuted / negative-stride / strided (non-contiguous) array')


def stream_layout_links(R):
    """the automatic links evaluated on another dataset whose arrays have more dimensions than the coordinates and are stored in
    Fortran / transposed / negative-stride / non-contiguous layouts: an n-d image with components p0.. linked (LinkSame) to the pixel axes of a
    dataset with 1-3-d coordinates, world coordinates requested on the image; and the same through the world -> pixel links.  Oracle only."""
    from glue.core import Data, DataCollection
    from glue.core.link_helpers import LinkSame
    N = R.pick(250, 1200)
    nobs = 0
    for i in range(N):
        rng = R.subrng('layout_links', i)
        n = rng.choice([1, 1, 1, 2, 2, 3])
        spec = ('id', n) if rng.random() < 0.08 else ('aff', random_structured(rng, n), small_translation(rng, n))
        if spec[0] == 'aff' and rng.random() < 0.2:
            spec = ('aff',) + random_magnitudes(rng, n)
        shape = tuple(rng.choice([2, 3, 4]) for _ in range(n))
        oshape = tuple(rng.choice([2, 3, 4]) for _ in range(rng.choice([2, 2, 3])))
        layouts = [rng.choice(LAYOUTS) for _ in range(n)]
        pix = [apply_layout(np.array([rng.choice([0, 1, 2, 3, -1, 0.5, 2.25, 5]) for _ in range(int(np.prod(oshape)))]).reshape(oshape), lay)
               for lay in layouts]
        if spec[0] == 'id':
            Mx, tx = [[F(int(a == b)) for b in range(n)] for a in range(n)], [F(0)] * n
        else:
            Mx, tx = spec[1], spec[2]
        Mi = finv(Mx)
        ti = [-sum(Mi[p_][q] * tx[q] for q in range(n)) for p_ in range(n)]
        flat = [a.ravel() for a in pix]                      # numpy order
        npts = len(flat[0])
        # exact world values (numpy order a <-> fits n-1-a)
        wex = [[apply_exact(Mx, tx, [F(float(flat[n - 1 - j][q])) for j in range(n)])[n - 1 - a] for q in range(npts)] for a in range(n)]
        case = {'stream': 'layout_links', 'coords': spec_json(spec), 'shape': list(shape), 'layouts': layouts,
                'pixel_arrays': [a.tolist() for a in pix]}
        mags = [float(np.max(np.abs(pix[n - 1 - j]))) for j in range(n)]
        # ---- pixel -> world links, evaluated on the image
        D = mk_data(spec, shape)
        img = Data(label='image', **{'p%d' % k: pix[k] for k in range(n)})
        dc = DataCollection([D, img])
        for k in range(n):
            dc.add_link(LinkSame(img.id['p%d' % k], D.pixel_component_ids[k]))
        fw = dir_scale(spec, 1, mags)
        for a in range(n):
            exp = np.array([float(v) for v in wex[a]]).reshape(oshape)
            try:
                got = np.asarray(img[D.world_component_ids[a]])
            except Exception as e:  # noqa
                got = ('exc', exc_name(e))
            nobs += 1
            R.count(('ll', i, 'p2w', a), nontrivial=True, stream='layout_links', ndim=n, layout='/'.join(sorted(set(layouts))), direction='p2w')
            tol = TOL * float(fw[n - 1 - a])
            if not same(got, exp, tol):
                oracle_fail(R, dict(case, observed='world%d on the image' % a), {'impl': brief(got), 'expected': brief(exp), 'tolerance': tol},
                            key=classify(spec, 'link_p2w', None, None))
        # ---- world -> pixel links: an image holding world values, in other layouts
        wl = [rng.choice(LAYOUTS) for _ in range(n)]
        warr = [apply_layout(np.array([float(v) for v in wex[a]]).reshape(oshape), wl[a]) for a in range(n)]
        D2 = mk_data(spec, shape)
        img2 = Data(label='image2', **{'w%d' % k: warr[k] for k in range(n)})
        dc2 = DataCollection([D2, img2])
        for k in range(n):
            dc2.add_link(LinkSame(img2.id['w%d' % k], D2.world_component_ids[k]))
        wflat = [a.ravel() for a in warr]
        bw = dir_scale(spec, 0, [float(np.max(np.abs(warr[n - 1 - j]))) for j in range(n)])
        for a in range(n):
            exp = np.array([float(apply_exact(Mi, ti, [F(float(wflat[n - 1 - j][q])) for j in range(n)])[n - 1 - a]) for q in range(npts)]).reshape(oshape)
            try:
                got = np.asarray(img2[D2.pixel_component_ids[a]])
            except Exception as e:  # noqa
                got = ('exc', exc_name(e))
            nobs += 1
            R.count(('ll', i, 'w2p', a), nontrivial=True, stream='layout_links', ndim=n, layout='/'.join(sorted(set(wl))), direction='w2p')
            tol = TOL * max(float(bw[n - 1 - a]), 1.0)
            if not same(got, exp, tol):
                oracle_fail(R, dict(case, observed='pixel%d on the image of world values' % a, world_layouts=wl),
                            {'impl': brief(got), 'expected': brief(exp), 'tolerance': tol}, key=classify(spec, 'link_w2p', None, None))
    R.stream('layout_links', observations=nobs, exhaustive=False,
             bound='%d set-ups: coordinates of 1-3 dims; 2-3-d image arrays (sizes 2..4) in C / Fortran / transposed / permuted / negative-stride / strided '
                   'layouts linked to the pixel (resp. world) ids; every world (resp. pixel) coordinate requested on the image' % N)


def stream_direct(R):
    """the transformation itself and its inverse on points and on whole grids"""
    N = R.pick(400, 3000)
    lines, meta = [], []
    for i in range(N):
        rng = R.subrng('direct', i)
        n = rng.choice([1, 2, 3])
        spec = ('id', n) if rng.random() < 0.1 else ('aff', random_structured(rng, n), small_translation(rng, n))
        if rng.random() < 0.3:
            spec = ('aff',) + random_magnitudes(rng, n)
        c = mk_coords(spec)
        shape = tuple(rng.choice([1, 2, 3]) for _ in range(n))
        gt = view_tols(spec, shape)
        idx = np.indices(shape).astype(float)
        worlds, pix = oracle_grids(spec, shape)
        case = {'stream': 'direct', 'coords': spec_json(spec), 'shape': list(shape)}
        try:
            w = c.pixel_to_world_values(*idx[::-1])
            w = [w] if n == 1 else list(w)
            back = c.world_to_pixel_values(*w)
            back = [back] if n == 1 else list(back)
            ok = all(close(w[n - 1 - a], worlds[a], gt['world%d' % a]) for a in range(n))
            okb = all(close(back[n - 1 - a], pix[a], gt['link_w2p%d' % a]) for a in range(n))
        except Exception as e:  # noqa
            ok = okb = False
            w = back = exc_name(e)
        R.count(('direct', spec, shape), nontrivial=spec[0] != 'id', stream='direct', ndim=n, matrix_kind=matrix_kind(spec))
        if not ok:
            oracle_fail(R, dict(case, observed='pixel_to_world_values'), {'impl': repr(w)[:300]}, key=None)
        elif not okb:
            oracle_fail(R, dict(case, observed='world_to_pixel_values(pixel_to_world_values)'), {'impl': repr(back)[:300]}, key=None)
        # single points (non-integer too) through the model: forward, backward, round trip
        x = [rng.choice([F(0), F(1), F(-3), F(5, 2), F(7), F(1, 4)]) for _ in range(n)]
        for dcode in (1, 0, 2):
            try:
                if dcode == 1:
                    r = c.pixel_to_world_values(*[float(v) for v in x])
                elif dcode == 0:
                    r = c.world_to_pixel_values(*[float(v) for v in x])
                else:
                    r = c.pixel_to_world_values(*[float(v) for v in x])
                    r = c.world_to_pixel_values(*([r] if n == 1 else r))
                r = np.array([float(r)] if n == 1 else [float(v) for v in r])
            except Exception as e:  # noqa
                r = ('exc', exc_name(e))
            tol = TOL * np.array([float(v) for v in dir_scale(spec, dcode, [abs(v) for v in x])])
            if dcode == 2 and not same(r, np.array([float(v) for v in x]), tol):
                oracle_fail(R, dict(case, observed='round trip of a point', point=[str(v) for v in x]), {'impl': brief(r), 'tolerance': tol.tolist()}, key=None)
            lines.append(enc((5, [coords_enc(spec), dcode, vec_enc(x)])))
            meta.append((dict(case, point=[str(v) for v in x], direction=dcode), r, tol))
    outs = R.model(lines)
    for (case, r, tol), o in zip(meta, outs):
        m = dec_vals(o)
        if not same(r, m, tol):
            corr_fail(R, case, {'model': brief(m), 'impl': brief(r), 'tolerance': tol.tolist()})
    R.stream('direct', cases=N, exhaustive=False, bound='pixel_to_world_values / world_to_pixel_values on whole grids and on single (also non-integer) points')


def stream_malformed(R):
    batch = Batch(R, 'malformed')
    rng = R.subrng('malformed')
    k = 0
    for n in (1, 2, 3):
        for _ in range(R.pick(6, 30)):
            spec = ('aff', random_structured(rng, n), small_translation(rng, n))
            shape = tuple(rng.choice([1, 2, 3]) for _ in range(n))
            views = []
            for _ in range(4):
                ents = [rng.choice([['s', None, None, None], 0]) for _ in shape]
                ax = rng.randrange(n)
                ents[ax] = rng.choice([shape[ax], shape[ax] + 1, -shape[ax] - 1])
                views.append(['tuple', ents])
            check_views(R, batch, spec, shape, views, 'malformed', kindname='malformed')
            k += 4
    batch.finish()
    R.stream('malformed', cases=k, bound='integer view entries out of range: IndexError expected from implementation, numpy oracle and model')


# ------------------------------------------------------------------ histories of one dataset (round 4)
# A case is {'stream', 'coords': spec | None, 'shape', 'ops': [...]}.  Operations (all public API of Data):
#   ['read', view]                          every world attribute (no view: data[cid]; else data[cid, view]), every automatic link, every pixel attribute
#   ['uvfd', coords, shape, with_y]         data.update_values_from_data(Data(x=..., [y=...], coords=obj)) ; coords = 'same' (the dataset's current
#                                           object) | 'copy' (a new object with the same matrix) | 'none' | ['new', spec]
#   ['set_coords', coords]                  data.coords = obj   (same choices)
#   ['update_components'] ['add_component'] ['remove_component'] ['update_id', 'world'|'pixel'|'main', i]
#   ['sibling_read', shape, view]           the same reads on a NEW dataset of another shape that shares the coordinate object (state kept per
#                                           coordinate object instead of per dataset would show here, and in the next read of the first one)
#   ['donor_change', shape]                 the dataset last passed to update_values_from_data gets another shape afterwards
# Oracle (the property): after ANY history every read equals the transformation of the CURRENT coordinate object applied to the pixel grid of
# the CURRENT shape (then the view applied by numpy), and there are ndim world attributes and 2 ndim links (none without coordinates).
HIST_FINDINGS = ('uvfd-ndim-change', 'uvfd-after-coordinate-rename', 'uvfd-gains-coords', 'uvfd-donor-alias')


def hist_coords_choice(ch, spec, obj, cid, fresh):
    """-> (spec, object, object id) after choosing `ch` when the current ones are (spec, obj, cid)"""
    if ch == 'same':
        return spec, obj, cid
    if ch == 'none':
        return None, None, 0
    if ch == 'copy':
        return (spec, mk_coords(spec), fresh) if spec is not None else (None, None, 0)
    nspec = spec_from_json(ch[1])
    return nspec, mk_coords(nspec), fresh


def ce_or_none(spec):
    return coords_enc(spec) if spec is not None else (0, [0])


def run_history(case):
    """execute the history on the implementation.  Returns (reads, model_line) ; reads = list of dicts with the implementation's
    observations, the expected ones (the property), the index of the read in the model's output (or None once a known-finding class
    was entered: `taint`)"""
    from glue.core import Data
    from glue.core.component_id import ComponentID, PixelComponentID
    spec = spec_from_json(case['coords']) if case['coords'] else None
    shape = tuple(case['shape'])
    obj = mk_coords(spec) if spec is not None else None
    cid, nid = (1, 1) if spec is not None else (0, 0)
    d = Data(x=np.zeros(shape), coords=obj, label='d')
    donor = None
    reads, mops = [], []
    taint = None
    renamed_coordinate = False
    nextra = 0
    mreads = 0
    for k, op in enumerate(case['ops']):
        kind = op[0]
        try:
            if kind == 'read':
                vj = op[1]
                n = len(shape)
                impl = {'nworld': len(d.world_component_ids), 'nlinks': len(d.coordinate_links), 'npixel': len(d.pixel_component_ids)}
                exp = {'nworld': n if spec is not None else 0, 'nlinks': 2 * n if spec is not None else 0, 'npixel': n}
                if spec is not None and impl['nworld'] == n and impl['nlinks'] == 2 * n:
                    impl.update(observe(d, spec, shape, vj))
                    exp.update(expected(spec, shape, vj, oracle_grids(spec, shape)))
                view = view_py(vj)
                idx = np.indices(shape).astype(float)
                for a in range(min(n, impl['npixel'])):
                    try:
                        pc = d.pixel_component_ids[a]
                        impl['pixel%d' % a] = np.asarray(d[pc] if vj[0] == 'none' else d[pc, view])
                    except Exception as e:  # noqa
                        impl['pixel%d' % a] = ('exc', exc_name(e))
                    try:
                        exp['pixel%d' % a] = idx[a] if view is None else idx[a][view]
                    except IndexError:
                        exp['pixel%d' % a] = ('exc', 'IndexError')
                rd = {'op': k, 'spec': spec, 'shape': shape, 'view': vj, 'impl': impl, 'exp': exp, 'taint': taint, 'mindex': None}
                if taint is None:
                    rd['mindex'] = mreads
                    mreads += 1
                    if vj[0] == 'fancy':
                        arrs = [x[1] for x in vj[1]]
                        mops.append((2, [(0, [vec_enc(a) for a in arrs[::-1]])]))
                        rd['post'] = 'fancy'
                    elif view_basic(vj):
                        mops.append((1, [view_enc(vj, shape)]))
                        rd['post'] = None
                    else:
                        mops.append((1, []))
                        rd['post'] = None if vj[0] == 'none' else 'numpy-view'
                reads.append(rd)
                continue
            if kind == 'sibling_read':
                sshape, vj = tuple(op[1]), op[2]
                sib = Data(x=np.zeros(sshape), coords=obj, label='sibling%d' % k)
                n = len(sshape)
                impl = {'nworld': len(sib.world_component_ids), 'nlinks': len(sib.coordinate_links), 'npixel': len(sib.pixel_component_ids)}
                exp = {'nworld': n if spec is not None else 0, 'nlinks': 2 * n if spec is not None else 0, 'npixel': n}
                if spec is not None and impl['nworld'] == n and impl['nlinks'] == 2 * n:
                    impl.update(observe(sib, spec, sshape, vj))
                    exp.update(expected(spec, sshape, vj, oracle_grids(spec, sshape)))
                rd = {'op': k, 'spec': spec, 'shape': sshape, 'view': vj, 'impl': impl, 'exp': exp, 'taint': taint, 'mindex': None, 'post': None}
                if taint is None:
                    rd['mindex'] = mreads
                    mreads += 1
                    if view_basic(vj):
                        mops.append((7, [Z(sshape), view_enc(vj, sshape)]))
                    else:
                        mops.append((7, [Z(sshape)]))
                        rd['post'] = None if vj[0] == 'none' else 'numpy-view'
                reads.append(rd)
                continue
            if kind == 'uvfd':
                nid += 1
                nspec, nobj, ncid = hist_coords_choice(op[1], spec, obj, cid, nid)
                nshape = tuple(op[2])
                kw = {'x': np.full(nshape, float(k + 1))}
                if op[3]:
                    kw['y'] = np.full(nshape, 2.0)
                donor = Data(coords=nobj, label='donor%d' % k, **kw)
                if taint is None:
                    if len(nshape) != len(shape):
                        taint = 'uvfd-ndim-change'
                    elif renamed_coordinate:
                        taint = 'uvfd-after-coordinate-rename'
                    elif spec is None and nspec is not None:
                        taint = 'uvfd-gains-coords'
                shape, spec, obj, cid = nshape, nspec, nobj, ncid
                mops.append((3, [cid, ce_or_none(spec), Z(shape)]))
                d.update_values_from_data(donor)
            elif kind == 'set_coords':
                nid += 1
                spec, obj, cid = hist_coords_choice(op[1], spec, obj, cid, nid)
                mops.append((4, [cid, ce_or_none(spec)]))
                d.coords = obj
            else:
                mops.append((5, []))
                if kind == 'update_components':
                    d.update_components({d.id['x']: np.full(shape, float(k + 10))})
                elif kind == 'add_component':
                    nextra += 1
                    d.add_component(np.full(shape, 3.0), 'extra%d' % nextra)
                elif kind == 'remove_component':
                    ex = [c for c in d.main_components if c.label.startswith('extra') or c.label == 'y']
                    if ex:
                        d.remove_component(ex[-1])
                elif kind == 'update_id':
                    which, i = op[1], op[2]
                    if which == 'world' and len(d.world_component_ids) > i:
                        d.update_id(d.world_component_ids[i], ComponentID('renamed-w%d-%d' % (i, k)))
                        renamed_coordinate = True
                    elif which == 'pixel' and len(d.pixel_component_ids) > i:
                        d.update_id(d.pixel_component_ids[i], PixelComponentID(i, 'renamed-p%d-%d' % (i, k)))
                        renamed_coordinate = True
                    elif which == 'main':
                        d.update_id(d.id['x'], ComponentID('x'))
                elif kind == 'donor_change':
                    if donor is not None:
                        taint = taint or 'uvfd-donor-alias'
                        donor.update_values_from_data(Data(x=np.zeros(tuple(op[1])), coords=donor.coords, label='other'))
                else:
                    raise ValueError('unknown operation %r' % (op,))
        except ValueError as e:
            if 'unknown operation' in str(e):
                raise
            reads.append({'op': k, 'spec': spec, 'shape': shape, 'view': ['op', kind], 'impl': {'operation': ('exc', exc_name(e))},
                          'exp': {'operation': 'completes'}, 'taint': taint, 'mindex': None})
            break
        except Exception as e:  # noqa
            reads.append({'op': k, 'spec': spec, 'shape': shape, 'view': ['op', kind], 'impl': {'operation': ('exc', exc_name(e))},
                          'exp': {'operation': 'completes'}, 'taint': taint, 'mindex': None})
            break
        if spec is not None and kind in ('set_coords',) and op[1] not in ('same', 'none') and spec_dim(spec) != len(shape):
            raise ValueError('generator: coordinates of the wrong dimension')
    spec0 = spec_from_json(case['coords']) if case['coords'] else None
    line = enc((6, [(0, [1 if spec0 is not None else 0, ce_or_none(spec0), Z(list(case['shape']))]), (0, mops)]))
    return reads, line


def hist_same(name, g, e, tols):
    if isinstance(e, (int, str)):
        return g == e
    if g is None:
        return False
    return same(g, e, tols.get(name, 0.0) if not name.startswith('pixel') else 0.0)


def hist_failing(reads):
    """[(read, name)] where the implementation differs from the property"""
    out = []
    for rd in reads:
        tols = view_tols(rd['spec'], rd['shape']) if rd['spec'] is not None else {}
        for name, e in rd['exp'].items():
            if not hist_same(name, rd['impl'].get(name), e, tols):
                out.append((rd, name))
    return out


def hist_model_compare(rd, tree):
    """model observation of one read vs the implementation: list of (name, model, impl) that differ"""
    ks = kids(tree)
    nworld, nlinks = ks[0][0], ks[1][0]
    out = []
    impl = rd['impl']
    if nworld != impl['nworld']:
        out.append(('nworld', nworld, impl['nworld']))
    if nlinks != impl['nlinks']:
        out.append(('nlinks', nlinks, impl['nlinks']))
    if out or rd['spec'] is None:
        return out
    tols = view_tols(rd['spec'], rd['shape'])
    view = view_py(rd['view'])
    groups = (('world', kids(ks[2])), ('link_p2w', kids(ks[3])), ('link_w2p', kids(ks[4])))
    for nm, trees in groups:
        for a, t in enumerate(trees):
            name = '%s%d' % (nm, a)
            if name not in impl:
                continue
            m = dec_vals(t)
            if not isinstance(m, tuple):
                if rd.get('post') == 'numpy-view':
                    try:
                        m = m[view]
                    except IndexError:
                        m = ('exc', 'IndexError')
                elif rd.get('post') == 'fancy':
                    m = m.reshape(np.shape(rd['view'][1][0][1]))
            if not same(impl[name], m, tols.get(name, TOL)):
                out.append((name, brief(m), brief(impl[name])))
    return out


def hist_key(case):
    return (case['stream'], repr(case['coords']), tuple(case['shape']), repr(case['ops']))


def hist_detail(rd, name):
    g = rd['impl'].get(name)
    e = rd['exp'][name]
    return {'observed': name, 'after_operation_index': rd['op'], 'view': rd['view'], 'current_shape': list(rd['shape']),
            'current_coords': spec_json(rd['spec']) if rd['spec'] is not None else None,
            'impl': g if isinstance(g, (int, str)) or g is None else brief(g), 'expected': e if isinstance(e, (int, str)) else brief(e)}


def hist_valid(case):
    """is the history inside the generated domain (used by the shrinker): shapes / views / coordinates keep their dimension"""
    n = len(case['shape'])
    cur = list(case['shape'])
    if not cur or any(s < 1 for s in cur):
        return False
    for op in case['ops']:
        if op[0] in ('uvfd',):
            if len(op[2]) != len(cur) and op[1] in ('same', 'copy'):
                return False            # a coordinate object of another dimension than the data is not a valid input
            cur = list(op[2])
            if any(s < 1 for s in cur):
                return False
        if op[0] == 'sibling_read':
            if len(op[1]) != len(cur) or any(s < 1 for s in op[1]):
                return False
        if op[0] in ('read', 'sibling_read') and op[-1][0] in ('tuple', 'bare', 'fancy'):
            ents = op[-1][1]
            vcur = cur
            cur = list(op[1]) if op[0] == 'sibling_read' else cur
            if len(ents) > len(cur):
                return False
            for x, s in zip(ents, cur):
                if isinstance(x, int) and not -s <= x < s:
                    return False
                if not isinstance(x, int) and x[0] in ('l', 'a') and any(not 0 <= v < s for v in x[1]):
                    return False
            if op[-1][0] == 'fancy' and (len(ents) != len(cur) or op[0] == 'sibling_read'):
                return False
            cur = vcur
    return True


def shrink_history(case, pred):
    """drop operations, simplify views, reduce shapes while pred(case) stays true"""
    case = dict(case, ops=[list(o) for o in case['ops']])
    improved = True
    rounds = 0
    while improved and rounds < 60:
        improved = False
        rounds += 1
        ops = case['ops']
        for i in range(len(ops)):
            c2 = dict(case, ops=ops[:i] + ops[i + 1:])
            if c2['ops'] and hist_valid(c2) and pred(c2):
                case, improved = c2, True
                break
        if improved:
            continue
        for i, op in enumerate(ops):
            if op[0] == 'read' and op[1] != ['none', []]:
                c2 = dict(case, ops=ops[:i] + [['read', ['none', []]]] + ops[i + 1:])
                if pred(c2):
                    case, improved = c2, True
                    break
            if op[0] == 'sibling_read' and op[2] != ['none', []]:
                c2 = dict(case, ops=ops[:i] + [[op[0], op[1], ['none', []]]] + ops[i + 1:])
                if pred(c2):
                    case, improved = c2, True
                    break
            if op[0] == 'uvfd' and op[3]:
                c2 = dict(case, ops=ops[:i] + [[op[0], op[1], op[2], False]] + ops[i + 1:])
                if pred(c2):
                    case, improved = c2, True
                    break
        if improved:
            continue
        # shapes: the initial one and those of the updates, one axis at a time
        holders = [('init', None)] + [('op', i) for i, op in enumerate(ops) if op[0] in ('uvfd', 'donor_change', 'sibling_read')]
        for where, i in holders:
            sh = case['shape'] if where == 'init' else (ops[i][2] if ops[i][0] == 'uvfd' else ops[i][1])
            if where == 'op' and ops[i][0] == 'sibling_read' and ops[i][2] != ['none', []]:
                continue
            for ax in range(len(sh)):
                if sh[ax] > 1:
                    nsh = list(sh[:ax]) + [sh[ax] - 1] + list(sh[ax + 1:])
                    if where == 'init':
                        c2 = dict(case, shape=nsh)
                    elif ops[i][0] == 'uvfd':
                        c2 = dict(case, ops=ops[:i] + [[ops[i][0], ops[i][1], nsh, ops[i][3]]] + ops[i + 1:])
                    else:
                        c2 = dict(case, ops=ops[:i] + [[ops[i][0], nsh] + list(ops[i][2:])] + ops[i + 1:])
                    if hist_valid(c2) and pred(c2):
                        case, improved = c2, True
                        break
            if improved:
                break
    return case


def hist_pred(name, taint):
    def pred(c):
        try:
            reads, _ = run_history(c)
        except Exception:  # noqa
            return False
        return any(nm == name and rd['taint'] == taint for rd, nm in hist_failing(reads))
    return pred


class HistBatch:
    def __init__(self, R, stream):
        self.R, self.stream = R, stream
        self.lines, self.items = [], []
        self.nreads = 0
        self.shrunk = 0

    def add(self, case):
        R = self.R
        reads, line = run_history(case)
        self.nreads += len(reads)
        fl = hist_failing(reads)
        seen = set()
        for rd, name in fl:
            if (name, rd['taint']) in seen:
                continue
            seen.add((name, rd['taint']))
            c2, det = case, hist_detail(rd, name)
            if rd['taint'] is None and self.shrunk < 6:
                self.shrunk += 1
                c2 = shrink_history(case, hist_pred(name, None))
                r2, _ = run_history(c2)
                f2 = [(r, n) for r, n in hist_failing(r2) if n == name and r['taint'] is None]
                if f2:
                    det = dict(hist_detail(*f2[0]), shrunk=True)
                else:
                    c2 = case
            oracle_fail(R, dict(c2, observed=name), det, key=rd['taint'])
        kinds = [o[0] for o in case['ops']]
        mutators = [o for o in case['ops'] if o[0] not in ('read', 'sibling_read')]
        R.count(hist_key(case), nontrivial=len(mutators) > 0 and len(reads) > 1, stream=self.stream, ndim=len(case['shape']),
                history_length=len(case['ops']), history_mutators=len(mutators),
                history_class='/'.join(sorted(set(rd['taint'] for rd in reads if rd['taint']))) or 'strict')
        for o in mutators:
            self.R.hist['history_op'][o[0] if o[0] not in ('uvfd', 'set_coords') else '%s:%s' % (o[0], o[1] if isinstance(o[1], str) else 'new')] += 1
        self.R.evaluations += sum(len(rd['exp']) for rd in reads) - 1
        self.lines.append(line)
        self.items.append((case, [rd for rd in reads if rd['mindex'] is not None]))
        return fl

    def finish(self):
        R = self.R
        outs = R.model(self.lines) if self.lines else []
        for (case, reads), o in zip(self.items, outs):
            if is_err(o):
                corr_fail(R, case, {'model': 'error %s' % err_code(o)})
                continue
            res = kids(o)
            if len(res) < len(reads):
                corr_fail(R, case, {'model': 'returned %d read results, expected %d' % (len(res), len(reads))})
                continue
            for rd in reads:
                diff = hist_model_compare(rd, res[rd['mindex']])
                if diff:
                    name, m, g = diff[0]
                    corr_fail(R, dict(case, observed=name), {'after_operation_index': rd['op'], 'view': rd['view'], 'model': m, 'impl': g})
                    break


def hist_rand_spec(rng, n):
    r = rng.random()
    if r < 0.12:
        return ('id', n)
    if r < 0.25:
        return ('aff',) + random_magnitudes(rng, n)
    return ('aff', random_structured(rng, n), small_translation(rng, n))


def hist_coords_op(rng, n, allow_none=True):
    r = rng.random()
    if r < 0.34:
        return 'same'
    if r < 0.48:
        return 'copy'
    if r < 0.56 and allow_none:
        return 'none'
    return ['new', spec_json(hist_rand_spec(rng, n))]


def random_history(rng, stream):
    n = rng.choice([1, 2, 2, 2, 3, 3])
    spec = hist_rand_spec(rng, n) if rng.random() < 0.93 else None
    shape = [rng.choice([1, 2, 3, 4]) for _ in range(n)]
    ops = []
    cur = list(shape)
    probe = rng.random()            # a small share of the histories probes the classes with known findings (always after a strict prefix)

    def read():
        return ['read', random_view(rng, tuple(cur)) if rng.random() < 0.5 else ['none', []]]
    for _ in range(rng.randrange(2, 9)):
        r = rng.random()
        if r < 0.38:
            ops.append(read())
        elif r < 0.44:
            ssh = [rng.choice([1, 2, 3, 4, 5]) for _ in range(n)]
            ops.append(['sibling_read', ssh, random_view(rng, tuple(ssh), allow_special=False) if rng.random() < 0.4 else ['none', []]])
        elif r < 0.66:
            if rng.random() < 0.75:
                cur = [rng.choice([1, 2, 3, 4, 5]) for _ in range(n)]
            ops.append(['uvfd', hist_coords_op(rng, n), list(cur), rng.random() < 0.3])
        elif r < 0.80:
            ops.append(['set_coords', hist_coords_op(rng, n)])
        elif r < 0.85:
            ops.append(['update_components'])
        elif r < 0.90:
            ops.append(['add_component'])
        elif r < 0.94:
            ops.append(['remove_component'])
        elif r < 0.97:
            ops.append(['update_id', 'main', 0])
        elif probe < 0.5:
            ops.append(['update_id', rng.choice(['world', 'pixel']), rng.randrange(n)])
    if probe < 0.04:
        m = rng.choice([k for k in (1, 2, 3) if k != n])
        cur = [rng.choice([1, 2, 3]) for _ in range(m)]
        ops.append(['uvfd', ['new', spec_json(hist_rand_spec(rng, m))] if rng.random() < 0.7 else 'none', list(cur), False])
    elif probe < 0.08 and any(o[0] == 'uvfd' for o in ops):
        ops.append(['donor_change', [rng.choice([1, 2, 3, 4, 5]) for _ in range(n)]])
    ops.append(['read', ['none', []]])
    ops.append(['read', random_view(rng, tuple(cur))])
    return {'stream': stream, 'coords': spec_json(spec) if spec is not None else None, 'shape': shape, 'ops': ops}


def stream_history(R):
    """seeded histories: 1-3 dims, 2-8 operations + two final reads"""
    hb = HistBatch(R, 'history')
    N = R.pick(450, 1500)
    for i in range(N):
        rng = R.subrng('history', i)
        case = random_history(rng, 'history')
        hb.add(case)
        if i < 2:
            R.sample(case)
    hb.finish()
    R.stream('history', histories=N, reads=hb.nreads, exhaustive=False,
             bound='seeded: 1-3 dims, sizes 1..5, 2-8 operations out of {read without / with a view, the same on a sibling dataset sharing the coordinate object, update_values_from_data (same / equal / new / no '
                   'coordinate object; new or same shape), coords = (same / equal / new / None), update_components, add / remove component, update_id} '
                   'and two final reads; 8 % of them end in a class with a known finding (ndim change, donor changed afterwards) or rename a '
                   'coordinate attribute first; every read is compared with the current coordinate object applied to the current pixel grid and with the model')


def small_history_alphabet():
    A = ('aff', ((F(2), F(1)), (F(0), F(3))), (F(1), F(-2)))
    B = ('aff', ((F(0), F(-1)), (F(2), F(1))), (F(5), F(0)))
    return A, [['uvfd', 'same', [3, 2], False], ['uvfd', 'same', [2, 3], False], ['uvfd', 'copy', [1, 4], True], ['uvfd', ['new', spec_json(B)], [3, 3], False],
               ['uvfd', 'none', [2, 2], False], ['set_coords', 'same'], ['set_coords', 'copy'], ['set_coords', ['new', spec_json(B)]], ['set_coords', 'none'],
               ['update_components'], ['add_component'], ['update_id', 'main', 0], ['update_id', 'world', 1], ['sibling_read', [3, 1], ['none', []]]]


def stream_history_small(R):
    """small scope, exhaustive: every sequence of at most 2 operations out of 14 on a 2-d dataset, with a read without a view before / between /
    after the operations in every combination (the final read always, followed by a read with a view); thorough adds 1200 sampled sequences of 3"""
    hb = HistBatch(R, 'history_small')
    A, alpha = small_history_alphabet()
    rng = R.subrng('history_small')
    L = R.pick(2, 3)
    n = 0
    for ln in range(1, L + 1):
        seqs = list(itertools.product(range(len(alpha)), repeat=ln))
        if ln == 3:
            seqs = rng.sample(seqs, 1200)          # (thorough only) 1200 of the 14^3 sequences of length 3, one read placement each
        for seq in seqs:
            masks = list(itertools.product([0, 1], repeat=ln))
            if ln == 3:
                masks = [rng.choice(masks)]
            for mask in masks:
                ops = []
                cur = [2, 3]
                for j, m in zip(seq, mask):
                    if m:
                        ops.append(['read', ['none', []]])
                    ops.append([list(x) if isinstance(x, list) else x for x in alpha[j]])
                    if alpha[j][0] == 'uvfd':
                        cur = alpha[j][2]
                ops.append(['read', ['none', []]])
                ops.append(['read', ['tuple', [['s', 1, None, None], rng.choice([0, -1, ['s', None, None, -1]])]] if cur[0] > 1
                            else ['tuple', [0, ['s', None, None, 2]]]])
                hb.add({'stream': 'history_small', 'coords': spec_json(A), 'shape': [2, 3], 'ops': ops})
                n += 1
    hb.finish()
    R.stream('history_small', histories=n, reads=hb.nreads, exhaustive=True,
             bound='every sequence of <= 2 operations (thorough: + 1200 sampled sequences of 3; here max %d) out of %d (update_values_from_data x 5 kinds of coordinate object / shape, coords = x 4, '
                   'update_components, add_component, update_id x 2, the reads on a sibling dataset sharing the coordinate object) on a 2-d dataset, x every placement of view-less reads between them' % (L, len(alpha)))



def run(R):
    R.rule = ('per dataset (coordinate object, shape) and view: every world attribute data[world, view], every automatically created pixel->world and '
              'world->pixel link evaluated under the view, compared with the matrix applied directly to the pixel grid (fractions) and with the Coq model; '
              'non-trivial = more than one value in the result and a non-identity coordinate object; distinct = distinct (matrix, translation, shape, view)')
    _ncorr.clear()
    stream_small(R)
    stream_random(R)
    stream_magnitudes(R)
    stream_single_axis(R)
    stream_layout_links(R)
    stream_direct(R)
    stream_malformed(R)
    stream_history_small(R)
    stream_history(R)
    stream_dependent_axes(R)
    shrink_failures(R)


def shrink_failures(R):
    """replace each oracle failure of the view streams by a smaller failing case when one exists (smaller shape, simpler view)"""
    done = 0
    for f in R.failures:
        if f['kind'] != 'oracle' or f['case'].get('stream') not in ('small', 'random', 'magnitudes') or done >= 8:
            continue
        done += 1
        case = dict(f['case'])
        name = case.get('observed')

        def fails(c):
            try:
                r = replay(None, c)
            except Exception:  # noqa
                return False
            return name in r.get('failing', [])
        improved = True
        while improved:
            improved = False
            sh = case['shape']
            for i in range(len(sh)):
                if sh[i] > 1:
                    c2 = dict(case, shape=sh[:i] + [sh[i] - 1] + sh[i + 1:])
                    if fails(c2):
                        case = c2
                        improved = True
                        break
            if improved:
                continue
            full = ['tuple', [['s', None, None, None]]]     # (the empty tuple () is not used: _calculate indexes view[0])
            if case['view'] != full:
                kind, ents = case['view']
                cands = [full]
                if kind == 'tuple':
                    for i in range(len(ents)):
                        if ents[i] != ['s', None, None, None]:
                            cands.append(['tuple', ents[:i] + [['s', None, None, None]] + ents[i + 1:]])
                for v in cands:
                    c2 = dict(case, view=v)
                    if fails(c2):
                        case = c2
                        improved = True
                        break
        if case != f['case']:
            r = replay(None, case)
            f['case'] = case
            f['detail'] = {'observed': name, 'impl': r['impl'].get(name), 'expected': r['expected'].get(name), 'shrunk': True}


def replay(R, case):
    st = case.get('stream')
    out = {'case': case}
    if st in ('small', 'random', 'malformed', 'magnitudes'):
        spec = spec_from_json(case['coords'])
        shape = tuple(case['shape'])
        vj = case['view']
        d = mk_data(spec, shape, case.get('late', False))
        impl = observe(d, spec, shape, vj)
        exp = expected(spec, shape, vj, oracle_grids(spec, shape))
        tols = view_tols(spec, shape)
        failing = [k for k in exp if not same(impl[k], exp[k], tols[k])]
        out.update(failing=failing, violates=bool(failing),
                   impl={k: brief(impl[k]) for k in (failing or list(exp)[:2])}, expected={k: brief(exp[k]) for k in (failing or list(exp)[:2])})
        if R is not None and R.model_available:
            ml = model_lines(spec, shape, vj)
            outs = R.model([l for _, l, _ in ml])
            out['model'] = {name: brief(dec_vals(o)) for (name, _, post), o in zip(ml, outs) if post is None and (name in failing or not failing)}
    elif st == 'single_axis':
        from glue.core.coordinate_helpers import pixel2world_single_axis, world2pixel_single_axis
        spec = spec_from_json(case['coords'])
        n = spec_dim(spec)
        c = mk_coords(spec)
        ins = [np.array(a, dtype=float) for a in case['inputs']]
        ins = [a if lay == 'broadcast' else apply_layout(a, lay) for a, lay in zip(ins, case.get('layouts', ['C'] * len(ins)))]
        ax = case['axis']
        if case['direction'] == 'p2w':
            r = np.asarray(pixel2world_single_axis(c, *ins, world_axis=ax))
            A, b = (spec[1], spec[2]) if spec[0] == 'aff' else (None, None)
        else:
            r = np.asarray(world2pixel_single_axis(c, *ins, pixel_axis=ax))
            if spec[0] == 'aff':
                A = finv(spec[1])
                b = [-sum(A[p][q] * spec[2][q] for q in range(n)) for p in range(n)]
        if spec[0] == 'id':
            exp = ins[ax]
        else:
            flat = [a.ravel() for a in ins]
            exp = np.array([float(apply_exact(A, b, [F(float(f[p])) for f in flat])[ax]) for p in range(len(flat[0]))]).reshape(ins[0].shape)
        tol = TOL * float(dir_scale(spec, 1 if case['direction'] == 'p2w' else 0, [float(np.max(np.abs(a))) for a in ins])[ax])
        out.update(impl=brief(r), expected=brief(exp), tolerance=tol, violates=not same(r, exp, tol))
    elif st == 'direct':
        spec = spec_from_json(case['coords'])
        n = spec_dim(spec)
        shape = tuple(case['shape'])
        c = mk_coords(spec)
        idx = np.indices(shape).astype(float)
        worlds, pix = oracle_grids(spec, shape)
        w = c.pixel_to_world_values(*idx[::-1])
        w = [w] if n == 1 else list(w)
        back = c.world_to_pixel_values(*w)
        back = [back] if n == 1 else list(back)
        gt = view_tols(spec, shape)
        ok = (all(close(w[n - 1 - a], worlds[a], gt['world%d' % a]) for a in range(n)) and
              all(close(back[n - 1 - a], pix[a], gt['link_w2p%d' % a]) for a in range(n)))
        out.update(violates=not ok, impl=[brief(x) for x in w])
    elif st in ('history', 'history_small'):
        reads, line = run_history(case)
        fl = hist_failing(reads)
        out.update(violates=any(rd['taint'] is None for rd, _ in fl), failing=[[rd['op'], name, rd['taint']] for rd, name in fl],
                   detail=[hist_detail(rd, name) for rd, name in fl[:4]])
        if R is not None and R.model_available:
            o = R.model([line])[0]
            mr = [rd for rd in reads if rd['mindex'] is not None]
            out['model_differs'] = [[rd['op']] + [str(x)[:200] for x in hist_model_compare(rd, kids(o)[rd['mindex']])[:1]] for rd in mr
                                    if not is_err(o) and hist_model_compare(rd, kids(o)[rd['mindex']])]
    else:
        out['note'] = 'replay by re-running the stream: ./check C15 --tier quick'
        out['violates'] = False
    return out
