"""C16 - a fixed-resolution buffer equals nearest-pixel resampling through the links; the cache is transparent.

Implementation side: glue.core.fixed_resolution_buffer.compute_fixed_resolution_buffer on datasets linked through
pixel-to-pixel links (LinkSame, ComponentLink with affine functions, chains through an intermediate dataset), with and
without cache_id, over sequences of requests; ImageLayerState / ImageSubsetLayerState.get_sliced_data.
Model side: coq/C16/Model.v (exact positions over Q, round-half-even, validity, gather, fill, the two caches).
Oracle: nearest-pixel resampling written directly with fractions; cached result == uncached result.
"""
import itertools
from fractions import Fraction as F

import numpy as np

from harness.common import enc, Z, to_zs, is_err, err_code, kids, tag

PROP = 'C16'
GENERATORS = ['gen_frbcache']
TRUSTED = [
    'hand model coq/C16/Model.v of translate_pixel (pixel-to-pixel links only), np.linspace/meshgrid sampling, np.round (half to even), the validity test, '
    'fancy-index gather, the fill value, dropping scalar-bound axes and the ARRAY_CACHE / PIXEL_CACHE protocol; tied by correspondence only',
    'the link structure (which link derives each pixel axis in which frame) is computed by the harness from its own tree-shaped link specification; '
    'link discovery itself belongs to C03',
    'numpy: linspace/round/astype on the generated dyadic and small rational inputs agree with the exact rational computation away from exact half-integers; '
    'unbroadcast/broadcast_to are value-preserving (C20); tuple/list equality calls AnyScalar.__eq__ from the stored (left) side',
    'bounds_for_cache, AnyScalar.__eq__ and the layout of the key tuples are translated from the source on every run (tools/gen/gen_frbcache.py, fail-closed ast '
    'translator; `return <argument>` = the caller\'s object); the rest of the cache protocol is the hand model',
    'full masks of the subset states are computed by numpy from the attribute values and handed to the model (evaluation of subset states under a view is C04/C01)',
]
ASSUMPTIONS = [
    'positions that fall exactly on a half-integer are not generated (both neighbours are nearest)',
    'a linked position that is not a finite number (NaN, +-inf from a partial link function) counts as outside the source: NaN / not selected',
    'data values are not changed between requests under one cache id (C05; the property says "for unchanged data"); the objects that DESCRIBE a request '
    '(the bounds list, a RangeSubsetState) are re-used and changed in place by stream `alias`; a subset state changed in place is the known finding '
    'subset-state-changed-in-place (theorem state_object_key_refuted), classified by re-running the history with a new state object for every change',
    'not generated: the caller writing into a returned buffer (ARRAY_CACHE hands out the stored array itself), 0-d numpy arrays as scalar bounds',
    'links through world coordinates (stream world_seq) are modelled as affine functions of the reference pixel position whose reported dimensions are the '
    'connected component computed by the harness; that the component covers the pixel axes used is the hypothesis wf_world of the theorems (C15 proves it for '
    'dependent_axes); genuinely non-linear link functions (log2, sqrt, 1/x) are covered by the oracle-only stream `nonlinear`; dask components are not covered',
]

ERR = {1: 'ValueError', 10: 'IncompatibleAttribute', 11: 'IncompatibleDataException'}


# ------------------------------------------------------------------ world
def fr(x):
    return F(x)


def fs(x):
    return str(F(x))


class World:
    """datasets in a tree; every axis of a non-root dataset is unlinked or linked to axes of its parent"""

    def __init__(self, spec):
        self.spec = spec
        self.shapes = [tuple(s) for s in spec['shapes']]
        self.parent = [None] + [r['parent'] for r in spec['rels'][1:]]
        self.rels = [None] + [r['axes'] for r in spec['rels'][1:]]
        self.n = len(self.shapes)

    # ---- structure: which expression gives axis i of dataset s in the frame of dataset t
    def path_next(self, s, t):
        """neighbour of s on the tree path to t"""
        anc = []
        k = t
        while k is not None:
            anc.append(k)
            k = self.parent[k]
        if s in anc:                      # t is below s: step to the child of s that is an ancestor of t
            return anc[anc.index(s) - 1]
        return self.parent[s]

    def derive(self, s, i, t):
        """('pix', j) | ('lnk', coefs, const, [sub...]) | None"""
        if s == t:
            return ('pix', i)
        nb = self.path_next(s, t)
        if nb is None:
            return None
        if nb == self.parent[s]:
            rel = self.rels[s][i]
            if rel is None:
                return None
            if rel[0] == 'same':
                ins, coefs, const = [rel[1]], [F(1)], F(0)
            elif rel[0] == 'both':
                ins, coefs, const = [rel[1]], [fr(rel[2])], fr(rel[3])
            elif rel[0] == 'part':
                # a * x + b where x >= c, not a finite number elsewhere (one-way)
                sub = self.derive(nb, rel[1], t)
                if sub is None:
                    return None
                return ('lnk', [fr(rel[2])], fr(rel[3]), [('guard', fr(rel[4]), sub)])
            else:
                ins, coefs, const = [j for j, _ in rel[1]], [fr(c) for _, c in rel[1]], fr(rel[2])
        else:
            # nb is a child of s: s_i is available only through the inverse of a two-way relation
            found = None
            for k, rel in enumerate(self.rels[nb]):
                if rel is not None and rel[0] in ('same', 'both') and rel[1] == i:
                    found = (k, rel)
                    break
            if found is None:
                return None
            k, rel = found
            if rel[0] == 'same':
                ins, coefs, const = [k], [F(1)], F(0)
            else:
                a, b = fr(rel[2]), fr(rel[3])
                ins, coefs, const = [k], [1 / a], -b / a
        subs = [self.derive(nb, j, t) for j in ins]
        if any(x is None for x in subs):
            return None
        return ('lnk', coefs, const, subs)

    def exprs(self, s, t):
        return [self.derive(s, i, t) for i in range(len(self.shapes[s]))]


# ------------------------------------------------------------------ datasets linked through world coordinates
def finv(M):
    n = len(M)
    A = [[F(x) for x in row] + [F(int(i == j)) for j in range(n)] for i, row in enumerate(M)]
    for c in range(n):
        p = next((r for r in range(c, n) if A[r][c] != 0), None)
        if p is None:
            return None
        A[c], A[p] = A[p], A[c]
        piv = A[c][c]
        A[c] = [x / piv for x in A[c]]
        for r in range(n):
            if r != c and A[r][c] != 0:
                f = A[r][c]
                A[r] = [x - f * y for x, y in zip(A[r], A[c])]
    return [row[n:] for row in A]


def cspec_mt(cspec):
    """(M, t) in fits order as Fractions"""
    if cspec[0] == 'id':
        n = cspec[1]
        return [[F(int(i == j)) for j in range(n)] for i in range(n)], [F(0)] * n
    return [[F(x) for x in r] for r in cspec[1]], [F(x) for x in cspec[2]]


def mk_coords(cspec):
    from glue.core.coordinates import AffineCoordinates, IdentityCoordinates
    if cspec[0] == 'id':
        return IdentityCoordinates(n_dim=cspec[1])
    M, t = cspec_mt(cspec)
    n = len(M)
    A = np.zeros((n + 1, n + 1))
    for i in range(n):
        for j in range(n):
            A[i, j] = float(M[i][j])
        A[i, n] = float(t[i])
    A[n, n] = 1
    return AffineCoordinates(A)


def dep_component(cspec, axis):
    """what dependent_axes must return (numpy order): the axes connected to `axis` in the graph of the non-zero entries; own implementation"""
    M, _ = cspec_mt(cspec)
    n = len(M)
    adj = {i: set() for i in range(n)}
    for k in range(n):
        for j in range(n):
            if M[k][j] != 0:
                a, b = n - 1 - k, n - 1 - j
                adj[a].add(b)
                adj[b].add(a)
    seen, todo = {axis}, [axis]
    while todo:
        x = todo.pop()
        for y in adj[x]:
            if y not in seen:
                seen.add(y)
                todo.append(y)
    return sorted(seen)


class WorldW:
    """dataset 0 (the reference) and datasets 1.. with identity / affine coordinates; world axis a of dataset k >= 1 is linked
    (LinkSame) to world axis wlink[k][a] of dataset 0, or to nothing"""

    def __init__(self, spec):
        self.spec = spec
        self.shapes = [tuple(x) for x in spec['shapes']]
        self.coords = spec['coords']
        self.wlink = spec['wlink']
        self.n = len(self.shapes)

    def world_leaf(self, k, a):
        """world axis a (numpy order) of dataset k as a function of k's own pixel position"""
        M, t = cspec_mt(self.coords[k])
        n = len(M)
        row = n - 1 - a
        terms = [(n - 1 - jf, M[row][jf]) for jf in range(n) if M[row][jf] != 0]
        return ('world', terms, t[row], dep_component(self.coords[k], a))

    def world_in(self, s, j, t):
        """world axis j of dataset s in the frame of dataset t (s != t)"""
        if t == 0:
            b = self.wlink[s][j]
            return None if b is None else ('lnk', [F(1)], F(0), [self.world_leaf(0, b)])
        if s == 0:
            cand = [a for a, b in enumerate(self.wlink[t]) if b == j]
            return None if not cand else ('lnk', [F(1)], F(0), [self.world_leaf(t, cand[0])])
        b = self.wlink[s][j]
        if b is None:
            return None
        inner = self.world_in(0, b, t)
        return None if inner is None else ('lnk', [F(1)], F(0), [inner])

    def derive(self, s, i, t):
        if s == t:
            return ('pix', i)
        M, tr = cspec_mt(self.coords[s])
        n = len(M)
        Mi = finv(M)
        ti = [-sum(Mi[p][q] * tr[q] for q in range(n)) for p in range(n)]
        needed = dep_component(self.coords[s], i)
        subs = [self.world_in(s, j, t) for j in needed]
        if any(x is None for x in subs):
            return None
        return ('lnk', [Mi[n - 1 - i][n - 1 - j] for j in needed], ti[n - 1 - i], subs)

    def exprs(self, s, t):
        return [self.derive(s, i, t) for i in range(len(self.shapes[s]))]


def make_world(spec):
    return WorldW(spec) if spec.get('kind') == 'world' else World(spec)


def ev(tree, pos):
    """exact position, or None when it is not a finite number (outside the domain of a partial link)"""
    if tree[0] == 'pix':
        return pos[tree[1]]
    if tree[0] == 'world':
        return sum(c * pos[j] for j, c in tree[1]) + tree[2]
    if tree[0] == 'guard':
        x = ev(tree[2], pos)
        return x if (x is not None and x >= tree[1]) else None
    vals = [ev(a, pos) for a in tree[3]]
    if any(v is None for v in vals):
        return None
    return sum(c * v for c, v in zip(tree[1], vals)) + tree[2]


def tdims(tree):
    if tree[0] == 'pix':
        return {tree[1]}
    if tree[0] == 'world':
        return set(tree[3])
    if tree[0] == 'guard':
        return tdims(tree[2])
    out = set()
    for a in tree[3]:
        out |= tdims(a)
    return out


def mkpart(a, b, c, undef):
    fa, fb, fc = float(F(a)), float(F(b)), float(F(c))
    uv = {'nan': np.nan, 'inf': np.inf, '-inf': -np.inf}[undef]

    def fpart(x):
        x = np.asarray(x, dtype=float)
        return np.where(x >= fc, fa * x + fb, uv)
    fpart.spec = ([F(a)], F(b))
    fpart.guard = F(c)
    return fpart


def mkfun(coefs, const):
    cf = [float(c) for c in coefs]
    k = float(const)
    if len(cf) == 1:
        def f1(x):
            return cf[0] * x + k
        f = f1
    elif len(cf) == 2:
        def f2(x, y):
            return cf[0] * x + cf[1] * y + k
        f = f2
    else:
        def f3(x, y, z):
            return cf[0] * x + cf[1] * y + cf[2] * z + k
        f = f3
    f.spec = ([F(c) for c in coefs], F(const))
    return f


class Built:
    """the glue objects of a world"""

    def __init__(self, world):
        from glue.core import Data, DataCollection
        from glue.core.link_helpers import LinkSame
        from glue.core.component_link import ComponentLink
        self.world = world
        self.data = []
        self.full = []       # per dataset: {'attr': [arrays], 'mask': [arrays]}
        self.states = []
        self.presets = []
        for k, sh in enumerate(world.shapes):
            size = int(np.prod(sh))
            v = (np.arange(size) + 100 * (k + 1)).reshape(sh)
            u = ((np.arange(size) * 7 + 3 * k) % 11 - 5).reshape(sh)
            dk = (world.spec.get('dask') or [None] * world.n)[k]
            vv, uu = v, u
            if dk is not None:
                # a dask-backed source: values are loaded block-wise through the sub-region branch of the buffer code
                import dask.array as da
                chunks = tuple(max(1, min(int(dk['chunks'][q % len(dk['chunks'])]), int(n_))) for q, n_ in enumerate(sh))
                vv = da.from_array(v, chunks=chunks)
                if dk.get('both'):
                    uu = da.from_array(u, chunks=chunks[::-1] if len(set(sh)) == 1 else chunks)
            if getattr(world, 'coords', None) is not None:
                d = Data(v=vv, u=uu, label='d%d' % k, coords=mk_coords(world.coords[k]))
            else:
                d = Data(v=vv, u=uu, label='d%d' % k)
            self.data.append(d)
            thr = 100 * (k + 1) + size // 2
            st = [d.id['v'] > thr, (d.id['u'] < 0) | (d.id['v'] > thr + 1)]
            self.states.append(st)
            pres = state_presets(k, size)
            self.presets.append(pres)
            # masks 2.. : what a RangeSubsetState on v selects for each preset range (the alias stream changes lo / hi in place)
            self.full.append({'attr': [v, u], 'mask': [v > thr, (u < 0) | (v > thr + 1)] + [(v >= lo) & (v <= hi) for lo, hi in pres]})
        self.dc = DataCollection(self.data)
        if getattr(world, 'coords', None) is not None:
            for k in range(1, world.n):
                for a, b in enumerate(world.wlink[k]):
                    if b is not None:
                        self.dc.add_link(LinkSame(self.data[0].world_component_ids[b], self.data[k].world_component_ids[a]))
            return
        for k in range(1, world.n):
            p = world.parent[k]
            for i, rel in enumerate(world.rels[k]):
                if rel is None:
                    continue
                ci = self.data[k].pixel_component_ids[i]
                if rel[0] == 'same':
                    self.dc.add_link(LinkSame(self.data[p].pixel_component_ids[rel[1]], ci))
                elif rel[0] == 'both':
                    a, b = fr(rel[2]), fr(rel[3])
                    self.dc.add_link(ComponentLink([self.data[p].pixel_component_ids[rel[1]]], ci,
                                                   using=mkfun([a], b), inverse=mkfun([1 / a], -b / a)))
                elif rel[0] == 'part':
                    self.dc.add_link(ComponentLink([self.data[p].pixel_component_ids[rel[1]]], ci,
                                                   using=mkpart(rel[2], rel[3], rel[4], rel[5])))
                else:
                    self.dc.add_link(ComponentLink([self.data[p].pixel_component_ids[j] for j, _ in rel[1]], ci,
                                                   using=mkfun([fr(c) for _, c in rel[1]], fr(rel[2]))))


NPRESET = 4
NMASK = 2 + NPRESET      # masks per dataset on the wire: the two fixed states, then the preset ranges
NSLOT = 4                # subset-state objects per dataset: 0, 1 = Built.states (never changed), 2, 3 = RangeSubsetState objects changed in place


def state_presets(k, size):
    """(lo, hi) ranges over v = 100 (k + 1) .. 100 (k + 1) + size - 1; the last one is empty"""
    base = 100 * (k + 1)
    return [(base, base + size // 2), (base + size // 2 + 1, base + size), (base + 1, base + max(size - 2, 0)), (base + size, base)]


def glue_tree(B, s, i, t):
    """the structure glue actually uses (walk of _get_external_link, as translate_pixel does): cross-check of World.derive"""
    from glue.core.link_helpers import identity
    T = B.data[t]

    def walk(cid, depth=0):
        if depth > 12:
            return None
        if cid in T.pixel_component_ids:
            return ('pix', cid.axis)
        link = T._get_external_link(cid)
        if link is None:
            return None
        f = link._using
        spec = ([F(1)], F(0)) if f is identity else getattr(f, 'spec', None)
        if spec is None:
            return None
        subs = [walk(c, depth + 1) for c in link._from]
        if any(x is None for x in subs):
            return None
        if getattr(f, 'guard', None) is not None:
            subs = [('guard', f.guard, subs[0])]
        return ('lnk', spec[0], spec[1], subs)
    return walk(B.data[s].pixel_component_ids[i])


def structure_ok(B):
    """does the harness's own derivation of every (source axis, frame) agree with the links glue uses?"""
    w = B.world
    for s in range(w.n):
        for t in range(w.n):
            for i in range(len(w.shapes[s])):
                a, b = w.derive(s, i, t), glue_tree(B, s, i, t)
                if (a is None) != (b is None):
                    return False
                if a is not None:
                    if tdims(a) != tdims(b):
                        return False
                    for pos in ([F(1), F(2), F(5), F(-3)], [F(0), F(7), F(1, 2), F(4)]):
                        if ev(a, pos) != ev(b, pos):
                            return False
    return True


# ------------------------------------------------------------------ requests
def bound_coords(b):
    if b[0] == 's':
        return [fr(b[1])]
    lo, hi, n = fr(b[1]), fr(b[2]), int(b[3])
    if n == 1:
        return [lo]
    return [lo + k * (hi - lo) / (n - 1) for k in range(n)]


def bound_py(b, rng_int=False):
    if b[0] == 's':
        v = fr(b[1])
        return int(v) if (rng_int and v.denominator == 1) else float(v)
    return (float(fr(b[1])), float(fr(b[2])), int(b[3]))


def round_nearest(x):
    """nearest integer of a Fraction that is not exactly at a half"""
    f = x.numerator // x.denominator
    r = x - f
    return f if r < F(1, 2) else f + 1


def direct(world, built_full, req):
    """the property evaluated directly: ('err', name) | ('ok', array) | ('half',) when a position is exactly at a half-integer"""
    s, t = req['s'], req['t']
    w = req['what']
    if w[0] in ('none', 'both'):
        return ('err', 'ValueError')
    bounds = req['bounds']
    for b in bounds:
        if b[0] == 'r' and int(b[3]) < 1:
            return ('err', 'ValueError')
    if len(bounds) != len(world.shapes[t]):
        return ('err', 'ValueError')
    trees = world.exprs(s, t)
    if any(x is None for x in trees):
        return ('err', 'IncompatibleAttribute')
    dims_all = set()
    for x in trees:
        dims_all |= tdims(x)
    if s != t and not req['broadcast']:
        for i, b in enumerate(bounds):
            if b[0] == 'r' and i not in dims_all:
                return ('err', 'IncompatibleDataException')
    coords = [bound_coords(b) for b in bounds]
    oshape = tuple(len(c) for c, b in zip(coords, bounds) if b[0] == 'r')
    src = built_full[s]['attr' if w[0] == 'attr' else 'mask'][w[1]]
    shape_s = world.shapes[s]
    vals = []
    nundef = 0
    for g in itertools.product(*[range(len(c)) for c in coords]):
        pos = [coords[j][g[j]] for j in range(len(coords))]
        idx = []
        inside = True
        for i, tr in enumerate(trees):
            x = ev(tr, pos)
            if x is None:              # not a finite number: the sample corresponds to no pixel of the source
                inside = False
                nundef += 1
                idx.append(0)
                continue
            if (2 * x).denominator == 1 and x.denominator != 1:
                return ('half',)
            k = round_nearest(x)
            if not (0 <= k < shape_s[i]):
                inside = False
            idx.append(k)
        if inside:
            vals.append(src[tuple(idx)])
        else:
            vals.append(np.nan if w[0] == 'attr' else False)
    arr = np.array(vals, dtype=float if w[0] == 'attr' else bool).reshape(oshape)
    return ('ok', arr, nundef)


def run_impl(B, req, cache_id):
    from glue.core.fixed_resolution_buffer import compute_fixed_resolution_buffer
    s, t = req['s'], req['t']
    w = req['what']
    kw = {}
    if w[0] in ('attr', 'both'):
        kw['target_cid'] = B.data[s].id[['v', 'u'][w[1]]]
    if w[0] == 'mask':
        kw['subset_state'] = B.states[s][w[1]]
    if w[0] == 'both':
        kw['subset_state'] = B.states[s][w[2]]
    bounds = [bound_py(b, req.get('ints', False)) for b in req['bounds']]
    tgt = None if (s == t and req.get('implicit_target')) else B.data[t]
    try:
        r = compute_fixed_resolution_buffer(B.data[s], bounds, target_data=tgt, broadcast=req['broadcast'], cache_id=cache_id, **kw)
        return ('ok', np.array(r))
    except Exception as e:  # noqa
        return ('err', type(e).__name__)


def same_out(a, b):
    if a[0] != b[0]:
        return False
    if a[0] == 'err':
        return a[1] == b[1]
    x, y = a[1], b[1]
    if x.shape != y.shape:
        return False
    if x.dtype == bool or y.dtype == bool:
        return x.dtype == y.dtype and bool(np.array_equal(x, y))
    return bool(np.array_equal(x, y, equal_nan=True))


def brief(o):
    if o[0] != 'ok':
        return list(o)
    return {'shape': list(o[1].shape), 'values': [('nan' if (isinstance(v, float) and v != v) else v) for v in o[1].ravel().tolist()[:30]]}


# ------------------------------------------------------------------ wire
def q_enc(x):
    x = F(x)
    return (0, [x.numerator, x.denominator])


def tree_enc(tr):
    if tr is None:
        return (0, [])
    return (1, [expr_enc(tr)])


def expr_enc(tr):
    if tr[0] == 'pix':
        return (1, [tr[1]])
    if tr[0] == 'world':
        return (3, [(0, [(0, [j, q_enc(c)]) for j, c in tr[1]]), q_enc(tr[2]), Z(sorted(tr[3]))])
    if tr[0] == 'guard':
        return (4, [q_enc(tr[1]), expr_enc(tr[2])])
    return (2, [(0, [q_enc(c) for c in tr[1]]), q_enc(tr[2]), (0, [expr_enc(a) for a in tr[3]])])


def world_enc(world, full, pad=False):
    """pad: mask m of dataset k gets the index NMASK * k + m, so that distinct subset-state objects select distinct mask slots"""
    ds = []
    for k, sh in enumerate(world.shapes):
        attrs = (0, [Z(a.ravel().tolist()) for a in full[k]['attr']])
        masks = (0, ([Z([])] * (NMASK * k) if pad else []) + [Z([int(x) for x in m.ravel().tolist()]) for m in full[k]['mask']])
        ds.append((0, [Z(sh), attrs, masks]))
    links = []
    for s in range(world.n):
        for t in range(world.n):
            links.append((0, [s, t, (0, [tree_enc(x) for x in world.exprs(s, t)])]))
    return (0, [(0, ds), (0, links)])


def req_enc(req, cache_num):
    bs = []
    for b in req['bounds']:
        if b[0] == 's':
            bs.append((1, [q_enc(b[1])]))
        else:
            bs.append((2, [q_enc(b[1]), q_enc(b[2]), int(b[3])]))
    w = req['what']
    we = {'none': (0, []), 'attr': (1, w[1:2]), 'mask': (2, w[1:2]), 'both': (3, w[1:3])}[w[0]]
    ce = (0, []) if cache_num is None else (1, [cache_num])
    return (0, [req['s'], req['t'], (0, bs), we, 1 if req['broadcast'] else 0, ce])


def dec_out(t, is_mask):
    if is_err(t):
        return ('err', ERR.get(err_code(t), 'model-error-%s' % err_code(t)))
    sh = to_zs(kids(t)[0])
    vals = []
    for v in kids(kids(t)[1]):
        if tag(v) == 0:
            vals.append(np.nan)
        else:
            vals.append(kids(v)[0][0])
    if is_mask:
        return ('ok', np.array([bool(v) for v in vals], dtype=bool).reshape(sh))
    return ('ok', np.array(vals, dtype=float).reshape(sh))


# ------------------------------------------------------------------ generation
QUARTERS = [F(k, 4) for k in range(-8, 25)]


def gen_world(rng, maxdim=3, maxsize=4, nds=None, partial=True):
    n = nds or rng.choice([1, 2, 2, 3, 3])
    shapes = []
    for k in range(n):
        nd = rng.choice([1, 2, 2, 3][:maxdim + 1]) if maxdim >= 3 else rng.choice([1, 2, 2][:maxdim + 1])
        shapes.append([rng.choice(list(range(1, maxsize + 1))) for _ in range(nd)])
    rels = [None]
    for k in range(1, n):
        p = rng.randrange(k)
        pn = len(shapes[p])
        # a parent axis used by a two-way relation of this child is used by no other axis of this child: otherwise an
        # axis of the child becomes derivable from another axis of the same child by a detour through the parent, and
        # which of the competing links the link manager picks is not determined (that is C03's subject)
        two_way, one_way = set(), set()
        axes = []
        for i in range(len(shapes[k])):
            r = rng.random()
            free2 = [j for j in range(pn) if j not in two_way and j not in one_way]
            free1 = [j for j in range(pn) if j not in two_way]
            if r < 0.06 or (not free1):
                axes.append(None)
            elif r < 0.16 and partial:
                j = rng.choice(free1)
                one_way.add(j)
                axes.append(['part', j, fs(rng.choice([F(1), F(2), F(1, 2), F(-1)])), fs(rng.choice([F(0), F(-1), F(1, 4)])),
                             fs(rng.choice([F(0), F(1), F(1, 2), F(-1, 4)])), rng.choice(['nan', 'nan', 'inf', '-inf'])])
            elif r < 0.46 and free2:
                j = rng.choice(free2)
                two_way.add(j)
                axes.append(['same', j])
            elif r < 0.72 and free2:
                j = rng.choice(free2)
                two_way.add(j)
                axes.append(['both', j, fs(rng.choice([F(1), F(2), F(-1), F(1, 2), F(3), F(-2), F(3, 2)])), fs(rng.choice([F(0), F(1), F(-1), F(1, 4), F(2), F(-3, 4)]))])
            else:
                m = min(len(free1), rng.choice([1, 1, 2]))
                js = rng.sample(free1, m)
                one_way.update(js)
                axes.append(['fwd', [[j, fs(rng.choice([F(1), F(-1), F(2), F(1, 2), F(0)]))] for j in js], fs(rng.choice([F(0), F(1), F(1, 4), F(-1)]))])
        rels.append({'parent': p, 'axes': axes})
    return {'shapes': shapes, 'rels': rels, 'dask': gen_dask(rng, shapes)}


def gen_dask(rng, shapes, p=0.3):
    """per dataset None (numpy) or a chunk layout for a dask-backed `v` (and sometimes `u`)"""
    if rng.random() >= p:
        return None
    out = []
    for sh in shapes:
        if rng.random() < 0.3:
            out.append(None)
        else:
            kind = rng.choice(['one', 'unit', 'two', 'mixed'])
            ch = {'one': [max(sh)] * len(sh), 'unit': [1] * len(sh), 'two': [2] * len(sh),
                  'mixed': [rng.choice([1, 2, 3]) for _ in sh]}[kind]
            out.append({'chunks': ch, 'both': rng.random() < 0.5})
    return out


def gen_bound(rng, size, scalar_p=0.45):
    if scalar_p < 1 and rng.random() < 0.22:
        # one sample per pixel ("native resolution"): a window of n pixels starting at a, possibly overhanging an edge, possibly flipped
        a = rng.randrange(-2, size + 1)
        n = rng.randrange(1, size + 3)
        lo, hi = a, a + n - 1
        if rng.random() < 0.4:
            lo, hi = hi, lo
        return ['r', fs(lo), fs(hi), n]
    if rng.random() < scalar_p:
        v = rng.choice([F(k) for k in range(-1, size + 1)] * 3 + [F(k, 4) for k in range(-4, 4 * size + 4) if k % 2])
        return ['s', fs(v)]
    lo = rng.choice([F(0)] * 3 + [F(k, 4) for k in range(-6, 4 * size)])
    hi = rng.choice([F(size - 1)] * 3 + [F(k, 4) for k in range(-2, 4 * size + 8)])
    n = rng.choice([1, 2, 3, 3, 4, 5, size, size])
    return ['r', fs(lo), fs(hi), max(1, n)]


def gen_request(rng, world, prev=None):
    if prev is not None and rng.random() < 0.75:
        r = dict(prev, bounds=[list(b) for b in prev['bounds']], what=list(prev['what']))
        op = rng.choice(['repeat', 'scalar', 'scalar', 'scalar', 'what', 'source', 'target', 'broadcast', 'range', 'cache'])
        if op == 'scalar':
            sc = [i for i, b in enumerate(r['bounds']) if b[0] == 's']
            if sc:
                i = rng.choice(sc)
                r['bounds'][i] = gen_bound(rng, world.shapes[r['t']][i], scalar_p=1.0)
        elif op == 'range':
            i = rng.randrange(len(r['bounds']))
            r['bounds'][i] = gen_bound(rng, world.shapes[r['t']][i])
        elif op == 'what':
            r['what'] = rng.choice([['attr', 0], ['attr', 1], ['mask', 0], ['mask', 1]])
        elif op == 'source':
            r['s'] = rng.randrange(world.n)
        elif op == 'target':
            # another reference frame with the same number of dimensions, same bounds
            same_nd = [k for k in range(world.n) if k != r['t'] and len(world.shapes[k]) == len(world.shapes[r['t']])]
            if same_nd:
                r['t'] = rng.choice(same_nd)
        elif op == 'broadcast':
            r['broadcast'] = not r['broadcast']
        elif op == 'cache':
            r['cache'] = rng.choice(['A', 'A', 'B', None])
        return r
    t = rng.randrange(world.n)
    s = rng.choice([t] + list(range(world.n)) * 2)
    for _ in range(4):       # prefer pairs for which every source axis is derivable
        if all(x is not None for x in world.exprs(s, t)):
            break
        t = rng.randrange(world.n)
        s = rng.choice([t] + list(range(world.n)) * 2)
    return {'s': s, 't': t, 'bounds': [gen_bound(rng, size) for size in world.shapes[t]],
            'what': rng.choice([['attr', 0], ['attr', 0], ['attr', 1], ['mask', 0], ['mask', 1]]),
            'broadcast': rng.random() < 0.8, 'cache': rng.choice(['A', 'A', 'A', 'A', 'B', 'B', None]),
            'ints': rng.random() < 0.3, 'implicit_target': rng.random() < 0.3}


def random_unimodular(rng, n, steps=3):
    M = [[int(i == j) for j in range(n)] for i in range(n)]
    for _ in range(steps):
        op = rng.randrange(3)
        i, j = rng.randrange(n), rng.randrange(n)
        if op == 0 and i != j:
            c = rng.choice([-2, -1, 1, 2])
            M[i] = [a + c * b for a, b in zip(M[i], M[j])]
        elif op == 1 and i != j:
            M[i], M[j] = M[j], M[i]
        elif op == 2:
            M[i] = [-a for a in M[i]]
    return M


def gen_cspec(rng, n, allow_coupled=True):
    """identity / diagonal / permuted / sheared (triangular) / coupled coordinates with small integer and dyadic entries"""
    kind = rng.choice(['id', 'diag', 'perm', 'shear', 'shear', 'coupled'] if allow_coupled and n >= 2 else ['id', 'diag', 'perm'])
    if kind == 'id':
        return ['id', n]
    sc = [F(1), F(1), F(2), F(1, 2), F(-1)]
    M = [[F(0)] * n for _ in range(n)]
    if kind == 'diag':
        for i in range(n):
            M[i][i] = rng.choice(sc)
    elif kind == 'perm':
        p = list(range(n))
        rng.shuffle(p)
        for i in range(n):
            M[i][p[i]] = rng.choice(sc)
    elif kind == 'shear':
        up = rng.random() < 0.5
        for i in range(n):
            M[i][i] = rng.choice([F(1), F(1), F(-1), F(2)])
        cnt = 0
        for i in range(n):
            for j in range(n):
                if (j > i if up else j < i) and (rng.random() < 0.6 or cnt == 0):
                    M[i][j] = rng.choice([F(1), F(2), F(-1), F(1, 2)])
                    cnt += 1
    else:
        U = random_unimodular(rng, n, rng.randrange(2, 5))
        d = [rng.choice([F(1), F(1), F(2), F(1, 2)]) for _ in range(n)]
        M = [[d[i] * U[i][j] for j in range(n)] for i in range(n)]
    t = [rng.choice([F(0), F(0), F(1), F(-1), F(1, 2), F(2)]) for _ in range(n)]
    return ['aff', [[fs(x) for x in r] for r in M], [fs(x) for x in t]]


def coords_kind(cspec):
    if cspec[0] == 'id':
        return 'identity'
    M, _ = cspec_mt(cspec)
    n = len(M)
    off = [(i, j) for i in range(n) for j in range(n) if i != j and M[i][j] != 0]
    if not off:
        return 'diagonal'
    if all(sum(1 for x in r if x != 0) == 1 for r in M):
        return 'permuted'
    if all(i < j for i, j in off) or all(i > j for i, j in off):
        return 'sheared'
    return 'coupled'


def gen_world_w(rng):
    nt = rng.choice([1, 2, 2, 3, 3, 3])
    nds = rng.choice([2, 2, 2, 3])
    shapes = [[rng.choice([2, 3, 4]) for _ in range(nt)]]
    coords = [gen_cspec(rng, nt)]
    wlink = [None]
    for k in range(1, nds):
        ns = nt if (nt == 1 or rng.random() < 0.7) else nt - 1
        shapes.append([rng.choice([2, 3, 4, 5]) for _ in range(ns)])
        coords.append(gen_cspec(rng, ns, allow_coupled=rng.random() < 0.6))
        tgt = rng.sample(range(nt), ns)
        if rng.random() < 0.06:
            tgt[rng.randrange(ns)] = None
        wlink.append(tgt)
    return {'kind': 'world', 'shapes': shapes, 'coords': coords, 'wlink': wlink, 'dask': gen_dask(rng, shapes)}


def step_prefix(rng, world, full):
    """the same ranged bounds with one scalar bound stepping through several values, under one cache id (slicing through a cube)"""
    t = 0
    s = rng.randrange(1, world.n) if world.n > 1 else 0
    nt = len(world.shapes[t])
    z = rng.randrange(nt)
    base = []
    for j, size in enumerate(world.shapes[t]):
        if j == z:
            base.append(None)
        elif rng.random() < 0.75:
            base.append(['r', '0', fs(size - 1), size])
        else:
            base.append(gen_bound(rng, size))
    vals = [F(v) for v in range(world.shapes[t][z])] + [F(-1), F(world.shapes[t][z]), F(1, 4), F(5, 4)]
    rng.shuffle(vals)
    what = rng.choice([['attr', 0], ['attr', 0], ['mask', 0]])
    out = []
    for v in vals[:rng.randrange(2, 5)]:
        b = [list(x) if x is not None else ['s', fs(v)] for x in base]
        r = {'s': s, 't': t, 'bounds': b, 'what': list(what), 'broadcast': True, 'cache': 'A', 'ints': rng.random() < 0.3, 'implicit_target': False}
        if direct(world, full, r)[0] != 'half':
            out.append(r)
    return out


def gen_sequence(rng, world, full, maxlen, prefix=None):
    seq = list(prefix or [])
    prev = seq[-1] if seq else None
    tries = 0
    while len(seq) < maxlen and tries < maxlen * 20:
        tries += 1
        r = gen_request(rng, world, prev)
        if direct(world, full, r)[0] == 'half':
            continue
        seq.append(r)
        prev = r
    return seq


# ------------------------------------------------------------------ running one sequence
_seqno = [0]


def run_sequence(B, seq):
    """-> list of (cached outcome, plain outcome, direct outcome)"""
    from glue.core import fixed_resolution_buffer as frb
    _seqno[0] += 1
    ids = {}
    out = []
    for r in seq:
        cid = None
        if r['cache'] is not None:
            cid = 'seq%d-%s' % (_seqno[0], r['cache'])
            ids[r['cache']] = cid
        cached = run_impl(B, r, cid)
        plain = run_impl(B, r, None)
        out.append((cached, plain, direct(B.world, B.full, r)))
    for cid in ids.values():
        frb.ARRAY_CACHE.pop(cid, None)
        frb.PIXEL_CACHE.pop(cid, None)
    return out


def judge(R, stream, world_spec, seq, res, model_cached=None, model_plain=None):
    """oracle + correspondence for one executed sequence; returns number of oracle failures"""
    nf = 0
    for k, (r, (cached, plain, dr)) in enumerate(zip(seq, res)):
        case = {'stream': stream, 'world': world_spec, 'requests': seq[:k + 1], 'index': k}
        if not same_out(cached, plain):
            nf += 1
            oracle_fail(R, case, {'why': 'result with cache_id differs from result without', 'cached': brief(cached), 'uncached': brief(plain)}, 'cache')
        if dr[0] == 'ok' and not same_out(plain, dr):
            nf += 1
            oracle_fail(R, case, {'why': 'buffer differs from nearest-pixel resampling', 'impl': brief(plain), 'expected': brief(dr)}, 'nearest')
        elif dr[0] == 'err' and plain[0] == 'ok':
            nf += 1
            oracle_fail(R, case, {'why': 'an array is returned where none can be computed', 'impl': brief(plain), 'expected': brief(dr)}, 'nearest')
        if model_cached is not None:
            is_mask = r['what'][0] == 'mask'
            mc, mp = dec_out(model_cached[k], is_mask), dec_out(model_plain[k], is_mask)
            if not same_out(mc, cached):
                corr_fail(R, dict(case, observed='cached'), {'model': brief(mc), 'impl': brief(cached)})
            if not same_out(mp, plain):
                corr_fail(R, dict(case, observed='uncached'), {'model': brief(mp), 'impl': brief(plain)})
    return nf


_nfail = {}


def corr_fail(R, case, detail):
    k = ('corr', case.get('stream'))
    _nfail[k] = _nfail.get(k, 0) + 1
    if _nfail[k] <= 15:
        R.fail('correspondence', case, detail)


def oracle_fail(R, case, detail, cls):
    k = ('oracle', cls)
    _nfail[k] = _nfail.get(k, 0) + 1
    R.hist['oracle_failure_class'][cls] += 1
    if _nfail[k] <= 25:
        R.fail('oracle', case, dict(detail, failure_class=cls), key=None)


def req_kind(world, r, dr):
    if dr[0] == 'err':
        return dr[1]
    if dr[0] != 'ok':
        return dr[0]
    a = dr[1]
    if a.size == 0:
        return 'empty'
    if a.dtype != bool and np.all(np.isnan(a)):
        return 'all-outside'
    if a.dtype != bool and np.any(np.isnan(a)):
        return 'partly-outside'
    return 'inside'


def stream_sequences(R, name, nseq, maxlen, maxdim, maxsize, world_links=False):
    lines, meta = [], []
    for i in range(nseq):
        rng = R.subrng(name, i)
        spec = gen_world_w(rng) if world_links else gen_world(rng, maxdim=maxdim, maxsize=maxsize)
        world = make_world(spec)
        B = Built(world)
        if not world_links and not structure_ok(B):
            R.hist['skipped']['link structure differs from the harness derivation'] += 1
            continue
        prefix = step_prefix(rng, world, B.full) if (world_links or rng.random() < 0.25) else None
        seq = gen_sequence(rng, world, B.full, max(len(prefix or []), rng.randrange(2, maxlen + 1)), prefix)
        res = run_sequence(B, seq)
        cache_num = {None: None, 'A': 1, 'B': 2}
        lines.append(enc((1, [world_enc(world, B.full), (0, [req_enc(r, cache_num[r['cache']]) for r in seq])])))
        meta.append((spec, seq, res))
        for r, (cached, plain, dr) in zip(seq, res):
            R.count((name, repr(spec), repr(r)), nontrivial=dr[0] == 'ok' and dr[1].size > 0 and r['s'] != r['t'],
                    stream=name, outcome=req_kind(world, r, dr), what=r['what'][0], cache=str(r['cache']),
                    n_scalar_bounds=sum(1 for b in r['bounds'] if b[0] == 's'), same_frame=r['s'] == r['t'],
                    undefined_positions=(dr[0] == 'ok' and dr[2] > 0),
                    source_backend=('dask' if (spec.get('dask') or [None] * world.n)[r['s']] is not None else 'numpy'),
                    ref_coords=(coords_kind(spec['coords'][0]) if world_links else 'none'))
        if i < 2:
            R.sample({'world': spec, 'requests': seq[:3]})
    outs = R.model(lines)
    for (spec, seq, res), o in zip(meta, outs):
        if o is None:
            judge(R, name, spec, seq, res)
            continue
        mc, mp = kids(kids(o)[0]), kids(kids(o)[1])
        judge(R, name, spec, seq, res, mc, mp)
    return len(meta)


def stream_exhaustive(R):
    """small scope: two fixed worlds, every sequence of length <= L over a small request alphabet under one cache id"""
    worlds = [
        {'shapes': [[2, 3], [3, 2]], 'rels': [None, {'parent': 0, 'axes': [['same', 1], ['both', 0, '2', '-1']]}]},
        {'shapes': [[2, 2, 2], [2, 3]], 'rels': [None, {'parent': 0, 'axes': [['same', 2], ['fwd', [[0, '1'], [1, '1']], '0']]}]},
    ]
    L = R.pick(3, 4)
    lines, meta = [], []
    for spec in worlds:
        world = World(spec)
        B = Built(world)
        nt = len(world.shapes[0])
        alpha = []
        full_r = [['r', '0', fs(world.shapes[0][j] - 1), world.shapes[0][j]] for j in range(nt)]
        for s in (0, 1):
            for sc_axis in range(nt):
                for v in ('0', '1'):
                    b = [list(x) for x in full_r]
                    b[sc_axis] = ['s', v]
                    alpha.append({'s': s, 't': 0, 'bounds': b, 'what': ['attr', 0], 'broadcast': True, 'cache': 'A'})
        alpha.append({'s': 1, 't': 0, 'bounds': [['s', '1']] + [list(x) for x in full_r[1:]], 'what': ['mask', 0], 'broadcast': True, 'cache': 'A'})
        alpha.append({'s': 1, 't': 0, 'bounds': [['s', '1']] + [list(x) for x in full_r[1:]], 'what': ['attr', 1], 'broadcast': True, 'cache': 'A'})
        alpha.append({'s': 1, 't': 1, 'bounds': [['s', '0'], ['r', '0', '1', 2]], 'what': ['attr', 0], 'broadcast': True, 'cache': 'A'})
        alpha = [a for a in alpha if direct(world, B.full, a)[0] != 'half']
        if R.quick():
            alpha = alpha[:9] + alpha[-3:]
        for ln in range(1, L + 1):
            for seq in itertools.product(alpha, repeat=ln):
                seq = list(seq)
                res = run_sequence(B, seq)
                lines.append(enc((1, [world_enc(world, B.full), (0, [req_enc(r, 1) for r in seq])])))
                meta.append((spec, seq, res))
                R.count(('exh', repr(spec), repr(seq)), nontrivial=True, stream='exhaustive', seq_len=ln)
    outs = R.model(lines)
    for (spec, seq, res), o in zip(meta, outs):
        if o is None:
            judge(R, 'exhaustive', spec, seq, res)
        else:
            judge(R, 'exhaustive', spec, seq, res, kids(kids(o)[0]), kids(kids(o)[1]))
    R.stream('exhaustive', sequences=len(meta), exhaustive=True,
             bound='2 fixed worlds (permuted + scaled link; two-input link), every request sequence of length 1..%d over an alphabet of %d requests under one cache id' % (L, len(alpha)))


def stream_malformed(R):
    rng = R.subrng('malformed')
    lines, meta = [], []
    for i in range(R.pick(40, 200)):
        spec = gen_world(rng, maxdim=2, maxsize=3)
        world = World(spec)
        B = Built(world)
        seq = gen_sequence(rng, world, B.full, 3)
        bad = dict(seq[-1], bounds=[list(b) for b in seq[-1]['bounds']])
        kind = rng.choice(['none', 'both', 'nsteps'])
        if kind == 'none':
            bad['what'] = ['none']
        elif kind == 'both':
            bad['what'] = ['both', 0, 1]
        else:
            bad['bounds'][rng.randrange(len(bad['bounds']))] = ['r', '0', '1', rng.choice([0, -1])]
        seq = seq + [bad, seq[0]]
        res = run_sequence(B, seq)
        cache_num = {None: None, 'A': 1, 'B': 2}
        lines.append(enc((1, [world_enc(world, B.full), (0, [req_enc(r, cache_num[r['cache']]) for r in seq])])))
        meta.append((spec, seq, res))
        R.count(('mal', repr(spec), repr(seq)), nontrivial=False, stream='malformed', malformed=kind)
    outs = R.model(lines)
    for (spec, seq, res), o in zip(meta, outs):
        if o is None:
            judge(R, 'malformed', spec, seq, res)
        else:
            judge(R, 'malformed', spec, seq, res, kids(kids(o)[0]), kids(kids(o)[1]))
    R.stream('malformed', sequences=len(meta), bound='neither / both of target_cid and subset_state, nsteps < 1: ValueError expected, cache state unchanged')


# ------------------------------------------------------------------ image viewer layer states (oracle only)
def stream_image_layers(R):
    from glue.viewers.image.state import ImageViewerState, ImageLayerState, ImageSubsetLayerState
    N = R.pick(250, 1500)
    nreq = 0
    for i in range(N):
        rng = R.subrng('image', i)
        spec = gen_world(rng, maxdim=3, maxsize=4, nds=rng.choice([2, 2, 3]))
        if len(spec['shapes'][0]) < 2:
            spec['shapes'][0] = spec['shapes'][0] + [rng.choice([2, 3])]
            for r in spec['rels'][1:]:
                pass
        world = World(spec)
        B = Built(world)
        ref = B.data[0]
        vs = ImageViewerState()
        layers = []
        for k in range(world.n):
            ls = ImageLayerState(layer=B.data[k], viewer_state=vs)
            ls.attribute = B.data[k].id['v']
            vs.layers.append(ls)
            layers.append(('attr', k, ls))
        if vs.reference_data is not ref:
            vs.reference_data = ref
        k = rng.randrange(world.n)
        sg = B.dc.new_subset_group(subset_state=B.states[k][0], label='sg')
        sub = [s for s in B.data[k].subsets][0]
        sls = ImageSubsetLayerState(layer=sub, viewer_state=vs)
        vs.layers.append(sls)
        layers.append(('mask', k, sls))
        nt = ref.ndim
        for step in range(R.pick(6, 8)):
            ax = rng.sample(range(nt), 2)
            try:
                vs.x_att = ref.pixel_component_ids[ax[0]]
                vs.y_att = ref.pixel_component_ids[ax[1]]
            except Exception:  # noqa
                continue
            if vs.x_att.axis == vs.y_att.axis:
                continue
            xa, ya = vs.x_att.axis, vs.y_att.axis
            sl = tuple(rng.randrange(world.shapes[0][j]) for j in range(nt))
            vs.slices = sl
            kind, k, ls = rng.choice(layers)
            mode = rng.choice(['view', 'view', 'bounds', 'none'])
            if mode == 'none':
                yb = ['r', '0', fs(world.shapes[0][ya] - 1), world.shapes[0][ya]]
                xb = ['r', '0', fs(world.shapes[0][xa] - 1), world.shapes[0][xa]]
                args = {}
            elif mode == 'view':
                def rs(n):
                    a = rng.randrange(n)
                    b = rng.randrange(a + 1, n + 1)
                    st = rng.choice([1, 1, 2])
                    m = len(range(a, b, st))
                    return slice(a, b, st), ['r', fs(a), fs(a + st * (m - 1)), m]
                ysl, yb = rs(world.shapes[0][ya])
                xsl, xb = rs(world.shapes[0][xa])
                args = {'view': [ysl, xsl]}
            else:
                yb = gen_bound(rng, world.shapes[0][ya], scalar_p=0)
                xb = gen_bound(rng, world.shapes[0][xa], scalar_p=0)
                args = {'bounds': [bound_py(yb), bound_py(xb)]}
            bounds = [['s', fs(sl[j])] for j in range(nt)]
            bounds[ya] = yb
            bounds[xa] = xb
            req = {'s': k, 't': 0, 'bounds': bounds, 'what': [kind, 0], 'broadcast': False, 'cache': 'layer'}
            dr = direct(world, B.full, req)
            if dr[0] == 'half':
                continue
            try:
                img = ('ok', np.array(ls.get_sliced_data(**args)))
            except Exception as e:  # noqa
                img = ('err', type(e).__name__)
            if dr[0] == 'ok':
                exp = dr[1]
                if ya > xa:
                    exp = exp.transpose()
                dr = ('ok', exp)
            nreq += 1
            R.count(('image', repr(spec), repr(req), mode), nontrivial=dr[0] == 'ok' and k != 0, stream='image_layers',
                    outcome=req_kind(world, req, dr), what=kind, layer_mode=mode)
            case = {'stream': 'image_layers', 'world': spec, 'layer': [kind, k], 'x_axis': xa, 'y_axis': ya, 'slices': list(sl), 'mode': mode,
                    'ybound': yb, 'xbound': xb, 'history_step': step}
            if dr[0] == 'ok' and not same_out(img, dr):
                oracle_fail(R, case, {'why': 'get_sliced_data differs from nearest-pixel resampling of the plane', 'impl': brief(img), 'expected': brief(dr)}, 'image-plane')
            elif dr[0] == 'err' and img[0] == 'ok':
                oracle_fail(R, case, {'why': 'a plane is returned where none can be computed', 'impl': brief(img), 'expected': brief(dr)}, 'image-plane')
    R.stream('image_layers', requests=nreq, exhaustive=False,
             bound='ImageLayerState / ImageSubsetLayerState.get_sliced_data over histories of slice / axis / view / bounds changes (each layer keeps its cache id), %d viewers' % N)


def stream_world_links(R):
    """links through world coordinates (LinkSame on world ids) with Identity / diagonal affine coordinates: oracle only"""
    from glue.core import Data, DataCollection
    from glue.core.link_helpers import LinkSame
    from glue.core.coordinates import AffineCoordinates, IdentityCoordinates
    from glue.core.fixed_resolution_buffer import compute_fixed_resolution_buffer
    N = R.pick(200, 1500)
    nreq = 0
    for i in range(N):
        rng = R.subrng('wl', i)
        nd = rng.choice([1, 2, 2, 3])
        sh_t = [rng.choice([2, 3, 4]) for _ in range(nd)]
        sh_s = [rng.choice([2, 3, 4]) for _ in range(nd)]

        def mkc():
            if rng.random() < 0.3:
                return IdentityCoordinates(n_dim=nd), [F(1)] * nd, [F(0)] * nd
            sc = [rng.choice([F(1), F(2), F(1, 2), F(-1)]) for _ in range(nd)]
            off = [rng.choice([F(0), F(1), F(-1), F(1, 2)]) for _ in range(nd)]
            A = np.zeros((nd + 1, nd + 1))
            for k in range(nd):
                A[k, k] = float(sc[k])
                A[k, nd] = float(off[k])
            A[nd, nd] = 1
            return AffineCoordinates(A), sc, off       # fits order: index k <-> numpy axis nd-1-k
        ct, sct, offt = mkc()
        cs, scs, offs = mkc()
        v = np.arange(int(np.prod(sh_s))).reshape(sh_s) + 7
        T = Data(x=np.zeros(sh_t), coords=ct, label='T')
        S = Data(v=v, coords=cs, label='S')
        dc = DataCollection([T, S])
        perm = list(range(nd))
        rng.shuffle(perm)
        for a in range(nd):
            dc.add_link(LinkSame(T.world_component_ids[perm[a]], S.world_component_ids[a]))
        seqid = 'wl%d' % i
        for step in range(R.pick(4, 6)):
            bounds = [gen_bound(rng, sh_t[j]) for j in range(nd)]
            coords = [bound_coords(b) for b in bounds]
            oshape = tuple(len(c) for c, b in zip(coords, bounds) if b[0] == 'r')
            vals = []
            half = False
            for g in itertools.product(*[range(len(c)) for c in coords]):
                idx = []
                inside = True
                for a in range(nd):
                    j = perm[a]
                    wt = sct[nd - 1 - j] * coords[j][g[j]] + offt[nd - 1 - j]        # world value of T's numpy axis j
                    x = (wt - offs[nd - 1 - a]) / scs[nd - 1 - a]
                    if (2 * x).denominator == 1 and x.denominator != 1:
                        half = True
                    k = round_nearest(x)
                    inside = inside and 0 <= k < sh_s[a]
                    idx.append(k)
                vals.append(float(v[tuple(idx)]) if inside else np.nan)
            if half:
                continue
            exp = ('ok', np.array(vals, dtype=float).reshape(oshape))
            py = [bound_py(b) for b in bounds]
            outs = []
            for cid in (seqid, None):
                try:
                    outs.append(('ok', np.array(compute_fixed_resolution_buffer(S, py, target_data=T, target_cid=S.id['v'], cache_id=cid))))
                except Exception as e:  # noqa
                    outs.append(('err', type(e).__name__))
            nreq += 1
            R.count(('wl', i, step, repr(bounds)), nontrivial=True, stream='world_links', outcome=req_kind(None, None, exp))
            case = {'stream': 'world_links', 'seed_index': i, 'step': step, 'bounds': bounds}
            if not same_out(outs[0], outs[1]):
                oracle_fail(R, case, {'why': 'cached differs from uncached', 'cached': brief(outs[0]), 'uncached': brief(outs[1])}, 'cache-world')
            if not same_out(outs[1], exp):
                oracle_fail(R, case, {'why': 'buffer differs from nearest-pixel resampling through world coordinates', 'impl': brief(outs[1]), 'expected': brief(exp)}, 'nearest-world')
    R.stream('world_links', requests=nreq, exhaustive=False, bound='LinkSame on world ids, Identity / diagonal AffineCoordinates, permuted axes, 1-3 dims')


def _nl_log2(x):
    with np.errstate(all='ignore'):
        return 2 * np.log2(x)


def _nl_sqrt(x):
    with np.errstate(all='ignore'):
        return 3 * np.sqrt(x) - 1


def _nl_inv(x):
    with np.errstate(all='ignore'):
        return 4 / np.asarray(x, dtype=float)


def _nl_lin(x):
    return 0.5 * x + 1


def stream_nonlinear(R):
    """genuinely non-linear, partial link functions (logarithmic / square-root / reciprocal axis): NaN for x < 0, -inf / +inf at 0.
    Oracle only (the functions are not rational): the same numpy function on the same sample positions, nearest index where the
    result is finite, fill elsewhere; samples within 1e-6 of a half are not generated."""
    from glue.core import Data, DataCollection
    from glue.core.link_helpers import LinkSame
    from glue.core.component_link import ComponentLink
    from glue.core.fixed_resolution_buffer import compute_fixed_resolution_buffer
    funcs = [('log2', _nl_log2), ('sqrt', _nl_sqrt), ('inv', _nl_inv), ('lin', _nl_lin)]
    N = R.pick(150, 1200)
    nreq = 0
    for i in range(N):
        rng = R.subrng('nonlinear', i)
        nd = rng.choice([1, 2, 2])
        sh_t = [rng.choice([2, 3])] * (nd - 1) + [rng.choice([6, 9, 12, 20])]
        sh_s = [rng.choice([2, 3, 4])] * (nd - 1) + [rng.choice([4, 7, 9])]
        fname, f = rng.choice(funcs[:3] * 3 + funcs[3:])
        v = np.arange(int(np.prod(sh_s))).reshape(sh_s) + 10.
        T = Data(x=np.zeros(sh_t), label='T')
        S = Data(v=v, label='S')
        dc = DataCollection([T, S])
        dc.add_link(ComponentLink([T.pixel_component_ids[nd - 1]], S.pixel_component_ids[nd - 1], using=f))
        if nd == 2:
            dc.add_link(LinkSame(T.pixel_component_ids[0], S.pixel_component_ids[0]))
        thr = float(v.mean())
        state = S.id['v'] > thr
        cid = 'nl%d' % i
        ybound = None
        for step in range(R.pick(4, 5)):
            lo = rng.choice([-3, -2, -1, 0, -1.5, 0.25])
            n = rng.choice([4, 6, 9, 12])
            hi = lo + rng.choice([1, 1, 0.5, 2]) * (n - 1)
            xb = (float(lo), float(hi), n)
            if nd == 2 and (ybound is None or rng.random() < 0.6):
                ybound = rng.choice([0, 1, sh_t[0] - 1, -1, (0.0, float(sh_t[0] - 1), sh_t[0])])
            bounds = [xb] if nd == 1 else [ybound, xb]
            xs = np.linspace(*xb)
            px = np.asarray(f(xs), dtype=float)
            fin = np.isfinite(px)
            if np.any(np.abs(px[fin] - np.floor(px[fin]) - 0.5) < 1e-6):
                continue
            ix = np.where(fin, np.round(np.where(fin, px, 0)), -1).astype(int)
            okx = fin & (ix >= 0) & (ix < sh_s[-1])
            if nd == 1:
                exp = np.where(okx, v[np.where(okx, ix, 0)], np.nan)
            else:
                ys = np.linspace(*ybound) if isinstance(ybound, tuple) else np.array([float(ybound)])
                iy = np.round(ys).astype(int)
                oky = (iy >= 0) & (iy < sh_s[0])
                exp = np.where(oky[:, None] & okx[None, :], v[np.where(oky, iy, 0)[:, None], np.where(okx, ix, 0)[None, :]], np.nan)
                if not isinstance(ybound, tuple):
                    exp = exp[0]
            what = rng.choice(['attr', 'attr', 'mask'])
            if what == 'mask':
                expected = ('ok', np.where(np.isnan(exp), False, exp > thr).astype(bool))
                kw = {'subset_state': state}
            else:
                expected = ('ok', exp.astype(float))
                kw = {'target_cid': S.id['v']}
            outs = []
            for c in (cid, None):
                try:
                    outs.append(('ok', np.array(compute_fixed_resolution_buffer(S, list(bounds), target_data=T, cache_id=c, **kw))))
                except Exception as e:  # noqa
                    outs.append(('err', type(e).__name__))
            nreq += 1
            R.count(('nl', i, step), nontrivial=True, stream='nonlinear', link_function=fname, what=what,
                    undefined_positions=bool(np.any(~fin)))
            case = {'stream': 'nonlinear', 'seed_index': i, 'step': step, 'function': fname, 'bounds': repr(bounds), 'what': what,
                    'shapes': [sh_t, sh_s]}
            if not same_out(outs[0], outs[1]):
                oracle_fail(R, case, {'why': 'cached differs from uncached', 'cached': brief(outs[0]), 'uncached': brief(outs[1])}, 'cache-nonlinear')
            if not same_out(outs[1], expected):
                oracle_fail(R, case, {'why': 'buffer differs from nearest-pixel resampling through a partial non-linear link',
                                      'impl': brief(outs[1]), 'expected': brief(expected)}, 'nearest-nonlinear')
    R.stream('nonlinear', requests=nreq, exhaustive=False,
             bound='2*log2(x), 3*sqrt(x)-1, 4/x, x/2+1 as one-way pixel links, 1-2 dims, bounds from x = -3 upwards (NaN for x < 0, +-inf at 0), '
                   'value and mask requests, 4-5 requests per cache id; oracle only')


# ------------------------------------------------------------------ the caller's objects: re-use and in-place change (round 4)
# A history is a list of operations on the caller's own objects and of requests that pass those objects:
#   ['setb', a, i, bound]          bounds_a[i] = bound           (the list object a is kept and changed in place)
#   ['setall', a, [bound, ...]]    bounds_a[:] = [...]
#   ['sets', k, slot, preset]      the RangeSubsetState object `slot` (2 or 3) of dataset k gets lo / hi of the preset (in place)
#   ['req', {...}]                 a request passing the bounds object 'ba' and ('attr', i) | ('state', slot) | ('none',) | ('both', i, slot)
# Nothing here changes data: only the objects that describe the request.
KNOWN_STATE_KEY = 'subset-state-changed-in-place'


def alias_resolve(r, content, st_content):
    """the request as a value (what the objects contain when the call is made), in the form `direct` understands"""
    w = r['what']
    if w[0] == 'state':
        what = ['mask', alias_mask_index(r['s'], w[1], st_content)]
    elif w[0] == 'both':
        what = ['both', w[1], 0]
    else:
        what = list(w)
    return {'s': r['s'], 't': r['t'], 'bounds': [list(b) for b in content[r['ba']]], 'what': what, 'broadcast': r['broadcast'], 'cache': r['cache']}


def alias_mask_index(k, slot, st_content):
    return slot if slot < 2 else 2 + st_content[(k, slot)]


def alias_call(B, r, bounds_obj, states, cache_id):
    from glue.core.fixed_resolution_buffer import compute_fixed_resolution_buffer
    s, t = r['s'], r['t']
    w = r['what']
    kw = {}
    if w[0] in ('attr', 'both'):
        kw['target_cid'] = B.data[s].id[['v', 'u'][w[1]]]
    if w[0] == 'state':
        kw['subset_state'] = states[(s, w[1])]
    if w[0] == 'both':
        kw['subset_state'] = states[(s, w[2])]
    tgt = None if (s == t and r.get('implicit_target')) else B.data[t]
    try:
        res = compute_fixed_resolution_buffer(B.data[s], bounds_obj, target_data=tgt, broadcast=r['broadcast'], cache_id=cache_id, **kw)
        return ('ok', np.array(res))
    except Exception as e:  # noqa
        return ('err', type(e).__name__)


def run_alias(B, case, fresh_bounds=False, fresh_states=False):
    """-> per request (cached outcome, plain outcome, direct outcome, resolved request, info).
    fresh_bounds / fresh_states: the same history, but every in-place change is made by building a NEW list / state object
    (what a caller that never re-uses objects does); used only to describe and classify a failure."""
    from glue.core import fixed_resolution_buffer as frb
    from glue.core.subset import RangeSubsetState
    _seqno[0] += 1
    ints = case.get('ints', False)
    content = [[list(b) for b in bl] for bl in case['bounds0']]
    objs = [[bound_py(b, ints) for b in bl] for bl in content]
    st_content, states = {}, {}
    for k in range(B.world.n):
        states[(k, 0)], states[(k, 1)] = B.states[k]
        for slot in (2, 3):
            p = case['states0'][k][slot - 2]
            states[(k, slot)] = RangeSubsetState(B.presets[k][p][0], B.presets[k][p][1], B.data[k].id['v'])
            st_content[(k, slot)] = p
    ids, out = {}, []
    b_changed, s_changed = set(), set()     # objects changed in place since the history began
    for op in case['ops']:
        if op[0] == 'setb':
            _, a, i, b = op
            content[a][i] = list(b)
            if fresh_bounds:
                objs[a] = list(objs[a])
            objs[a][i] = bound_py(b, ints)
            b_changed.add(a)
        elif op[0] == 'setall':
            _, a, bl = op
            content[a] = [list(b) for b in bl]
            if fresh_bounds:
                objs[a] = [bound_py(b, ints) for b in bl]
            else:
                objs[a][:] = [bound_py(b, ints) for b in bl]
            b_changed.add(a)
        elif op[0] == 'sets':
            _, k, slot, p = op
            st_content[(k, slot)] = p
            lo, hi = B.presets[k][p]
            if fresh_states:
                states[(k, slot)] = RangeSubsetState(lo, hi, B.data[k].id['v'])
            else:
                states[(k, slot)].lo = lo
                states[(k, slot)].hi = hi
            s_changed.add((k, slot))
        else:
            r = op[1]
            cid = None
            if r['cache'] is not None:
                cid = 'alias%d-%s' % (_seqno[0], r['cache'])
                ids[r['cache']] = cid
            rr = alias_resolve(r, content, st_content)
            cached = alias_call(B, r, objs[r['ba']], states, cid)
            plain = alias_call(B, r, objs[r['ba']], states, None)
            info = {'bounds_object_changed_in_place': r['ba'] in b_changed,
                    'state_object_changed_in_place': r['what'][0] == 'state' and (r['s'], r['what'][1]) in s_changed}
            out.append((cached, plain, direct(B.world, B.full, rr), rr, info))
    for cid in ids.values():
        frb.ARRAY_CACHE.pop(cid, None)
        frb.PIXEL_CACHE.pop(cid, None)
    return out


def bound_enc(b):
    if b[0] == 's':
        return (1, [q_enc(b[1])])
    return (2, [q_enc(b[1]), q_enc(b[2]), int(b[3])])


def alias_enc(world, full, case):
    """wire form of a history: the world (masks padded), the caller's objects, the operations"""
    def st_addr(k, slot):
        return NSLOT * k + slot
    hs = []
    for k in range(world.n):
        hs += [NMASK * k, NMASK * k + 1] + [NMASK * k + 2 + p for p in case['states0'][k]]
    heap = (0, [(0, [(0, [bound_enc(b) for b in bl]) for bl in case['bounds0']]), Z(hs)])
    ops = []
    cache_num = {None: None, 'A': 1, 'B': 2}
    for op in case['ops']:
        if op[0] == 'setb':
            ops.append((1, [op[1], op[2], bound_enc(op[3])]))
        elif op[0] == 'setall':
            ops.append((2, [op[1], (0, [bound_enc(b) for b in op[2]])]))
        elif op[0] == 'sets':
            ops.append((3, [st_addr(op[1], op[2]), NMASK * op[1] + 2 + op[3]]))
        else:
            r = op[1]
            w = r['what']
            if w[0] == 'attr':
                we = (1, [w[1]])
            elif w[0] == 'state':
                we = (2, [st_addr(r['s'], w[1])])
            elif w[0] == 'both':
                we = (3, [w[1], st_addr(r['s'], w[2])])
            else:
                we = (0, [])
            c = cache_num[r['cache']]
            ops.append((4, [(0, [r['s'], r['t'], r['ba'], we, 1 if r['broadcast'] else 0, (0, []) if c is None else (1, [c])])]))
    return enc((3, [world_enc(world, full, pad=True), heap, (0, ops)]))


def gen_alias_case(rng, world, full, maxlen):
    t = rng.randrange(world.n)
    s = rng.choice([t] + list(range(world.n)) * 2)
    for _ in range(4):
        if all(x is not None for x in world.exprs(s, t)):
            break
        t = rng.randrange(world.n)
        s = rng.choice([t] + list(range(world.n)) * 2)
    nt = len(world.shapes[t])
    sp = rng.choice([0.0, 0.0, 0.3, 0.45])        # half of the histories use ranged bounds only (a 2-d image, a full block)
    case = {'bounds0': [[gen_bound(rng, size, scalar_p=sp) for size in world.shapes[t]] for _ in range(2)],
            'states0': [[rng.randrange(NPRESET), rng.randrange(NPRESET)] for _ in range(world.n)],
            'ints': rng.random() < 0.3, 'ops': []}
    content = [[list(b) for b in bl] for bl in case['bounds0']]
    st_content = {(k, slot): case['states0'][k][slot - 2] for k in range(world.n) for slot in (2, 3)}
    whats = [['attr', 0], ['attr', 0], ['attr', 1], ['state', 0], ['state', 2], ['state', 2], ['state', 3]]
    cur = {'s': s, 't': t, 'ba': 0, 'what': rng.choice(whats), 'broadcast': rng.random() < 0.8, 'cache': 'A',
           'implicit_target': rng.random() < 0.3}
    nreq = 0
    n = rng.randrange(3, maxlen + 1)
    tries = 0
    first = True
    while nreq < n and tries < 80:
        tries += 1
        new = dict(cur, what=list(cur['what']))
        muts = []
        c2 = [[list(b) for b in bl] for bl in content]
        s2 = dict(st_content)
        kind = 'repeat' if first else rng.choice(['mutb'] * 5 + ['muts'] * 3 + ['swap', 'what', 'source', 'target', 'broadcast', 'cache', 'repeat', 'setall'])
        first = False
        if kind == 'mutb':
            a = new['ba'] if rng.random() < 0.8 else 1 - new['ba']
            for _ in range(rng.choice([1, 1, 2])):
                i = rng.randrange(nt)
                size = world.shapes[new['t']][i]
                if c2[a][i][0] == 's' and rng.random() < 0.7:
                    b = gen_bound(rng, size, scalar_p=1.0)
                else:
                    b = gen_bound(rng, size, scalar_p=sp)
                c2[a][i] = b
                muts.append(['setb', a, i, b])
        elif kind == 'setall':
            a = new['ba']
            bl = [gen_bound(rng, size, scalar_p=sp) for size in world.shapes[new['t']]]
            c2[a] = bl
            muts.append(['setall', a, bl])
        elif kind == 'muts':
            slot = new['what'][1] if (new['what'][0] == 'state' and new['what'][1] >= 2 and rng.random() < 0.7) else rng.choice([2, 3])
            p = rng.randrange(NPRESET)
            s2[(new['s'], slot)] = p
            muts.append(['sets', new['s'], slot, p])
            if rng.random() < 0.7:
                new['what'] = ['state', slot]
        elif kind == 'swap':
            new['ba'] = 1 - new['ba']
        elif kind == 'what':
            new['what'] = list(rng.choice(whats))
        elif kind == 'source':
            new['s'] = rng.randrange(world.n)
        elif kind == 'target':
            same_nd = [k for k in range(world.n) if k != new['t'] and len(world.shapes[k]) == nt]
            if same_nd:
                new['t'] = rng.choice(same_nd)
        elif kind == 'broadcast':
            new['broadcast'] = not new['broadcast']
        elif kind == 'cache':
            new['cache'] = rng.choice(['A', 'A', 'B', None])
        if direct(world, full, alias_resolve(new, c2, s2))[0] == 'half':
            continue                      # both neighbours are nearest: not generated (the change is not made either)
        case['ops'] += muts
        case['ops'].append(['req', new])
        content, st_content, cur = c2, s2, new
        nreq += 1
    return case


def alias_known_key(B, case, k, cls):
    """KNOWN_STATE_KEY when the cache failure at request k needs a subset-state object changed in place: the request passes such an
    object and the failure disappears when every change of a state is made by building a new state object (nothing else altered)"""
    if cls != 'cache':
        return None
    reqs = [op for op in case['ops'] if op[0] == 'req']
    r = reqs[k][1]
    if r['what'][0] != 'state' or r['what'][1] < 2:
        return None
    if not any(op[0] == 'sets' and op[1] == r['s'] and op[2] == r['what'][1] for op in case['ops']):
        return None
    res = run_alias(B, case, fresh_states=True)
    cached, plain = res[k][0], res[k][1]
    return KNOWN_STATE_KEY if same_out(cached, plain) else None


def alias_cut(case, k):
    """the history up to and including request k"""
    ops, n = [], -1
    for op in case['ops']:
        ops.append(op)
        if op[0] == 'req':
            n += 1
            if n == k:
                break
    return dict(case, ops=ops)


def judge_alias(R, world_spec, case, res, B, model_cached=None, model_plain=None):
    for k, (cached, plain, dr, rr, info) in enumerate(res):
        fc = None
        if not same_out(cached, plain):
            fc = ('cache', {'why': 'result with cache_id differs from result without (the caller re-uses and changes its own objects in place; data unchanged)',
                            'cached': brief(cached), 'uncached': brief(plain)})
        elif dr[0] == 'ok' and not same_out(plain, dr):
            fc = ('nearest', {'why': 'buffer differs from nearest-pixel resampling', 'impl': brief(plain), 'expected': brief(dr)})
        elif dr[0] == 'err' and plain[0] == 'ok':
            fc = ('nearest', {'why': 'an array is returned where none can be computed', 'impl': brief(plain), 'expected': brief(dr)})
        if fc is not None:
            cut = alias_cut(case, k)
            c = {'stream': 'alias', 'world': world_spec, 'history': cut, 'index': k, 'request_as_value': rr, 'objects': info}
            key = alias_known_key(B, cut, k, fc[0])
            if key is not None:
                R.hist['oracle_failure_class']['cache-state-in-place (known)'] += 1
                kk = ('oracle', 'known-state')
                _nfail[kk] = _nfail.get(kk, 0) + 1
                if _nfail[kk] <= 3:
                    R.fail('oracle', c, dict(fc[1], failure_class='cache-state-in-place'), key=key)
            else:
                if fc[0] == 'cache':
                    fresh = run_alias(B, cut, fresh_bounds=True, fresh_states=True)
                    fc[1]['with_new_objects_for_every_change'] = 'same result as without cache_id' if same_out(fresh[k][0], fresh[k][1]) else 'still differs'
                oracle_fail(R, c, fc[1], fc[0])
        if model_cached is not None:
            is_mask = rr['what'][0] == 'mask'
            mc, mp = dec_out(model_cached[k], is_mask), dec_out(model_plain[k], is_mask)
            if not same_out(mc, cached):
                corr_fail(R, {'stream': 'alias', 'world': world_spec, 'history': alias_cut(case, k), 'index': k, 'observed': 'cached'},
                          {'model': brief(mc), 'impl': brief(cached)})
            if not same_out(mp, plain):
                corr_fail(R, {'stream': 'alias', 'world': world_spec, 'history': alias_cut(case, k), 'index': k, 'observed': 'uncached'},
                          {'model': brief(mp), 'impl': brief(plain)})


def alias_exhaustive_cases():
    """small scope: ONE bounds list and ONE state object, every history of length <= L over in-place changes and requests under one cache id"""
    spec = {'shapes': [[3, 4], [4, 3]], 'rels': [None, {'parent': 0, 'axes': [['same', 1], ['same', 0]]}]}
    changes = [['setb', 0, 0, ['r', '1', '2', 2]], ['setb', 0, 0, ['r', '0', '2', 3]], ['setb', 0, 1, ['r', '2', '0', 3]], ['setb', 0, 0, ['s', '1']],
               ['setb', 0, 0, ['s', '2']], ['sets', 1, 2, 1], ['sets', 1, 2, 0]]
    reqs = [['req', {'s': 1, 't': 0, 'ba': 0, 'what': w, 'broadcast': True, 'cache': 'A', 'implicit_target': False}] for w in (['attr', 0], ['state', 2])]
    base = {'bounds0': [[['r', '0', '2', 3], ['r', '0', '3', 4]]], 'states0': [[0, 1], [0, 1]], 'ints': False}
    return spec, base, changes, reqs


def stream_alias(R):
    lines, meta = [], []
    # (i) small scope, exhaustive
    spec, base, changes, reqs = alias_exhaustive_cases()
    world = make_world(spec)
    B = Built(world)
    L = R.pick(4, 5)
    nex = 0
    for ln in range(1, L + 1):
        for ops in itertools.product(changes + reqs, repeat=ln):
            if ops[-1][0] != 'req' or ops[0][0] != 'req':
                continue                  # a history begins and ends with a request
            if any(ops[j][0] != 'req' and ops[j + 1][0] != 'req' and ops[j][0] == ops[j + 1][0] and ops[j][1:3] == ops[j + 1][1:3] for j in range(ln - 1)):
                continue                  # the second of two changes of the same item in a row overrides the first
            case = dict(base, ops=[list(o) if o[0] != 'req' else ['req', dict(o[1])] for o in ops])
            res = run_alias(B, case)
            if any(x[2][0] == 'half' for x in res):
                continue
            lines.append(alias_enc(world, B.full, case))
            meta.append((spec, case, res, B))
            nex += 1
            R.count(('alias-exh', repr(case['ops'])), nontrivial=True, stream='alias', alias_history_len=ln)
    # (ii) seeded
    N = R.pick(450, 3000)
    for i in range(N):
        rng = R.subrng('alias', i)
        if rng.random() < 0.25:
            spec = gen_world_w(rng)
        else:
            spec = gen_world(rng, maxdim=3, maxsize=4)
        world = make_world(spec)
        B = Built(world)
        if spec.get('kind') != 'world' and not structure_ok(B):
            R.hist['skipped']['link structure differs from the harness derivation'] += 1
            continue
        case = gen_alias_case(rng, world, B.full, 9)
        res = run_alias(B, case)
        lines.append(alias_enc(world, B.full, case))
        meta.append((spec, case, res, B))
        for cached, plain, dr, rr, info in res:
            R.count(('alias', repr(spec), repr(case['bounds0']), repr(rr), repr(info)), nontrivial=dr[0] == 'ok' and dr[1].size > 0,
                    stream='alias', outcome=req_kind(world, rr, dr), what=rr['what'][0], cache=str(rr['cache']),
                    n_scalar_bounds=sum(1 for b in rr['bounds'] if b[0] == 's'),
                    alias_bounds_object=('changed in place' if info['bounds_object_changed_in_place'] else 'as first passed'),
                    alias_state_object=('changed in place' if info['state_object_changed_in_place'] else ('unchanged' if rr['what'][0] == 'mask' else 'none')))
        if i < 2:
            R.sample({'world': spec, 'history': dict(case, ops=case['ops'][:5])})
    outs = R.model(lines)
    for (spec, case, res, B), o in zip(meta, outs):
        if o is None or is_err(o):
            judge_alias(R, spec, case, res, B)
            if o is not None:
                corr_fail(R, {'stream': 'alias', 'world': spec, 'history': case}, {'model': 'error %s' % err_code(o)})
        else:
            judge_alias(R, spec, case, res, B, kids(kids(o)[0]), kids(kids(o)[1]))
    R.stream('alias', histories=len(meta), exhaustive_histories=nex, exhaustive=False,
             bound='histories in which the caller keeps ONE bounds list (of two) / subset-state object and changes it in place between requests '
                   '(bounds[i] = ..., bounds[:] = ..., state.lo / state.hi = ...) under one or two cache ids: (i) every history of length <= %d over '
                   '7 in-place changes and 2 requests on one list and one state object (fixed world, axes swapped); (ii) %d seeded histories of 3-9 requests over '
                   'tree and world-coordinate worlds (half of them with ranged bounds only). Implementation with / without cache id, Coq model '
                   '(keys as glue stores them: bounds by value, subset state by object), direct oracle' % (L, N))


def shrink_alias(R):
    """drop operations of a failing history (never the last request) while the last request still fails in the same way"""
    done = 0
    for f in R.failures:
        if f['kind'] != 'oracle' or f['case'].get('stream') != 'alias' or done >= 4:
            continue
        done += 1
        case = f['case']
        cls = f['detail'].get('failure_class')
        hist = case['history']
        key = f.get('key')

        def fails(h):
            try:
                r = replay(None, dict(case, history=h, index=sum(1 for o in h['ops'] if o[0] == 'req') - 1))
            except Exception:  # noqa
                return False
            return r.get('violates_class') == cls and r.get('key') == key
        ops = list(hist['ops'])
        changed = True
        while changed and len(ops) > 1:
            changed = False
            for i in range(len(ops) - 1):
                h2 = dict(hist, ops=ops[:i] + ops[i + 1:])
                if fails(h2):
                    ops = h2['ops']
                    changed = True
                    break
        hist = dict(hist, ops=ops)
        k = sum(1 for o in ops if o[0] == 'req') - 1
        f['case'] = dict(case, history=hist, index=k)
        f['case'].pop('request_as_value', None)
        f['case'].pop('objects', None)


def replay_alias(R, case):
    world = make_world(case['world'])
    B = Built(world)
    hist = case['history']
    res = run_alias(B, hist)
    k = case.get('index', len(res) - 1)
    cached, plain, dr, rr, info = res[k]
    cls = None
    if not same_out(cached, plain):
        cls = 'cache'
    elif (dr[0] == 'ok' and not same_out(plain, dr)) or (dr[0] == 'err' and plain[0] == 'ok'):
        cls = 'nearest'
    key = alias_known_key(B, alias_cut(hist, k), k, cls) if cls else None
    out = {'case': case, 'cached': brief(cached), 'uncached': brief(plain), 'expected': brief(dr), 'request_as_value': rr, 'objects': info,
           'failing_classes': [cls] if cls else [], 'key': key,
           'violates_class': ('cache-state-in-place' if key else cls), 'violates': bool(cls)}
    if R is not None and R.model_available:
        o = R.model([alias_enc(world, B.full, hist)])[0]
        if o is not None and not is_err(o):
            is_mask = rr['what'][0] == 'mask'
            out['model_cached'] = brief(dec_out(kids(kids(o)[0])[k], is_mask))
            out['model_uncached'] = brief(dec_out(kids(kids(o)[1])[k], is_mask))
    return out


def stream_round(R):
    """np.round(x).astype(int) against the model's round_half_even on exactly representable values, halves included"""
    vals = [F(k, 8) for k in range(-40, 41)] + [F(k, 2) for k in range(-21, 22)] + [F(10 ** 6 * 2 + 1, 2), F(-(10 ** 6 * 2 + 1), 2)]
    outs = R.model([enc((2, [q_enc(v)])) for v in vals])
    for v, o in zip(vals, outs):
        impl = int(np.round(np.array([float(v)])).astype(int)[0])
        R.count(('round', str(v)), nontrivial=v.denominator != 1, stream='round', half=(v.denominator == 2))
        if impl != tag(o):
            corr_fail(R, {'stream': 'round', 'value': str(v)}, {'model': tag(o), 'impl': impl})
    R.stream('round', cases=len(vals), exhaustive=True, bound='multiples of 1/8 in [-5,5], of 1/2 in [-10.5,10.5], +-1000000.5')


def run(R):
    R.rule = ('request sequences (<= 12) under one or two cache ids against compute_fixed_resolution_buffer: each request is run with its cache id, '
              'without cache id, through the Coq model (cached and uncached) and through the direct nearest-pixel oracle; non-trivial = a non-empty '
              'buffer of a dataset different from the reference; distinct = distinct (world, request)')
    _nfail.clear()
    stream_round(R)
    stream_exhaustive(R)
    n1 = stream_sequences(R, 'random', R.pick(1200, 8000), 12, 3, 4)
    n2 = stream_sequences(R, 'world_seq', R.pick(400, 2000), 10, 3, 4, world_links=True)
    R.stream('world_seq', sequences=n2, exhaustive=False,
             bound='reference with identity / diagonal / permuted / sheared / coupled AffineCoordinates (1-3 dims), 1-2 sources with their own coordinates '
                   'linked by LinkSame on world ids (permuted, fewer dimensions, an unlinked axis); every sequence starts by stepping one scalar bound through '
                   '2-4 values under one cache id with the other bounds fixed, then continues like `random`; implementation cached / uncached, model, direct oracle')
    R.stream('random', sequences=n1, exhaustive=False,
             bound='seeded worlds of 1-3 datasets in a tree (LinkSame / two-way affine / one-way one- and two-input affine links, unlinked axes), '
                   '1-3 dims, sizes 1..4; sequences of 2..12 requests derived from each other (change a scalar bound, a range, the attribute / mask, '
                   'the source dataset, broadcast, the cache id, or repeat)')
    stream_malformed(R)
    stream_image_layers(R)
    stream_world_links(R)
    stream_nonlinear(R)
    stream_alias(R)
    shrink_failures(R)
    shrink_alias(R)


def shrink_failures(R):
    """drop requests from the front / middle of a failing sequence while the same request still fails in the same way"""
    done = 0
    for f in R.failures:
        if f['kind'] != 'oracle' or f['case'].get('stream') not in ('random', 'exhaustive', 'malformed') or done >= 6:
            continue
        done += 1
        case = f['case']
        cls = f['detail'].get('failure_class')
        seq = list(case['requests'])

        def fails(sq):
            try:
                r = replay(None, dict(case, requests=sq, index=len(sq) - 1))
            except Exception:  # noqa
                return False
            return cls in r.get('failing_classes', [])
        changed = True
        while changed and len(seq) > 1:
            changed = False
            for i in range(len(seq) - 1):
                sq = seq[:i] + seq[i + 1:]
                if fails(sq):
                    seq = sq
                    changed = True
                    break
        f['case'] = dict(case, requests=seq, index=len(seq) - 1)


def replay(R, case):
    out = {'case': case}
    st = case.get('stream')
    if st in ('random', 'exhaustive', 'malformed'):
        world = make_world(case['world'])
        B = Built(world)
        seq = case['requests']
        res = run_sequence(B, seq)
        k = case.get('index', len(seq) - 1)
        cached, plain, dr = res[k]
        classes = []
        if not same_out(cached, plain):
            classes.append('cache')
        if (dr[0] == 'ok' and not same_out(plain, dr)) or (dr[0] == 'err' and plain[0] == 'ok'):
            classes.append('nearest')
        out.update(cached=brief(cached), uncached=brief(plain), expected=brief(dr), failing_classes=classes, violates=bool(classes))
        if R is not None and R.model_available:
            cache_num = {None: None, 'A': 1, 'B': 2}
            o = R.model([enc((1, [world_enc(world, B.full), (0, [req_enc(r, cache_num[r['cache']]) for r in seq])]))])[0]
            is_mask = seq[k]['what'][0] == 'mask'
            out['model_cached'] = brief(dec_out(kids(kids(o)[0])[k], is_mask))
            out['model_uncached'] = brief(dec_out(kids(kids(o)[1])[k], is_mask))
    elif st == 'alias':
        return replay_alias(R, case)
    else:
        out['note'] = 'replay by re-running the stream: ./check C16 --tier quick'
        out['violates'] = False
    return out
