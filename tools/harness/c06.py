"""C06 — every dataset in a collection carries exactly one subset per subset group.

Implementation side: a real DataCollection / Data / SubsetGroup driven by operation sequences.
Model side: coq/C06/Model.v (`run_case`, tag 1), observation after every step.
Oracle: the invariant of the property evaluated directly on the real objects (never through the model).
"""
import itertools

from harness.common import enc

PROP = 'C06'
GENERATORS = ['gen_groups']
TRUSTED = [
    'tools/gen/gen_groups.py translates SubsetGroup.register/_add_data/_remove_data/register_to_hub, HubListener.unregister, '
    'DataCollection.append/extend/remove/clear/new_subset_group/remove_subset_group, BaseData.add_subset, Subset.register/delete statement by '
    'statement (fail-closed) into coq/gen/Gen_groups.v; theorems gen_refines_model / gen_inv_reachable tie the hand model to that text; the '
    'translator itself, its fixed preamble (heap layout, list.remove, the hub primitives subscribe / unsubscribe_all / broadcast / '
    'delay_callbacks written by hand from hub.py) and the typing conventions (one collection, one hub, object references as integers) are '
    'trusted and exercised by the correspondence stream `generated` (state, subscription table and event trace after every step)',
    'hand model coq/C06/Model.v of DataCollection.merge (membership part) and of the group attribute setters (tied by correspondence on the explored sequences)',
    'GroupedSubset reads subset_state/label/style through its group (Pointer, property): modelled as a lookup of the group record; '
    'the harness checks `s.subset_state is g.subset_state`, `s.label == g.label`, `s.style is g.style` on the real objects',
    'the hub delivers DataCollectionAdd/DeleteMessage to the groups in subscription (= creation) order; subsets of one dataset '
    'are compared as a set keyed by group, so only the set of handlers matters here',
    'messages queued by hub.delay_callbacks inside new_subset_group/remove_subset_group are SubsetCreate/Delete messages; no modelled state depends on them',
]
ASSUMPTIONS = [
    'histories are over {append, remove, re-append, new group, remove group, set state/label/style, merge, clear}; undo/redo histories are proved and explored in C13 '
    '(theorem collection_invariant_through_history, and the C13 harness evaluates this oracle after every do/undo/redo); session restore is explored by the oracle-only '
    'stream `restore` (no model of the serializer: that is C02)',
    'datasets carry no hand-made ungrouped Subset (client code is told to create subsets through new_subset_group only)',
    'a removed group object keeps its own dead `subsets` list (no dataset carries those subsets); that list is not part of the live membership',
]

PALETTE = ['#0101%02x' % i for i in range(16)]

# ------------------------------------------------------------------ op encoding
# ops are tuples: ('append', d) ('remove', d) ('newgroup', e|None) ('rmgroup', g) ('setstate', g, e) ('setlabel', g, k)
#                 ('setstyle', g, v) ('merge', [d...]) ('clear',)  ; ('append', -1) = append of a non-dataset
# expressions e: None | ('leaf', n) | ('not', a) | ('and', a, b) | ('or', a, b) | ('xor', a, b)


def enc_expr(e):
    if e is None:
        return (0, [])
    k = e[0]
    if k == 'leaf':
        return (1, [e[1]])
    if k == 'not':
        return (2, [enc_expr(e[1])])
    return ({'and': 3, 'or': 4, 'xor': 5}[k], [enc_expr(e[1]), enc_expr(e[2])])


def enc_op(o):
    k = o[0]
    if k == 'append':
        return (1, [o[1]])
    if k == 'remove':
        return (2, [o[1]])
    if k == 'newgroup':
        return (3, [] if o[1] is None else [enc_expr(o[1])])
    if k == 'rmgroup':
        return (4, [o[1]])
    if k == 'setstate':
        return (5, [o[1], enc_expr(o[2])])
    if k == 'setlabel':
        return (6, [o[1], -1 - o[2]])
    if k == 'setstyle':
        return (7, [o[1], o[2]])
    if k == 'merge':
        return (8, list(o[1]))
    if k == 'clear':
        return (9, [])
    raise ValueError(o)


def case_line(pool, ncolors, ops):
    return enc((1, [pool, ncolors, (0, [enc_op(o) for o in ops])]))


def tree_to_expr(t):
    tg, ks = t
    if tg == 0:
        return None
    if tg == 1:
        return ('leaf', ks[0][0])
    if tg == 2:
        return ('not', tree_to_expr(ks[0]))
    return ({3: 'and', 4: 'or', 5: 'xor'}[tg], tree_to_expr(ks[0]), tree_to_expr(ks[1]))


# ------------------------------------------------------------------ implementation side
class Impl:
    """a real DataCollection with a pool of datasets; groups and datasets are numbered in creation order"""
    NPIX = 4
    log = None

    def __init__(self, pool):
        from glue.core import Data, DataCollection
        self.Data = Data
        self.dc = DataCollection()
        self.datas = [None] * pool      # pool datasets are created at first use (Data() is the expensive part of a case)
        self.grps = []
        self.sid = {}        # id(subset) -> canonical number
        self.keep = []       # keeps every subset seen alive so ids are not reused
        self.removed_d = set()
        self.removed_g = set()
        self.log = None      # list of events when the case is spied on (stream `generated`)

    def data(self, i):
        if self.datas[i] is None:
            d = self.datas[i] = self.Data(x=[1, 2, 3, 4], label='d%d' % i)
            if self.log is not None:
                orig = d.register_to_hub

                def reg(hub, _orig=orig, _i=i):
                    self.log.append(('regdata', _i))
                    return _orig(hub)
                object.__setattr__(d, 'register_to_hub', reg)
        return self.datas[i]

    def spy(self):
        """record, in order: deliveries of the four message classes of the model, data.register_to_hub, _sync_link_manager,
        _ignore_link_manager_update enter/leave, Registry().unregister of a dataset / of a subset"""
        from contextlib import contextmanager
        from glue.core.hub import HubListener
        from glue.core import message as M
        self.log = []
        im = self

        class Spy(HubListener):
            def register_to_hub(self, hub):
                for cls in (M.DataCollectionAddMessage, M.DataCollectionDeleteMessage, M.SubsetCreateMessage, M.SubsetDeleteMessage):
                    hub.subscribe(self, cls, handler=self.receive)

            def receive(self, msg):
                im.log.append(('deliver', msg))
        self._spy = Spy()
        self._spy.register_to_hub(self.dc.hub)
        dc = self.dc
        sync, ign = dc._sync_link_manager, dc._ignore_link_manager_update

        depth = [0]

        def sync2():
            im.log.append(('sync',))
            depth[0] += 1          # what _sync_link_manager does inside is not part of the model (one opaque event)
            try:
                return sync()
            finally:
                depth[0] -= 1

        @contextmanager
        def ign2():
            if depth[0]:
                with ign():
                    yield
                return
            im.log.append(('ignore', 1))
            with ign():
                yield
            im.log.append(('ignore', -1))
        dc._sync_link_manager = sync2
        dc._ignore_link_manager_update = ign2
        install_registry_probe()
        return self

    def drain_events(self):
        """canonical form of the events since the last call (numbers subsets at first sight)"""
        from glue.core import message as M
        from glue.core.subset_group import GroupedSubset
        out = []
        for e in self.log:
            if e[0] == 'deliver':
                m = e[1]
                if isinstance(m, M.DataCollectionAddMessage):
                    out.append(('deliver', 'add', self._did(m.data)))
                elif isinstance(m, M.DataCollectionDeleteMessage):
                    out.append(('deliver', 'del', self._did(m.data)))
                else:
                    out.append(('deliver', 'create' if isinstance(m, M.SubsetCreateMessage) else 'delete') + self.sub_code(m.subset))
            elif e[0] == 'unreg':
                obj = e[1]
                if isinstance(obj, GroupedSubset):
                    # Subset.__del__ calls delete(): garbage of an earlier case shows up here; only this case's objects count
                    if self._did(obj.data) >= 0 and self._gid(obj.group) >= 0:
                        out.append(('unreg-subset',) + self.sub_code(obj))
                else:
                    di = self._did(obj)
                    if di >= 0:
                        out.append(('unreg-data', di))
            else:
                out.append(e)
        del self.log[:]
        return out

    def sub_code(self, s):
        from glue.core.subset_group import GroupedSubset
        if not isinstance(s, GroupedSubset):
            return (-2, -2, -2)
        return (self._sid(s), self._did(s.data), self._gid(s.group))

    def hub_table(self):
        """the hub's subscription table restricted to the groups: [(group, [message class codes in dict order])]"""
        from glue.core.subset_group import SubsetGroup
        from glue.core import message as M
        code = {M.DataCollectionAddMessage: 1, M.DataCollectionDeleteMessage: 2}
        out = []
        for sub, cont in list(self.dc.hub._subscriptions.items()):
            if isinstance(sub, SubsetGroup):
                out.append((self._gid(sub), [code.get(c, 3) for c in cont.keys()]))
        return out

    def queue_codes(self):
        from glue.core import message as M
        out = []
        for m in self.dc.hub._queue:
            if isinstance(m, M.DataCollectionAddMessage):
                out.append(('add', self._did(m.data)))
            elif isinstance(m, M.DataCollectionDeleteMessage):
                out.append(('del', self._did(m.data)))
            elif isinstance(m, (M.SubsetCreateMessage, M.SubsetDeleteMessage)):
                out.append(('create' if isinstance(m, M.SubsetCreateMessage) else 'delete',) + self.sub_code(m.subset))
        return out

    # -- expressions <-> real subset states
    def mk_state(self, e):
        from glue.core.subset import ElementSubsetState, SubsetState, InvertState
        if e is None:
            return SubsetState()
        k = e[0]
        if k == 'leaf':
            return ElementSubsetState(indices=[i for i in range(self.NPIX) if (e[1] >> i) & 1])
        if k == 'not':
            return InvertState(self.mk_state(e[1]))
        a, b = self.mk_state(e[1]), self.mk_state(e[2])
        return {'and': a & b, 'or': a | b, 'xor': a ^ b}[k] if k != 'and' else (a & b)

    @staticmethod
    def read_state(s):
        from glue.core.subset import ElementSubsetState, SubsetState, InvertState, AndState, OrState, XorState
        t = type(s)
        if t is SubsetState:
            return None
        if t is ElementSubsetState:
            return ('leaf', sum(1 << int(i) for i in s.indices))
        if t is InvertState:
            return ('not', Impl.read_state(s.state1))
        if t in (AndState, OrState, XorState):
            return ({AndState: 'and', OrState: 'or', XorState: 'xor'}[t], Impl.read_state(s.state1), Impl.read_state(s.state2))
        return ('?', t.__name__)

    def apply(self, o):
        """returns status 0 ok / 1 ValueError / 2 TypeError"""
        k = o[0]
        dc = self.dc
        before = list(dc.data)
        gbefore = list(dc.subset_groups)
        st = 0
        try:
            if k == 'append':
                dc.append(self.data(o[1]) if o[1] >= 0 else object())
            elif k == 'remove':
                dc.remove(self.data(o[1]))
            elif k == 'newgroup':
                if len(o) < 2 or o[1] is None:
                    g = dc.new_subset_group()
                else:
                    g = dc.new_subset_group(subset_state=self.mk_state(o[1]))
                self.grps.append(g)
            elif k == 'rmgroup':
                if o[1] < len(self.grps):
                    dc.remove_subset_group(self.grps[o[1]])
            elif k == 'setstate':
                if o[1] < len(self.grps):
                    self.grps[o[1]].subset_state = self.mk_state(o[2])
            elif k == 'setlabel':
                if o[1] < len(self.grps):
                    self.grps[o[1]].label = 'L%d' % o[2]
            elif k == 'setstyle':
                if o[1] < len(self.grps):
                    g = self.grps[o[1]]
                    if o[2] % 2 == 0:
                        from glue.core.visual import VisualAttributes
                        g.style = VisualAttributes(color=PALETTE[o[2]], parent=g)
                    else:
                        g.style.color = PALETTE[o[2]]
            elif k == 'merge':
                args = [self.data(i) for i in o[1]]
                m = dc.merge(*args, label='m%d' % len(self.datas))     # ValueError (fewer than 2) is raised before anything changes
                self.datas.append(m)
            elif k == 'clear':
                dc.clear()
            elif k == 'extend':
                dc.extend([self.data(i) if i >= 0 else object() for i in o[1]])
            elif k == 'delayed':
                with dc.hub.delay_callbacks():
                    for b in o[1]:
                        self.apply(b)
            else:
                raise RuntimeError('unknown op %r' % (o,))
        except ValueError:
            st = 1
        except TypeError:
            st = 2
        except Exception as exc:        # a broken tree may raise anything: the case goes on (the comparison reports the status)
            st = 9
        now = list(dc.data)
        for d in before:
            if not any(d is x for x in now):
                self.removed_d.add(self._did(d))
        for d in now:
            self.removed_d.discard(self._did(d))
        gnow = list(dc.subset_groups)
        for g in gbefore:
            if not any(g is x for x in gnow):
                self.removed_g.add(self._gid(g))
        return st

    def _did(self, d):
        for i, x in enumerate(self.datas):
            if x is d:
                return i
        return -9

    def _gid(self, g):
        for i, x in enumerate(self.grps):
            if x is g:
                return i
        return -9

    def _sid(self, s):
        k = id(s)
        if k not in self.sid:
            self.sid[k] = len(self.sid)
            self.keep.append(s)
        return self.sid[k]

    def label_code(self, lab):
        if isinstance(lab, str) and lab.startswith('Subset ') and lab[7:].isdigit():
            return int(lab[7:])
        if isinstance(lab, str) and lab.startswith('L') and lab[1:].isdigit():
            return -1 - int(lab[1:])
        return ('?', lab)

    def style_code(self, style):
        from glue.config import settings
        c = style.color
        if c in PALETTE:
            return PALETTE.index(c)
        cols = [x.lower() for x in settings.SUBSET_COLORS]
        if str(c).lower() in cols:
            return -1 - cols.index(str(c).lower())
        return ('?', c)

    def snapshot(self):
        """canonical structure; subset ids are numbered at first sight in a fixed walk (live groups' lists, then datasets' lists)"""
        from glue.core.subset_group import GroupedSubset
        dc = self.dc
        live = list(dc.subset_groups)
        glists = {}
        for g in live:
            gi = self._gid(g)
            glists[gi] = [(self._sid(s), self._did(s.data)) for s in g.subsets]
        dl = []
        for d in self.datas:
            row = []
            for s in (d.subsets if d is not None else ()):
                gi = self._gid(s.group) if isinstance(s, GroupedSubset) else -2
                row.append((gi, self._sid(s)))
            dl.append(sorted(row))
        gattr = {}
        for g in live:
            gattr[self._gid(g)] = (self.read_state(g.subset_state), self.label_code(g.label), self.style_code(g.style))
        return {'coll': [self._did(d) for d in dc.data], 'groups': [self._gid(g) for g in live], 'dsubs': dl,
                'gsubs': glists, 'gattr': gattr, 'rdata': sorted(self.removed_d), 'rgroups': sorted(self.removed_g)}

    def oracle(self):
        """the invariant of C06 on the real objects; returns a list of violation strings (empty = holds)"""
        from glue.core.subset_group import GroupedSubset
        bad = []
        dc = self.dc
        live = list(dc.subset_groups)
        coll = list(dc.data)

        def is_in(x, l):
            return any(x is y for y in l)

        def dl(d):
            return 'd%d' % self._did(d)

        def gl(g):
            return 'g%d' % self._gid(g)
        if len(set(map(id, coll))) != len(coll):
            bad.append('a dataset is listed twice in the collection')
        if len(set(map(id, live))) != len(live):
            bad.append('a group is listed twice')
        for d in coll:
            subs = list(d.subsets)
            for s in subs:
                if not isinstance(s, GroupedSubset):
                    bad.append('%s carries a subset outside any group' % dl(d))
                    continue
                if not is_in(s.group, live):
                    bad.append('%s carries a subset of a group that is not live (%s)' % (dl(d), gl(s.group)))
                if s.data is not d:
                    bad.append('%s carries a subset whose data is another dataset' % dl(d))
                if not is_in(s, s.group.subsets):
                    bad.append('%s carries a subset of %s that the group does not list' % (dl(d), gl(s.group)))
            for g in live:
                n = sum(1 for s in subs if isinstance(s, GroupedSubset) and s.group is g)
                if n != 1:
                    bad.append('%s has %d subsets of %s (expected exactly 1)' % (dl(d), n, gl(g)))
        for g in live:
            for s in g.subsets:
                if s.group is not g:
                    bad.append('%s lists a subset of another group' % gl(g))
                if not is_in(s.data, coll):
                    bad.append('%s lists a subset of %s which is not in the collection' % (gl(g), dl(s.data)))
                elif not is_in(s, s.data.subsets):
                    bad.append('%s lists a subset that %s does not carry' % (gl(g), dl(s.data)))
                if s.subset_state is not g.subset_state:
                    bad.append('member of %s does not share the selection' % gl(g))
                if s.label != g.label:
                    bad.append('member of %s does not share the label' % gl(g))
                if s.style is not g.style:
                    bad.append('member of %s does not share the style' % gl(g))
            for d in coll:
                n = sum(1 for s in g.subsets if s.data is d)
                if n != 1:
                    bad.append('%s lists %d subsets of %s (expected exactly 1)' % (gl(g), n, dl(d)))
        # removed datasets keep no live membership
        for i, d in enumerate(self.datas):
            if d is None or is_in(d, coll):
                continue
            for s in d.subsets:
                if isinstance(s, GroupedSubset) and is_in(s.group, live):
                    bad.append('%s is outside the collection but still carries a subset of live %s' % (dl(d), gl(s.group)))
        # removed groups keep no live membership: no dataset of the collection carries one of their subsets (covered above),
        # and they no longer receive datasets
        for i, g in enumerate(self.grps):
            if is_in(g, live):
                continue
            for d in coll:
                if any(isinstance(s, GroupedSubset) and s.group is g for s in d.subsets):
                    bad.append('removed %s still has a member on %s' % (gl(g), dl(d)))
        return bad


def model_snapshots(tree, pool):
    """decode the model's answer for one case into per-step snapshots in the same canonical form"""
    out = []
    ren = {}

    def sid(s):
        if s not in ren:
            ren[s] = len(ren)
        return ren[s]
    for ob in tree[1]:
        if ob[0] == -1:
            out.append({'error': ob})
            continue
        k = ob[1]
        status = k[0][0]
        coll = [x[0] for x in k[1][1]]
        groups = [x[0] for x in k[2][1]]
        draw = [[(p[1][0][0], p[1][1][0]) for p in row[1]] for row in k[3][1]]       # (sid, gid)
        graw = []
        for gt in k[4][1]:
            e, lab, sty, pairs = gt[1]
            graw.append((tree_to_expr(e), lab[0], sty[0], [(p[1][0][0], p[1][1][0]) for p in pairs[1]]))
        glists = {}
        for g in groups:
            glists[g] = [(sid(s), d) for s, d in graw[g][3]]
        dl = [sorted((g, sid(s)) for s, g in row) for row in draw]
        gattr = {g: (graw[g][0], graw[g][1], graw[g][2]) for g in groups}
        out.append({'status': status, 'coll': coll, 'groups': groups, 'dsubs': dl, 'gsubs': glists, 'gattr': gattr,
                    'rdata': sorted(x[0] for x in k[5][1]), 'rgroups': sorted(x[0] for x in k[6][1])})
    return out


def run_impl(pool, ops, every_step=True):
    """run one case on the real code; returns (per-step [(status, snapshot, oracle)], impl)"""
    im = Impl(pool)
    res = []
    for i, o in enumerate(ops):
        st = im.apply(o)
        if every_step or i == len(ops) - 1:
            snap = im.snapshot()
            snap['status'] = st
            res.append((snap, im.oracle()))
        else:
            res.append(None)
    return res, im


def first_oracle_failure(pool, ops):
    res, _ = run_impl(pool, ops)
    for i, r in enumerate(res):
        if r[1]:
            return i, r[1]
    return None


def shrink(pool, ops, pred):
    """drop operations while `pred(ops)` stays true"""
    ops = list(ops)
    changed = True
    while changed:
        changed = False
        for i in range(len(ops)):
            cand = ops[:i] + ops[i + 1:]
            try:
                ok = pred(cand)
            except Exception:
                ok = False
            if ok:
                ops = cand
                changed = True
                break
    return ops


def valid_for(pool, ops):
    """ids used by the ops exist at the time they are used (so that dropping an op keeps the case meaningful)"""
    nd, ng = pool, 0
    for o in ops:
        k = o[0]
        if k in ('append', 'remove') and not (-1 <= o[1] < nd):
            return False
        if k in ('rmgroup', 'setstate', 'setlabel', 'setstyle') and not (0 <= o[1] < ng):
            return False
        if k == 'merge':
            if any(not (0 <= d < nd) for d in o[1]):
                return False
            if len(o[1]) >= 2:
                nd += 1
        if k == 'newgroup':
            ng += 1
    return True


def ops_key(pool, ops):
    return (pool, tuple(tuple(map(lambda x: tuple(x) if isinstance(x, list) else x, o)) for o in ops))


def safe_model(R, lines):
    """the extracted model's answers, or None per case when the driver could not be built (the oracles still run)"""
    if not getattr(R, 'model_available', False):
        return [None] * len(lines)
    return R.model(lines)


def nontrivial(ops):
    """a case is non-trivial when at least one dataset meets at least one group"""
    ks = [o[0] for o in ops]
    return ('newgroup' in ks) and ('append' in ks or 'merge' in ks)


def check_case(R, pool, ncolors, ops, mtree, stream, every_step):
    """compare one case; returns True when everything agrees"""
    res, im = run_impl(pool, ops, every_step=every_step)
    msnaps = model_snapshots(mtree, pool) if mtree is not None else None
    ok = True
    # oracle first (independent of the model)
    for i, r in enumerate(res):
        if r is None:
            continue
        if r[1]:
            ok = False
            small = shrink(pool, ops[:i + 1], lambda c: valid_for(pool, c) and first_oracle_failure(pool, c) is not None)
            ff = first_oracle_failure(pool, small)
            R.fail('oracle', {'stream': stream, 'pool': pool, 'ops': small},
                   {'step': ff[0], 'violations': ff[1][:6], 'original_length': len(ops)}, key=None)
            break
    if msnaps is not None:
        if len(msnaps) != len(ops):
            R.fail('correspondence', {'stream': stream, 'pool': pool, 'ops': ops}, {'why': 'model returned %d observations for %d ops' % (len(msnaps), len(ops))})
            return False
        for i, r in enumerate(res):
            if r is None:
                continue
            snap = r[0]
            m = msnaps[i]
            if 'error' in m:
                R.fail('correspondence', {'stream': stream, 'pool': pool, 'ops': ops}, {'step': i, 'model': 'decode error'})
                return False
            diff = [f for f in ('status', 'coll', 'groups', 'dsubs', 'gsubs', 'gattr', 'rdata', 'rgroups') if snap[f] != m[f]]
            if diff:
                ok = False
                R.fail('correspondence', {'stream': stream, 'pool': pool, 'ops': ops[:i + 1]},
                       {'step': i, 'fields': diff, 'impl': {f: snap[f] for f in diff}, 'model': {f: m[f] for f in diff}})
                break
    return ok


# ------------------------------------------------------------------ streams
E1 = ('leaf', 5)
E2 = ('and', ('leaf', 3), ('not', ('leaf', 6)))


def alphabet(nd, ng):
    al = []
    for d in range(nd):
        al.append(('append', d))
    for d in range(nd):
        al.append(('remove', d))
    al.append(('newgroup', None))
    for g in range(ng):
        al.append(('rmgroup', g))
    al.append(('setstate', 0, E1))
    al.append(('setlabel', 1 if ng > 1 else 0, 3))
    al.append(('merge', [0, 1]))
    al.append(('clear',))
    return al


def stream_exhaustive(R, ncolors):
    nd, ng = 3, 2
    al = alphabet(nd, ng)
    kmax = R.pick(4, 5)
    cases = []
    for k in range(1, kmax + 1):
        for seq in itertools.product(al, repeat=k):
            # group letters are kept only where the group has been created (before that they are not even expressible on the real objects)
            if valid_for(nd, seq):
                cases.append(list(seq))
    n_exh = len(cases)
    # one length more, sampled
    extra = [list(seq) for seq in itertools.product(al, repeat=kmax + 1) if valid_for(nd, seq)]
    n_extra = R.pick(5000, 28000)
    if len(extra) > n_extra:
        extra = R.subrng('exh-extra').sample(extra, n_extra)
    cases += extra
    lines = [case_line(nd, ncolors, ops) for ops in cases]
    outs = safe_model(R, lines)
    nbad = 0
    for ops, mt in zip(cases, outs):
        # only the final state of each sequence is compared: every prefix is itself a case of this stream.
        # The model-side subset numbering still walks all steps; the implementation numbers at the last step only,
        # so renumber the model's last observation alone.
        mt_last = ((mt[0], mt[1][-1:]) if mt[1] else mt) if mt is not None else None
        res, im = run_impl(nd, ops, every_step=False)
        snap, orc = res[-1]
        R.count(ops_key(nd, ops), nontrivial=nontrivial(ops), stream='exhaustive', length=len(ops), last_op=ops[-1][0])
        if orc:
            nbad += 1
            if nbad <= 3:
                small = shrink(nd, ops, lambda c: valid_for(nd, c) and first_oracle_failure(nd, c) is not None)
                ff = first_oracle_failure(nd, small)
                R.fail('oracle', {'stream': 'exhaustive', 'pool': nd, 'ops': small}, {'step': ff[0], 'violations': ff[1][:6]}, key=None)
        if mt_last is None:
            continue
        m = model_snapshots(mt_last, nd)
        if len(m) != 1 or 'error' in m[0]:
            R.fail('correspondence', {'stream': 'exhaustive', 'pool': nd, 'ops': ops}, {'why': 'model answer malformed'})
            continue
        m = m[0]
        diff = [f for f in ('status', 'coll', 'groups', 'dsubs', 'gsubs', 'gattr', 'rdata', 'rgroups') if snap[f] != m[f]]
        if diff:
            R.fail('correspondence', {'stream': 'exhaustive', 'pool': nd, 'ops': ops},
                   {'fields': diff, 'impl': {f: snap[f] for f in diff}, 'model': {f: m[f] for f in diff}})
    R.sample({'exhaustive': {'pool': nd, 'ops': cases[len(al) + 7]}})
    R.stream('exhaustive', cases=n_exh, sampled_next_length=len(extra), exhaustive=True,
             bound='all sequences of length 1..%d over %d letters (append/remove of 3 datasets, new group, remove group 0/1, set state of group 0, '
                   'set label of group 1, merge(d0,d1), clear; a group letter only after the group exists), plus %d sampled sequences of length %d; '
                   'final state compared and checked (every prefix is itself a case)' % (kmax, len(al), len(extra), kmax + 1))


def rand_expr(rng, depth):
    if depth <= 0 or rng.random() < 0.45:
        return ('leaf', rng.randrange(16))
    k = rng.choice(['not', 'and', 'or', 'xor'])
    if k == 'not':
        return ('not', rand_expr(rng, depth - 1))
    return (k, rand_expr(rng, depth - 1), rand_expr(rng, depth - 1))


def gen_random_ops(rng, pool, length):
    ops = []
    nd, ng = pool, 0
    present = set()
    removed = set()
    for _ in range(length):
        r = rng.random()
        if r < 0.24:
            # append; prefer re-appending a dataset that was removed
            if removed and rng.random() < 0.6:
                d = rng.choice(sorted(removed))
            else:
                d = rng.randrange(nd)
            ops.append(('append', d))
            present.add(d)
            removed.discard(d)
        elif r < 0.42:
            d = rng.choice(sorted(present)) if present and rng.random() < 0.8 else rng.randrange(nd)
            ops.append(('remove', d))
            if d in present:
                present.discard(d)
                removed.add(d)
        elif r < 0.56:
            ops.append(('newgroup', None if rng.random() < 0.5 else rand_expr(rng, 2)))
            ng += 1
        elif r < 0.66 and ng:
            ops.append(('rmgroup', rng.randrange(ng)))
        elif r < 0.74 and ng:
            ops.append(('setstate', rng.randrange(ng), rand_expr(rng, 2)))
        elif r < 0.79 and ng:
            ops.append(('setlabel', rng.randrange(ng), rng.randrange(6)))
        elif r < 0.84 and ng:
            ops.append(('setstyle', rng.randrange(ng), rng.randrange(len(PALETTE))))
        elif r < 0.93:
            k = rng.choice([2, 2, 3])
            src = sorted(present) if len(present) >= k and rng.random() < 0.7 else list(range(nd))
            ds = [rng.choice(src) for _ in range(k)] if rng.random() < 0.2 else rng.sample(src, min(k, len(src)))
            if len(ds) >= 2:
                ops.append(('merge', ds))
                for d in ds:
                    if d in present:
                        present.discard(d)
                        removed.add(d)
                present.add(nd)
                nd += 1
            else:
                ops.append(('clear',))
                removed |= present
                present = set()
        elif r < 0.97:
            ops.append(('clear',))
            removed |= present
            present = set()
        else:
            ops.append(('newgroup', None))
            ng += 1
    return ops


def stream_random(R, ncolors):
    n = R.pick(600, 8000)
    cases = []
    for i in range(n):
        rng = R.subrng('rand', i)
        pool = rng.choice([2, 3, 4, 5])
        length = rng.choice([6, 10, 20, 30, 40])
        cases.append((pool, gen_random_ops(rng, pool, length)))
    outs = safe_model(R, [case_line(p, ncolors, ops) for p, ops in cases])
    for (pool, ops), mt in zip(cases, outs):
        R.count(ops_key(pool, ops), nontrivial=nontrivial(ops), stream='random', length=len(ops))
        for o in ops:
            R.hist['op_kind'][o[0]] += 1
        check_case(R, pool, ncolors, ops, mt, 'random', True)
    R.sample({'random': {'pool': cases[0][0], 'ops': cases[0][1][:12]}})
    R.stream('random', cases=n, exhaustive=False,
             bound='pool 2..5 datasets, length 6..40, weighted ops with re-append of removed datasets, merge (also of absent / repeated datasets), clear, '
                   'random expressions of depth <= 2; observation after every step')


def restored_impl(im):
    """save the collection with GlueSerializer, load it back, and wrap the restored objects for the oracle"""
    from glue.core.state import GlueSerializer, GlueUnSerializer
    text = GlueSerializer(im.dc).dumps()
    dc2 = GlueUnSerializer.loads(text).object('__main__')
    im2 = Impl.__new__(Impl)
    im2.Data = im.Data
    im2.dc = dc2
    im2.datas = list(dc2.data)
    im2.grps = list(dc2.subset_groups)
    im2.sid, im2.keep, im2.removed_d, im2.removed_g = {}, [], set(), set()
    return im2


def stream_restore(R):
    """oracle only: the invariant on a restored session, and after a few more operations on it"""
    n = R.pick(150, 2000)
    for i in range(n):
        rng = R.subrng('restore', i)
        pool = rng.choice([2, 3, 4])
        ops = gen_random_ops(rng, pool, rng.choice([4, 8, 16]))
        res, im = run_impl(pool, ops, every_step=False)
        R.count(('restore',) + ops_key(pool, ops), nontrivial=nontrivial(ops), stream='restore', length=len(ops))
        if res[-1][1]:
            continue        # already reported by the random stream's twin; a broken collection is not worth restoring
        im2 = restored_impl(im)
        bad = im2.oracle()
        shape_a = sorted((d.label, len(d.subsets)) for d in im.dc.data), len(im.dc.subset_groups)
        shape_b = sorted((d.label, len(d.subsets)) for d in im2.dc.data), len(im2.dc.subset_groups)
        if shape_a != shape_b:
            bad.append('restored collection has another shape: %r -> %r' % (shape_a, shape_b))
        tail = []
        if not bad:
            nd = len(im2.datas)
            im2.datas.append(None)                      # one more pool dataset after the restore
            tail = [('newgroup', None), ('append', nd), ('remove', 0), ('append', 0), ('rmgroup', 0), ('remove', nd), ('append', nd)]
            tail = [o for o in tail if not (o[0] in ('remove', 'append') and o[1] == 0 and nd == 0)]
            for k, o in enumerate(tail):
                im2.apply(o)
                bad = im2.oracle()
                if bad:
                    tail = tail[:k + 1]
                    break
        if bad:
            R.fail('oracle', {'stream': 'restore', 'pool': pool, 'ops': ops, 'after_restore': tail}, {'violations': bad[:6]}, key=None)
    R.stream('restore', cases=n, exhaustive=False,
             bound='random histories of length 4..16, then GlueSerializer -> GlueUnSerializer, the invariant on the restored collection, then 7 more '
                   'operations (new group, append new, remove / re-append a restored dataset, remove group) with the invariant after each; oracle only')


# ------------------------------------------------------------------ histories through the command stack (oracle only)
def run_session_case(case):
    """drive a real Session/CommandStack (harness.c13's runner) and evaluate the C06 oracle after every step;
    returns (index of the first failing step or None, violations)"""
    from harness import c13
    im = c13.Impl13(case)
    bad = im.im.oracle()
    if bad:
        return -1, bad
    for i, o in enumerate(case['ops']):
        try:
            if o[0] == 'do':
                im.stack.do(im.make(o[1]))
            elif o[0] == 'undo':
                im.stack.undo()
            else:
                im.stack.redo()
        except IndexError:
            pass
        except Exception as exc:       # C13 reports commands that cannot run; here only the collection afterwards matters
            pass
        im.register_new_groups()
        bad = im.im.oracle()
        if bad:
            return i, bad
    return None, []


def session_walks(al, kmax):
    """all sequences of length <= kmax over commands + undo/redo in which no undo/redo is refused"""
    out = []

    def go(c, u, acc):
        if acc:
            out.append(list(acc))
        if len(acc) == kmax:
            return
        for cmd in al:
            go(c + 1, 0, acc + [('do', cmd)])
        if c > 0:
            go(c - 1, u + 1, acc + [('undo',)])
        if u > 0:
            go(c + 1, u - 1, acc + [('redo',)])
    go(0, 0, [])
    return out


SESSION_CONFIGS = [
    {'pool': 2, 'mode': 'and', 'pre': [('append', 0), ('append', 1), ('newgroup', ('leaf', 6))], 'edit': [0]},   # a group exists and is edited
    {'pool': 2, 'mode': 'replace', 'pre': [('append', 0)], 'edit': []},                                          # the first selection creates the group
]


def stream_session(R):
    from harness import c13
    al = [('add', 1), ('rem', 0), ('rem', 1), ('apply', ('leaf', 5), None, False), ('apply', ('leaf', 12), 'new', True)]
    kmax = R.pick(4, 5)
    walks = [w for w in session_walks(al, kmax)]
    # only maximal walks need to be run (every step is checked), plus the ones that cannot be extended
    walks = [w for w in walks if len(w) == kmax]
    cases = [dict(cfg, ops=w) for cfg in SESSION_CONFIGS for w in walks]
    n_exh = len(cases)
    nr = R.pick(250, 1500)
    for i in range(nr):
        rng = R.subrng('session', i)
        cases.append(c13.rand_case(rng, ladder=(i % 2 == 0)))
    nbad = 0
    for c in cases:
        R.count(('session', c13.case_key(c)), nontrivial=True, stream='session', length=len(c['ops']))
        step, bad = run_session_case(c)
        if bad:
            nbad += 1
            if nbad > 5:
                continue
            small = c13.shrink_case(dict(c, ops=c['ops'][:step + 1]), lambda x: run_session_case(x)[1] != [])
            st2, bad2 = run_session_case(small)
            R.fail('oracle', dict(small, stream='session'), {'step': st2, 'violations': bad2[:6], 'original_length': len(c['ops'])}, key=None)
    R.sample({'session': cases[len(cases) // 3]})
    R.stream('session', cases=n_exh, random=nr, exhaustive=True,
             bound='real Session/CommandStack: every sequence of exactly %d steps over {AddData d1, RemoveData d0/d1, a selection without override, ApplyROI with new, undo, redo} '
                   'in which no undo/redo is refused, from 2 start configurations (two datasets and an edited group; one dataset and no group), plus %d random / ladder-shaped '
                   'C13 cases; the C06 invariant on the real objects after every step (oracle only: the correspondence of such histories is C13\'s)' % (kmax, nr))


# ------------------------------------------------------------------ operations inside hub.delay_callbacks() (oracle only)
import re as _re
_DUP = _re.compile(r'^(?:d(\d+) has 2 subsets of g(\d+)|g(\d+) lists 2 subsets of d(\d+)) \(expected exactly 1\)$')


def run_delay_case(pool, pre, block):
    im = Impl(pool)
    for o in pre:
        im.apply(o)
    with im.dc.hub.delay_callbacks():
        for o in block:
            im.apply(o)
    return im.oracle()


def late_add_class(pool, pre, block, bad):
    """True when every violation is a duplicate subset of a (dataset, group) pair where the dataset was appended inside the
    block before the group was created inside the same block (the queued DataCollectionAddMessage reaches the new group late)"""
    ng = sum(1 for o in pre if o[0] == 'newgroup')
    nd = pool + sum(1 for o in pre if o[0] == 'merge' and len(o[1]) >= 2)
    appended = set()
    pairs = set()
    for o in block:
        if o[0] == 'append' and o[1] >= 0:
            appended.add(o[1])
        elif o[0] == 'merge' and len(o[1]) >= 2:
            appended.add(nd)
            nd += 1
        elif o[0] == 'newgroup':
            pairs |= set((d, ng) for d in appended)
            ng += 1
    for v in bad:
        m = _DUP.match(v)
        if not m:
            return False
        d, g = (int(m.group(1)), int(m.group(2))) if m.group(1) is not None else (int(m.group(4)), int(m.group(3)))
        if (d, g) not in pairs:
            return False
    return bool(bad)


def stream_delay(R):
    al = [('append', 0), ('append', 1), ('remove', 0), ('newgroup', None), ('rmgroup', 0), ('clear',), ('merge', [0, 1])]
    pres = [[], [('append', 0), ('newgroup', None)]]
    cases = []
    for pre in pres:
        for k in (1, 2, 3):
            for blk in itertools.product(al, repeat=k):
                if valid_for(2, pre + list(blk)):
                    cases.append((2, pre, list(blk)))
    n_exh = len(cases)
    nr = R.pick(150, 2000)
    for i in range(nr):
        rng = R.subrng('delay', i)
        pool = rng.choice([2, 3])
        ops = gen_random_ops(rng, pool, rng.choice([4, 8, 12]))
        cut = rng.randrange(len(ops))
        cases.append((pool, ops[:cut], ops[cut:cut + rng.choice([2, 3, 5])]))
    known = 0
    for pool, pre, blk in cases:
        R.count(('delay', ops_key(pool, pre), ops_key(pool, blk)), nontrivial=nontrivial(pre + blk), stream='delay', length=len(blk))
        bad = run_delay_case(pool, pre, blk)
        if bad:
            if late_add_class(pool, pre, blk, bad):
                known += 1
                if known <= 1:
                    small = shrink(pool, blk, lambda c: valid_for(pool, pre + c) and late_add_class(pool, pre, c, run_delay_case(pool, pre, c)))
                    R.fail('oracle', {'stream': 'delay', 'pool': pool, 'pre': pre, 'block': small},
                           {'violations': run_delay_case(pool, pre, small)[:4]}, key='delay-block-late-add')
            else:
                R.fail('oracle', {'stream': 'delay', 'pool': pool, 'pre': pre, 'block': blk}, {'violations': bad[:6]}, key=None)
    R.stream('delay', cases=n_exh, random=nr, exhaustive=True,
             bound='a block of 1..3 operations over 7 letters (random: 2..5 operations after a random history) executed inside `with dc.hub.delay_callbacks()`; '
                   'the invariant when the block is left (oracle only; delivery order inside the hub is C07\'s model)')



# ------------------------------------------------------------------ the TRANSLATED functions against the live code
_PROBE = {'log': None, 'installed': False}


def install_registry_probe():
    from glue.core.registry import Registry
    if not _PROBE['installed']:
        cls = type(Registry())          # `Registry` is a singleton factory, not the class
        orig = cls.unregister

        def unregister(self, obj, group=None, _orig=orig):
            if _PROBE['log'] is not None:
                _PROBE['log'].append(('unreg', obj))
            return _orig(self, obj, group=group)
        cls.unregister = unregister
        _PROBE['installed'] = True


def enc_gop(o):
    k = o[0]
    if k == 'append':
        return (1, [o[1]])
    if k == 'remove':
        return (2, [o[1]])
    if k == 'newgroup':
        return (3, [])
    if k == 'rmgroup':
        return (4, [o[1]])
    if k == 'clear':
        return (9, [])
    if k == 'extend':
        return (10, list(o[1]))
    if k == 'delayed':
        return (11, [enc_gop(b) for b in o[1]])
    raise ValueError(o)


def gen_case_line(pool, ncolors, ops):
    return enc((2, [pool, ncolors, (0, [enc_gop(o) for o in ops])]))


GEN_FIELDS = ('status', 'coll', 'groups', 'dsubs', 'gsubs', 'gattr', 'subs', 'events', 'paused', 'queue')


def run_impl_gen(pool, ops):
    """the real code, spied on: per step the snapshot + hub table + events + queue"""
    im = Impl(pool)
    im.log = []
    im.spy()
    _PROBE['log'] = im.log
    res = []
    try:
        for o in ops:
            st = im.apply(o)
            ev = im.drain_events()
            snap = im.snapshot()
            snap['status'] = st
            snap['events'] = ev
            snap['subs'] = im.hub_table()
            snap['paused'] = im.dc.hub._paused
            snap['queue'] = im.queue_codes()
            snap['gattr'] = {g: a[1:] for g, a in snap['gattr'].items()}
            res.append((snap, im.oracle()))
    finally:
        _PROBE['log'] = None
    return res, im


def gen_snapshots(tree):
    """decode the answer of the translated machine, numbering subsets at first sight in the same walk as the implementation side"""
    out = []
    ren = {}

    def sid(x):
        if x not in ren:
            ren[x] = len(ren)
        return ren[x]

    def subc(ks):
        return (sid(ks[0][0]), ks[1][0], ks[2][0])

    def msg(t):
        tg, ks = t
        if tg == 1:
            return ('add', ks[0][0])
        if tg == 2:
            return ('del', ks[0][0])
        return ('create' if tg == 3 else 'delete',) + subc(ks)
    for ob in tree[1]:
        if ob[0] == -1:
            out.append({'error': ob})
            continue
        k = ob[1]
        events = []
        for e in k[8][1]:
            tg, ks = e
            if tg == 10:
                events.append(('deliver',) + msg(ks[0]))
            elif tg == 11:
                events.append(('regdata', ks[0][0]))
            elif tg == 12:
                events.append(('sync',))
            elif tg == 13:
                events.append(('ignore', ks[0][0]))
            elif tg == 14:
                events.append(('unreg-data', ks[0][0]))
            else:
                events.append(('unreg-subset',) + subc(ks))
        coll = [x[0] for x in k[1][1]]
        groups = [x[0] for x in k[2][1]]
        draw = [[(p[1][0][0], p[1][1][0]) for p in row[1]] for row in k[3][1]]
        graw = [(gt[1][1][0], gt[1][2][0], [(p[1][0][0], p[1][1][0]) for p in gt[1][3][1]]) for gt in k[4][1]]
        glists = {g: [(sid(x), d) for x, d in graw[g][2]] for g in groups}
        dl = [sorted((g, sid(x)) for x, g in row) for row in draw]
        out.append({'status': k[0][0], 'coll': coll, 'groups': groups, 'dsubs': dl, 'gsubs': glists,
                    'gattr': {g: (graw[g][0], graw[g][1]) for g in groups},
                    'subs': [(t[0], [c[0] for c in t[1]]) for t in k[7][1]], 'events': events, 'paused': k[9][0],
                    'queue': [msg(t) for t in k[10][1]]})
    return out


def gen_valid(pool, ops):
    nd, ng = pool, 0
    for o in ops:
        k = o[0]
        if k == 'delayed':
            for b in o[1]:
                if b[0] == 'delayed' or not gen_valid_one(b, nd, ng):
                    return False
                if b[0] == 'newgroup':
                    ng += 1
            continue
        if not gen_valid_one(o, nd, ng):
            return False
        if k == 'newgroup':
            ng += 1
    return True


def gen_valid_one(o, nd, ng):
    k = o[0]
    if k in ('append', 'remove'):
        return -1 <= o[1] < nd and (k == 'append' or o[1] >= 0)
    if k == 'rmgroup':
        return 0 <= o[1] < ng
    if k == 'extend':
        return all(-1 <= d < nd for d in o[1])
    return k in ('newgroup', 'clear')


def gen_key(pool, ops):
    def fz(o):
        return tuple(fz(x) if isinstance(x, (list, tuple)) else x for x in o)
    return ('gen', pool, fz(ops))


def check_gen_case(R, pool, ncolors, ops, mtree):
    res, im = run_impl_gen(pool, ops)
    ms = gen_snapshots(mtree) if mtree is not None else None
    for i, (snap, orc) in enumerate(res):
        if orc:
            flat = [b for o in ops[:i + 1] for b in (o[1] if o[0] == 'delayed' else [o])]
            R.fail('oracle', {'stream': 'generated', 'pool': pool, 'ops': ops[:i + 1]}, {'step': i, 'violations': orc[:6]}, key=None)
            return False
    if ms is None:
        return True
    if len(ms) != len(ops):
        R.fail('correspondence', {'stream': 'generated', 'pool': pool, 'ops': ops}, {'why': 'translated machine returned %d observations for %d ops' % (len(ms), len(ops))})
        return False
    for i, (snap, _) in enumerate(res):
        m = ms[i]
        if 'error' in m:
            R.fail('correspondence', {'stream': 'generated', 'pool': pool, 'ops': ops}, {'step': i, 'model': 'decode error'})
            return False
        diff = [f for f in GEN_FIELDS if snap[f] != m[f]]
        if diff:
            R.fail('correspondence', {'stream': 'generated', 'pool': pool, 'ops': ops[:i + 1]},
                   {'step': i, 'fields': diff, 'impl': {f: snap[f] for f in diff}, 'translated': {f: m[f] for f in diff}})
            return False
    return True


def gen_random_gops(rng, pool, length):
    ops = []
    ng = 0

    def basic(in_block):
        nonlocal ng
        r = rng.random()
        if r < 0.30:
            return ('append', rng.randrange(pool) if rng.random() < 0.95 else -1)
        if r < 0.52:
            return ('remove', rng.randrange(pool))
        if r < 0.70:
            ng += 1
            return ('newgroup',)
        if r < 0.82 and ng:
            return ('rmgroup', rng.randrange(ng))
        if r < 0.90:
            return ('extend', [rng.randrange(pool) if rng.random() < 0.93 else -1 for _ in range(rng.choice([0, 1, 2, 3]))])
        if r < 0.95:
            return ('clear',)
        return ('append', rng.randrange(pool))
    for _ in range(length):
        if rng.random() < 0.3:
            ops.append(('delayed', [basic(True) for _ in range(rng.choice([1, 2, 3, 4]))]))
        else:
            ops.append(basic(False))
    return ops


def stream_generated(R, ncolors):
    """the functions of coq/gen/Gen_groups.v (run_case tag 2) against the live code: state, hub table, event trace, queue after every step"""
    nd = 2
    letters = [('append', 0), ('append', 1), ('remove', 0), ('remove', 1), ('newgroup',), ('rmgroup', 0), ('rmgroup', 1), ('clear',),
               ('extend', [1, 0])]
    block_letters = [('append', 0), ('append', 1), ('remove', 0), ('newgroup',), ('rmgroup', 0), ('clear',)]
    k = R.pick(3, 4)
    cases = [list(seq) for seq in itertools.product(letters, repeat=k) if gen_valid(nd, seq)]
    n_exh = len(cases)
    more = [list(seq) for seq in itertools.product(letters, repeat=k + 1) if gen_valid(nd, seq)]
    n_more = R.pick(1200, 5000)
    if len(more) > n_more:
        more = R.subrng('gen-more').sample(more, n_more)
    cases += more
    # delayed blocks: every block of 1..3 operations after 4 prefixes, followed by one more append (what the queue left behind shows up)
    pres = [[], [('append', 0)], [('append', 0), ('newgroup',)], [('newgroup',), ('append', 1), ('append', 0)]]
    n_blk = 0
    for pre in pres:
        for n in (1, 2, 3):
            for blk in itertools.product(block_letters, repeat=n):
                c = pre + [('delayed', list(blk))] + [('append', 1)]
                if gen_valid(nd, c):
                    cases.append(c)
                    n_blk += 1
    cases += [[('append', -1)], [('extend', [0, -1, 1]), ('append', 1)], [('newgroup',), ('extend', [0, -1, 1]), ('remove', 0)],
              [('delayed', [('extend', [0, -1]), ('newgroup',)]), ('append', 1)]]
    nr = R.pick(500, 3000)
    rnd = []
    for i in range(nr):
        rng = R.subrng('gen', i)
        pool = rng.choice([2, 3, 4])
        rnd.append((pool, gen_random_gops(rng, pool, rng.choice([4, 8, 14, 20]))))
    allc = [(nd, c) for c in cases] + rnd
    outs = safe_model(R, [gen_case_line(p, ncolors, ops) for p, ops in allc])
    for (pool, ops), mt in zip(allc, outs):
        flat = [b for o in ops for b in (o[1] if o[0] == 'delayed' else [o])]
        ks = [b[0] for b in flat]
        R.count(gen_key(pool, ops), nontrivial=('newgroup' in ks and ('append' in ks or 'extend' in ks)), stream='generated', length=len(ops))
        check_gen_case(R, pool, ncolors, ops, mt)
    R.sample({'generated': {'pool': rnd[0][0], 'ops': rnd[0][1][:10]}})
    R.stream('generated', cases=n_exh, sampled_next_length=len(more), delayed_blocks=n_blk, random=nr, exhaustive=True,
             bound='the translated functions of coq/gen/Gen_groups.v against the live code: all sequences of exactly %d operations over %d letters '
                   '(append/remove of 2 datasets, new group, remove group 0/1, clear, extend([d1, d0])), %d sampled of length %d, every block of 1..3 '
                   'operations over %d letters inside `with dc.hub.delay_callbacks()` after 4 prefixes, %d random sequences (pool 2..4, length 4..20, '
                   '30%% delayed blocks, non-datasets in append/extend); after every step: collection, groups, both membership views, label/colour, '
                   'the hub subscription table of the groups, the ordered trace (deliveries of the 4 message classes, register_to_hub, '
                   '_sync_link_manager, _ignore_link_manager_update, Registry().unregister), pause counter and queue'
                   % (k, len(letters), len(more), k + 1, len(block_letters), nr))


def stream_malformed(R, ncolors):
    cases = [
        (2, [('merge', [])]), (2, [('merge', [0])]), (2, [('append', 0), ('newgroup', None), ('merge', [0])]),
        (2, [('append', -1)]), (2, [('newgroup', None), ('append', -1), ('append', 1)]),
        (3, [('append', 0), ('append', 1), ('newgroup', None), ('merge', [1]), ('append', -1), ('merge', [0, 1])]),
    ]
    outs = safe_model(R, [case_line(p, ncolors, ops) for p, ops in cases])
    for (pool, ops), mt in zip(cases, outs):
        R.count(ops_key(pool, ops), nontrivial=False, stream='malformed')
        check_case(R, pool, ncolors, ops, mt, 'malformed', True)
    R.stream('malformed', cases=len(cases), exhaustive=False, bound='merge of 0/1 datasets (ValueError), append of a non-dataset (TypeError); the state must not change')


def run(R):
    from glue.config import settings
    ncolors = len(settings.SUBSET_COLORS)
    R.rule = ('operation sequences on a real DataCollection: an exhaustive stream (all short sequences over a 3-dataset / 2-group alphabet), '
              'a seeded random stream of long sequences and a small malformed stream; a case is non-trivial when it creates at least one group and adds at '
              'least one dataset (so that at least one (dataset, group) pair must be populated); distinct = distinct (pool, op sequence)')
    stream_malformed(R, ncolors)
    stream_generated(R, ncolors)
    stream_random(R, ncolors)
    stream_restore(R)
    stream_session(R)
    stream_delay(R)
    stream_exhaustive(R, ncolors)
    R.exhaustive = True


def replay(R, case):
    from glue.config import settings
    ncolors = len(settings.SUBSET_COLORS)
    pool = case['pool']
    ops = [tuple(_untuple(x) for x in o) for o in case.get('ops', [])]
    if case.get('stream') == 'session':
        from harness import c13
        c = {'pool': case['pool'], 'mode': case['mode'], 'edit': list(case['edit']),
             'pre': [c13.c06_op(o) for o in case['pre']], 'ops': [c13.sop(o) for o in case['ops']]}
        step, bad = run_session_case(c)
        return {'case': case, 'first_failing_step': step, 'oracle': bad, 'violates': bool(bad)}
    if case.get('stream') == 'generated':
        def gop(o):
            if o[0] == 'delayed':
                return ('delayed', [gop(b) for b in o[1]])
            return tuple(list(x) if isinstance(x, list) else x for x in o)
        gops = [gop(o) for o in case['ops']]
        res, im = run_impl_gen(pool, gops)
        bad = [orc for _, orc in res if orc]
        out = {'case': case, 'oracle': bad[:1], 'violates': bool(bad)}
        if R.model_available:
            ms = gen_snapshots(R.model([gen_case_line(pool, ncolors, gops)])[0])
            out['translated_agrees'] = all(all(snap[f] == m.get(f) for f in GEN_FIELDS) for (snap, _), m in zip(res, ms))
        return out
    if case.get('stream') == 'delay':
        pre = [tuple(_untuple(x) for x in o) for o in case['pre']]
        blk = [tuple(_untuple(x) for x in o) for o in case['block']]
        bad = run_delay_case(pool_of(case), pre, blk)
        return {'case': case, 'oracle': bad, 'violates': bool(bad), 'known_class': late_add_class(pool_of(case), pre, blk, bad)}
    if case.get('stream') == 'restore':
        res, im = run_impl(pool, ops, every_step=False)
        im2 = restored_impl(im)
        bad = im2.oracle()
        if not bad and case.get('after_restore'):
            im2.datas.append(None)
            for o in case['after_restore']:
                im2.apply(tuple(_untuple(x) for x in o))
                bad = im2.oracle()
                if bad:
                    break
        return {'case': case, 'oracle': bad, 'violates': bool(bad)}
    res, im = run_impl(pool, ops)
    out = {'case': case, 'steps': []}
    viol = False
    for o, (snap, orc) in zip(ops, res):
        out['steps'].append({'op': o, 'coll': snap['coll'], 'groups': snap['groups'], 'dsubs': snap['dsubs'], 'oracle': orc})
        viol = viol or bool(orc)
    if R.model_available:
        mt = R.model([case_line(pool, ncolors, ops)])[0]
        ms = model_snapshots(mt, pool)
        out['model_agrees'] = all(all(snap[f] == m.get(f) for f in ('status', 'coll', 'groups', 'dsubs', 'gsubs', 'gattr'))
                                  for (snap, _), m in zip(res, ms))
    out['violates'] = viol
    return out


def pool_of(case):
    return case['pool']


def _untuple(x):
    if isinstance(x, list):
        # expressions arrive as nested lists from JSON; dataset lists of merge stay lists of ints
        if x and isinstance(x[0], str):
            return tuple(_untuple(y) for y in x)
        return [(_untuple(y) if isinstance(y, list) else y) for y in x]
    return x
