"""C01 -- selections form a faithful Boolean algebra over membership masks.

Streams
  class_table   the regenerated class table (coq/gen/Gen_memo.v, ast scan) against the live classes: which to_mask is
                memoised, which function cache it uses, the operator of every composite class (model tag 5)
  exhaustive    every expression tree of depth <= 2 over three leaf kinds (memoised / not memoised / read-only broadcast),
                and/or/xor/not/n-ary or, evaluated twice through each call form
  random        seeded random trees to depth 5 over every elementary state class that can be instantiated on a random
                1-3-d dataset; random histories of evaluation requests (root, sub-states, parts; views; call forms;
                Subset.to_mask / Data.get_mask / state.to_mask)
  edit          sequences of edit modes applied through EditSubsetMode to real SubsetGroups in a DataCollection
  copy          state.copy(): sharing pattern and masks
  malformed     MultiOrState([]) and friends -> error enum

Correspondence: the model receives the masks of the parts (recorded from the real leaves), the tree with the identity of
every state object and its class index; it returns per request the mask, the address of the result (compared with the
identity pattern of the arrays the implementation returned) and whether any earlier array changed.
Oracle (independent of the model): numpy Boolean operations on the recorded masks of the parts; shape = shape of the
data under the view; operands (attributes and masks) unchanged; every repetition returns the same mask.
"""
import hashlib
import operator
import os
import random
import re

import numpy as np

from harness.common import enc, B, kids, tag, is_err, to_zs, VERIF

PROP = 'C01'
GENERATORS = ['gen_memo', 'gen_combine']
TRUSTED = [
    'tools/gen/gen_memo.py (ast scan of the SubsetState family: memoised to_mask definitions, `op` of the composite classes, '
    'the `.copy()` of MultiOrState.to_mask); its output is compared with the live classes by the stream class_table',
    'hand model coq/C01/Model.v of CompositeSubsetState/InvertState/MultiOrState.to_mask, memoize, copy(); '
    'numpy arrays are heap cells, `|=` is the only in-place operation modelled',
    'tools/gen/gen_combine.py (fail-closed ast translation of SubsetState.__and__/__or__/__xor__/__invert__, combine_multiple, _combine, the operators of '
    'Subset and SubsetGroup, the six edit modes and EditSubsetMode._combine_data into coq/gen/Gen_combine.v): Python semantics of `a & b` = type(a).__and__(a, b) '
    '(no class of the family overrides the operators: checked), for-loops as fold_left, x[0] / x[1:] as nth_error / skipn, @contract decorators ignored, '
    'a Subset / SubsetGroup identified with the state it holds; the translated combine_multiple, edit modes and Subset / SubsetGroup operators are the ones the '
    'driver runs (wire tags 3, 6, 7) and are proved equal to the hand model (generated_entry_points, combine_multiple_masks)',
    'the masks of the elementary states are inputs of the model (leaf semantics are C04/C08/C09)',
]
ASSUMPTIONS = [
    'leaf masks are recorded from the real elementary states on the same (data, view); the key-join fallback of Data.get_mask is C11',
    'the attribute `parent` that AndMode/OrMode/XorMode/AndNotMode set on the new state is bookkeeping, not part of the operand',
]

FKW, FPOS, FNONE = 0, 1, 2
MODES = ['replace', 'and', 'or', 'xor', 'andnot', 'new']


def case_rng(seed, *key):
    return random.Random(hashlib.sha256(repr((seed, PROP) + key).encode()).hexdigest())


def class_index():
    txt = open(os.path.join(VERIF, 'coq', 'gen', 'Gen_memo.v')).read()
    return {m.group(1): int(m.group(2)) for m in re.finditer(r'Definition cls_(\w+) : nat := (\d+)\.', txt)}


# ------------------------------------------------------------------ worlds
def make_data(rng, ndim=None, label='d', minsize=None):
    from glue.core import Data
    from glue.core.component import CategoricalComponent
    from glue.core.coordinates import IdentityCoordinates, AffineCoordinates
    ndim = ndim or rng.choice([1, 1, 2, 2, 3])
    shape = tuple(rng.randint(2, 5 if ndim < 3 else 3) for _ in range(ndim))
    if minsize:         # datasets with enough elements for many-way combinations whose operands select different elements
        shape = {1: (rng.randint(minsize, minsize + 6),), 2: (rng.randint(3, 5), rng.randint(-(-minsize // 3), 8)),
                 3: (2, rng.randint(2, 3), rng.randint(-(-minsize // 4), 6))}[ndim]
    n = int(np.prod(shape))
    x = np.array([rng.choice([-2.0, -1.0, 0.0, 0.5, 1.0, 2.0, 3.0, 4.0, 7.0]) for _ in range(n)])
    for _ in range(rng.randint(0, 2)):
        x[rng.randrange(n)] = rng.choice([np.nan, np.inf, -np.inf])
    y = np.array([float(rng.randint(-3, 6)) for _ in range(n)])
    k = np.array([rng.randint(0, 4) for _ in range(n)])
    if ndim == 1:
        coords = rng.choice([None, IdentityCoordinates(n_dim=1), AffineCoordinates(np.array([[2.0, 1.0], [0, 1]]))])
    elif ndim == 2:
        coords = rng.choice([None, IdentityCoordinates(n_dim=2), AffineCoordinates(np.array([[2.0, 0, 1], [0, 0.5, -1], [0, 0, 1]]))])
    else:
        coords = rng.choice([None, IdentityCoordinates(n_dim=3)])
    d = Data(label=label, coords=coords)
    d.add_component(x.reshape(shape), 'x')
    d.add_component(y.reshape(shape), 'y')
    d.add_component(k.reshape(shape), 'k')
    cats = np.array([rng.choice(['a', 'b', 'c', 'dd']) for _ in range(n)])
    d.add_component(CategoricalComponent(cats.reshape(shape)), 'c')
    d['z'] = d.id['x'] + d.id['y']          # derived (arithmetic)
    from glue.core.component_id import ComponentID
    from glue.core.parse import ParsedCommand, ParsedComponentLink
    pid = ComponentID('p', parent=d)        # derived (parsed expression)
    d.add_component_link(ParsedComponentLink(pid, ParsedCommand('{a} * 2 + 1', {'a': d.id['x']})))
    return d


def make_views(rng, d):
    """list of (view, hashable)"""
    nd = d.ndim
    vs = [(None, True)]
    vs.append(((slice(0, 2),), True))
    vs.append((tuple(slice(None, None, 2) if i == 0 else slice(None) for i in range(nd)), True))
    if nd >= 2:
        vs.append(((slice(None), slice(1, None)), True))
        vs.append(((0,), True))
    idx = tuple(np.array([rng.randrange(s) for _ in range(3)]) for s in d.shape)
    vs.append((idx, False))
    if rng.random() < 0.5:
        vs.append((np.array([rng.random() < 0.5 for _ in range(d.size)]).reshape(d.shape), False))
    return vs


def container_views(d):
    """views that are equal element by element but differ in the container: a tuple is an index per axis (hashable -> memoised),
    a list / array is an index array along the first axis (unhashable -> never memoised).  [(tag, view, hashable)]"""
    out = [('t1', (1,), True), ('l1', [1], False)]
    if d.ndim >= 2:
        out += [('t2', (1, 0), True), ('l2', [1, 0], False), ('a2', np.array([1, 0]), False),
                ('tt', ((0, 1), (1, 0)), True), ('ll', [[0, 1], [1, 0]], False), ('tl', ([0, 1], [1, 0]), False)]
    return out


CONTAINER_PAIRS = [('t1', 'l1'), ('t2', 'l2'), ('t2', 'a2'), ('tt', 'll'), ('tt', 'tl')]


def leaf_factories(rng, d):
    """(kind, factory) pairs; every factory builds a new elementary state over attributes of d"""
    from glue.core import subset as S
    from glue.core import roi as RO
    from glue.core.parse import ParsedCommand, ParsedSubsetState
    from glue.viewers.image.pixel_selection_subset_state import PixelSubsetState
    num = [d.id['x'], d.id['y'], d.id['k'], d.id['z'], d.id['p']] + list(d.pixel_component_ids) + list(d.world_component_ids)
    px = list(d.pixel_component_ids)
    ops = [operator.gt, operator.ge, operator.lt, operator.le, operator.eq, operator.ne]
    r = rng

    def att():
        return r.choice(num)

    def val():
        return r.choice([-1, 0, 0.5, 1, 2, 3, 4])

    def lohi():
        a, b = val(), val()
        return (min(a, b), max(a, b) + r.choice([0, 1]))

    def roi2d():
        k = r.randrange(6)
        cx, cy = r.choice([0, 1, 2]), r.choice([0, 1, 2])
        if k == 0:
            return RO.RectangularROI(cx - 1.2, cx + 1.3, cy - 1.1, cy + 1.6)
        if k == 1:
            return RO.CircularROI(cx + 0.1, cy + 0.2, 1.45)
        if k == 2:
            return RO.EllipticalROI(cx + 0.1, cy - 0.1, 2.3, 1.2, theta=r.choice([None, 0.3]))
        if k == 3:
            return RO.PolygonalROI([cx - 1.6, cx + 2.3, cx + 0.2], [cy - 1.3, cy - 0.4, cy + 2.7])
        if k == 4:
            return RO.CircularAnnulusROI(cx + 0.1, cy + 0.2, 0.6, 2.2)
        return r.choice([RO.XRangeROI(cx - 0.6, cx + 1.4), RO.YRangeROI(cy - 0.7, cy + 1.2), RO.RectangularROI()])  # last: undefined roi

    fs = []
    fs.append(('Inequality', lambda: S.InequalitySubsetState(att(), val(), r.choice(ops))))
    fs.append(('Inequality2', lambda: S.InequalitySubsetState(att(), att(), r.choice(ops))))
    fs.append(('Range', lambda: S.RangeSubsetState(*lohi(), att=att())))
    fs.append(('MultiRange', lambda: S.MultiRangeSubsetState([lohi() for _ in range(r.randint(0, 3))], att())))
    fs.append(('Roi', lambda: S.RoiSubsetState(att(), att(), roi2d())))
    fs.append(('RoiNd', lambda: S.RoiSubsetStateNd([att(), att()], roi2d())))
    if d.ndim >= 2:
        fs.append(('RoiPixel', lambda: S.RoiSubsetState(px[-1], px[-2], roi2d())))       # pixel-space shortcut: broadcast result
    fs.append(('RoiPre', lambda: S.RoiSubsetState(att(), att(), roi2d(), pretransform=lambda a, b: (a + 0.25, b * 1.0))))
    fs.append(('CategoricalROI', lambda: S.CategoricalROISubsetState(d.id['c'], RO.CategoricalROI(r.sample(['a', 'b', 'c', 'dd', 'zz'], r.randint(0, 3))))))
    fs.append(('Category', lambda: S.CategorySubsetState(d.id['c'], r.sample([0, 1, 2, 3], r.randint(0, 3)))))
    fs.append(('CategoryNum', lambda: S.CategorySubsetState(d.id['k'], r.sample([0, 1, 2, 3, 4], r.randint(1, 3)))))
    fs.append(('Element', lambda: S.ElementSubsetState(sorted(r.sample(range(d.size), r.randint(0, min(4, d.size)))), data=d)))
    fs.append(('ElementAny', lambda: S.ElementSubsetState(sorted(r.sample(range(d.size), r.randint(1, min(3, d.size)))))))
    fs.append(('Mask', lambda: S.MaskSubsetState(np.array([r.random() < 0.5 for _ in range(d.size)]).reshape(d.shape), px)))
    fs.append(('Slice', lambda: S.SliceSubsetState(d, [slice(r.choice([None, 0, 1]), r.choice([None, 1, 2, 3]), r.choice([None, 1, 2]))
                                                       for _ in range(r.randint(1, d.ndim))])))
    fs.append(('Pixel', lambda: PixelSubsetState(d, [slice(r.choice([0, 1]), 2) for _ in range(d.ndim)])))
    fs.append(('Base', lambda: S.SubsetState()))
    fs.append(('Parsed', lambda: ParsedSubsetState(ParsedCommand('{a} %s %s' % (r.choice(['>', '<=', '==']), val()), {'a': att()}))))
    fs.append(('FloodFill', lambda: S.FloodFillSubsetState(d, r.choice([d.id['y'], d.id['z'], d.id['p'], d.id['k']]), tuple(r.randrange(s) for s in d.shape), r.choice([1.2, 2.0]))))
    if d.ndim == 1:
        fs.append(('CategoricalROI2D', lambda: S.CategoricalROISubsetState2D({'a': {'a'}, 'b': {'b', 'c'}, 'c': set(r.sample('abc', 1))}, d.id['c'], d.id['c'])))
        fs.append(('CategoricalMultiRange', lambda: S.CategoricalMultiRangeSubsetState({'a': [lohi()], 'dd': [lohi(), lohi()]}, d.id['c'], att())))
    return fs


# ------------------------------------------------------------------ snapshots of operands
def snap(o, depth=0):
    """canonical, comparable description of the definition of a state / roi (not of caches, not of `parent`)"""
    from glue.core.component_id import ComponentID
    from glue.core.data import BaseData
    if isinstance(o, np.ndarray):
        return ('arr', o.shape, str(o.dtype), o.tobytes())
    if isinstance(o, (ComponentID, BaseData)) or callable(o):
        return ('obj', id(o))
    if isinstance(o, (int, float, str, bool, type(None), slice)):
        return repr(o)
    if isinstance(o, (list, tuple)):
        return (type(o).__name__,) + tuple(snap(x, depth + 1) for x in o)
    if isinstance(o, (set, frozenset)):
        return ('set',) + tuple(sorted(repr(x) for x in o))
    if isinstance(o, dict):
        return ('dict',) + tuple(sorted((repr(k), snap(v, depth + 1)) for k, v in o.items()))
    if hasattr(o, '__dict__') and depth < 4:
        return (type(o).__name__,) + tuple(sorted((k, snap(v, depth + 1)) for k, v in vars(o).items()
                                                  if k not in ('parent', '_mask_cache')))
    return repr(o)


# ------------------------------------------------------------------ trees
def random_spec(rng, nleaves, depth):
    if depth == 0 or rng.random() < 0.18:
        return ('leaf', rng.randrange(nleaves))
    k = rng.random()
    if k < 0.2:
        return ('and', random_spec(rng, nleaves, depth - 1), random_spec(rng, nleaves, depth - 1))
    if k < 0.4:
        return ('or', random_spec(rng, nleaves, depth - 1), random_spec(rng, nleaves, depth - 1))
    if k < 0.6:
        return ('xor', random_spec(rng, nleaves, depth - 1), random_spec(rng, nleaves, depth - 1))
    if k < 0.78:
        return ('not', random_spec(rng, nleaves, depth - 1))
    return ('multi', [random_spec(rng, nleaves, depth - 1) for _ in range(rng.randint(1, 6))])


OPFN = {'and': operator.and_, 'or': operator.or_, 'xor': operator.xor}
NPOP = {'and': np.logical_and, 'or': np.logical_or, 'xor': np.logical_xor}
OPCODE = {'and': 1, 'or': 2, 'xor': 3}
EMPTY_LEAF = 999        # leaf index of the empty selection SubsetState() that combine_multiple([]) returns
VIA = ['subset', 'group', 'group-state']


def random_spec2(rng, nleaves, depth, top=True):
    """random_spec plus the other public ways of building a selection:
       ('cm', op, [operands])     glue.core.subset.combine_multiple(list of states, operator.and_/or_/xor), 0..20 operands
       ('via', how, op, a[, b])   the operators of Subset / SubsetGroup objects (Subset.__and__ -> _combine, SubsetGroup.__and__), op in and/or/xor/not
       ('multi', [...])           MultiOrState with up to 12 children"""
    if depth == 0 or rng.random() < 0.15:
        return ('leaf', rng.randrange(nleaves))
    k = rng.random()
    if k < 0.34:
        op = rng.choice(['and', 'or', 'xor'])
        n = rng.choice([0, 1, 2, 3, 4, 5, 6, 6, 7, 8, 9, 10, 10, 11, 12, 13, 14, 15, 17, 20]) if top else rng.choice([0, 1, 2, 3, 4, 5, 6, 7])
        if n == 0 and op == 'and':
            op = 'or'       # the property says nothing about an `and` of no operand; it is asked at the root only (stream combine_direct)
        sub = (lambda: random_spec2(rng, nleaves, depth - 1, False)) if n <= 6 else \
              (lambda: ('leaf', rng.randrange(nleaves)) if rng.random() < 0.8 else random_spec2(rng, nleaves, min(depth - 1, 1), False))
        return ('cm', op, [sub() for _ in range(n)])
    if k < 0.48:
        return ('via', rng.choice(VIA), rng.choice(['and', 'or', 'xor']), random_spec2(rng, nleaves, depth - 1, False), random_spec2(rng, nleaves, depth - 1, False))
    if k < 0.56:
        return ('via', rng.choice(VIA[:2]), 'not', random_spec2(rng, nleaves, depth - 1, False))
    if k < 0.66:
        return ('multi', [('leaf', rng.randrange(nleaves)) if rng.random() < 0.7 else random_spec2(rng, nleaves, min(depth - 1, 1), False)
                          for _ in range(rng.randint(7, 12))])
    if k < 0.90:
        return (rng.choice(['and', 'or', 'xor']), random_spec2(rng, nleaves, depth - 1, False), random_spec2(rng, nleaves, depth - 1, False))
    return ('not', random_spec2(rng, nleaves, depth - 1, False))


def spec_kids(s):
    k = s[0]
    if k in ('leaf', 'empty'):
        return []
    if k == 'multi':
        return list(s[1])
    if k == 'cm':
        return list(s[2])
    if k == 'via':
        return list(s[3:])
    return list(s[1:])


def spec_depth(s):
    ks = spec_kids(s)
    return 0 if s[0] in ('leaf', 'empty') else 1 + max([spec_depth(c) for c in ks] or [0])


def spec_size(s):
    return 1 + sum(spec_size(c) for c in spec_kids(s))


def spec_ops(s, out=None):
    out = set() if out is None else out
    if s[0] not in ('leaf', 'empty'):
        out.add(s[0] if s[0] not in ('cm', 'via') else ('combine_multiple' if s[0] == 'cm' else 'via-' + s[1]))
        for c in spec_kids(s):
            spec_ops(c, out)
    return out


def spec_leaves(s, out=None):
    out = set() if out is None else out
    if s[0] == 'leaf':
        out.add(s[1])
    else:
        for c in spec_kids(s):
            spec_leaves(c, out)
    return out


def spec_json(s):
    if s[0] == 'leaf':
        return ['leaf', s[1]]
    if s[0] == 'empty':
        return ['empty']
    if s[0] == 'multi':
        return ['multi', [spec_json(c) for c in s[1]]]
    if s[0] == 'cm':
        return ['cm', s[1], [spec_json(c) for c in s[2]]]
    if s[0] == 'via':
        return ['via', s[1], s[2]] + [spec_json(c) for c in s[3:]]
    return [s[0]] + [spec_json(c) for c in s[1:]]


def spec_from_json(j):
    if j[0] == 'leaf':
        return ('leaf', j[1])
    if j[0] == 'empty':
        return ('empty',)
    if j[0] == 'multi':
        return ('multi', [spec_from_json(c) for c in j[1]])
    if j[0] == 'cm':
        return ('cm', j[1], [spec_from_json(c) for c in j[2]])
    if j[0] == 'via':
        return ('via', j[1], j[2]) + tuple(spec_from_json(c) for c in j[3:])
    return (j[0],) + tuple(spec_from_json(c) for c in j[1:])


def has_new(s):
    """does the spec use one of the entry points whose expected structure is the model's (combine_multiple, Subset / SubsetGroup operators)?"""
    return s[0] in ('cm', 'via') or any(has_new(c) for c in spec_kids(s))


def canon(s):
    """the tree of and/or/xor/not/n-ary-or objects the spec is expected to produce: combine_multiple = the LEFT fold of the binary
    operator over the operands (the operand itself for one operand, the empty SubsetState() for none)"""
    k = s[0]
    if k in ('leaf', 'empty'):
        return s
    if k == 'multi':
        return ('multi', [canon(c) for c in s[1]])
    if k == 'cm':
        ks = [canon(c) for c in s[2]]
        if not ks:
            return ('empty',)
        acc = ks[0]
        for c in ks[1:]:
            acc = (s[1], acc, c)
        return acc
    if k == 'via':
        if s[2] == 'not':
            return ('not', canon(s[3]))
        return (s[2], canon(s[3]), canon(s[4]))
    return (k,) + tuple(canon(c) for c in s[1:])


def build(spec, leaves):
    """the real state object for a spec, built with the public operators"""
    from glue.core.subset import MultiOrState
    k = spec[0]
    if k == 'leaf':
        return leaves[spec[1]]
    if k == 'and':
        return build(spec[1], leaves) & build(spec[2], leaves)
    if k == 'or':
        return build(spec[1], leaves) | build(spec[2], leaves)
    if k == 'xor':
        return build(spec[1], leaves) ^ build(spec[2], leaves)
    if k == 'not':
        return ~build(spec[1], leaves)
    if k == 'cm':
        from glue.core.subset import combine_multiple
        operands = [build(c, leaves) for c in spec[2]]
        given = list(operands)
        out = combine_multiple(operands, OPFN[spec[1]])
        if len(operands) != len(given) or any(a is not b for a, b in zip(operands, given)):
            raise OperandsAltered('combine_multiple changed the list of operands it was given')
        return out
    if k == 'via':
        from glue.core.subset import Subset
        from glue.core.subset_group import SubsetGroup
        how, op = spec[1], spec[2]

        def holder(state, second=False):
            if how == 'group-state' and second:
                return state                      # SubsetGroup.__and__(state): `other.subset_state` of a state is the state
            h = Subset(None) if how == 'subset' else SubsetGroup()
            h.subset_state = state
            return h
        a = holder(build(spec[3], leaves))
        if op == 'not':
            r = ~a
        else:
            b = holder(build(spec[4], leaves), True)
            r = OPFN[op](a, b)
        return r.subset_state                     # a Subset for Subset operands, the state itself for groups
    if k == 'empty':
        from glue.core.subset import SubsetState
        return SubsetState()
    return MultiOrState([build(c, leaves) for c in spec[1]])


def np_eval(spec, masks):
    """the oracle: numpy Boolean operations on the masks of the parts"""
    k = spec[0]
    if k == 'leaf':
        return masks[spec[1]]
    if k == 'and':
        return np.logical_and(np_eval(spec[1], masks), np_eval(spec[2], masks))
    if k == 'or':
        return np.logical_or(np_eval(spec[1], masks), np_eval(spec[2], masks))
    if k == 'xor':
        return np.logical_xor(np_eval(spec[1], masks), np_eval(spec[2], masks))
    if k == 'not':
        return np.logical_not(np_eval(spec[1], masks))
    if k == 'empty':
        return np.zeros(masks['shape'] if 'shape' in masks else np.shape(next(iter(masks.values()))), dtype=bool)
    if k == 'cm':       # the elementwise reduction of the operands' masks (no operand: nothing is selected)
        ms = [np_eval(c, masks) for c in spec[2]]
        if not ms:
            return np_eval(('empty',), masks)
        out = ms[0]
        for m in ms[1:]:
            out = NPOP[spec[1]](out, m)
        return out
    if k == 'via':
        if spec[2] == 'not':
            return np.logical_not(np_eval(spec[3], masks))
        return NPOP[spec[2]](np_eval(spec[3], masks), np_eval(spec[4], masks))
    out = np.zeros(np.shape(np_eval(spec[1][0], masks)), dtype=bool)
    for c in spec[1]:
        out = np.logical_or(out, np_eval(c, masks))
    return out


KIND_CLASS = {'and': 'AndState', 'or': 'OrState', 'xor': 'XorState', 'not': 'InvertState', 'multi': 'MultiOrState'}


class Ids:
    """identity of live objects -> small integers (objects are kept alive so ids are not reused)"""

    def __init__(self):
        self.m = {}
        self.keep = []

    def __call__(self, o):
        if id(o) not in self.m:
            self.m[id(o)] = len(self.m) + 1
            self.keep.append(o)
        return self.m[id(o)]

    def known(self, o):
        return id(o) in self.m


class Mismatch(Exception):
    pass


class NewMismatch(Mismatch):
    """the object built through combine_multiple / the Subset operators has not the structure the model expects: a disagreement
    between model and implementation (the masks are judged separately, by the oracle)"""


class OperandsAltered(Exception):
    pass


def wire_c(spec, real, ids, cidx, nodes=None):
    """wire() against the structure the spec is expected to produce"""
    try:
        return wire(canon(spec), real, ids, cidx, nodes)
    except Mismatch as e:
        if has_new(spec):
            raise NewMismatch(str(e))
        raise


def wire(spec, real, ids, cidx, nodes=None):
    """parallel walk of the spec and of the real state object -> wire tree with identities and class indices"""
    k = spec[0]
    name = type(real).__name__
    if nodes is not None:
        nodes.append((spec, real))
    if k == 'leaf':
        if hasattr(real, 'state1') or hasattr(real, 'states'):
            raise Mismatch('leaf %r expected, found %s' % (spec, name))
        return (10, [ids(real), cidx[name], spec[1]])
    if k == 'empty':
        if name != 'SubsetState':
            raise Mismatch('the empty SubsetState expected, found %s' % name)
        return (10, [ids(real), cidx[name], EMPTY_LEAF])
    if name != KIND_CLASS[k]:
        raise Mismatch('%s expected, found %s' % (KIND_CLASS[k], name))
    if k in ('and', 'or', 'xor'):
        return (11, [ids(real), cidx[name], wire(spec[1], real.state1, ids, cidx, nodes), wire(spec[2], real.state2, ids, cidx, nodes)])
    if k == 'not':
        if real.state2 is not None:
            raise Mismatch('InvertState with a second operand')
        return (12, [ids(real), cidx[name], wire(spec[1], real.state1, ids, cidx, nodes)])
    if len(real.states) != len(spec[1]):
        raise Mismatch('MultiOrState with %d children, %d expected' % (len(real.states), len(spec[1])))
    return (13, [ids(real), cidx[name]] + [wire(c, r, ids, cidx, nodes) for c, r in zip(spec[1], real.states)])


def view_key(v):
    if v is None:
        return 'None'
    if isinstance(v, np.ndarray):
        return 'arr' + repr(v.tolist())
    if isinstance(v, tuple):
        return '(' + ','.join(view_key(x) for x in v) + ')'
    return repr(v)


def view_shape_of(d, v):
    return d.shape if v is None else np.empty(d.shape)[v].shape


def bits(m):
    return B(np.asarray(m, dtype=bool).ravel().tolist())


def err_name(e):
    return type(e).__name__


# ------------------------------------------------------------------ one tree case
class World:
    def __init__(self, seed, stream, i, ndim=None, nleaves=None, kinds=None, minsize=None, nmasks=0, dense=False):
        self.seed, self.stream, self.i = seed, stream, i
        rng = case_rng(seed, stream, i, 'world')
        self.rng = rng
        self.d = make_data(rng, ndim, minsize=minsize)
        self.views = make_views(rng, self.d)
        self.vtag = {}
        for tg, v, hk in container_views(self.d):
            self.vtag[tg] = len(self.views)
            self.views.append((v, hk))
        fs = leaf_factories(rng, self.d)
        if kinds is not None:
            fs = [f for f in fs if f[0] in kinds]
            order = {k: j for j, k in enumerate(kinds)}
            fs.sort(key=lambda f: order[f[0]])
            chosen = fs
        else:
            nleaves = nleaves or rng.randint(1, 6)
            chosen = [rng.choice(fs) for _ in range(nleaves)]
        self.leaf_kinds = []
        self.leaves = []
        for kind, f in chosen:
            try:
                s = f()
            except Exception:
                continue
            self.leaf_kinds.append(kind)
            self.leaves.append(s)
        # operands for many-way combinations: each selects few elements (dense: all but a few), at least one (not all), so that
        # an operand that is lost or used twice shows in the result of an or / xor (and)
        from glue.core.subset import MaskSubsetState, ElementSubsetState
        size = self.d.size
        for j in range(nmasks):
            m = np.zeros(size, dtype=bool)
            m[rng.sample(range(size), rng.choice([1, 1, 2, 3]))] = True
            if j % 4 == 3 and not dense:
                self.leaf_kinds.append('Element')
                self.leaves.append(ElementSubsetState(np.flatnonzero(m).tolist(), data=self.d))
            else:
                self.leaf_kinds.append('MaskDense' if dense else 'MaskSparse')
                self.leaves.append(MaskSubsetState((~m if dense else m).reshape(self.d.shape), list(self.d.pixel_component_ids)))


def run_tree_case(R, W, spec, requests, cidx, final_check=True):
    """run one case on the implementation; returns dict with wire line, impl trace, oracle verdicts"""
    d = W.d
    ids = Ids()
    res = {'oracle': [], 'corr': [], 'line': None, 'impl': None}
    nl = len(W.leaves)
    # --- 1. record the masks of the parts (these are evaluation requests too: they fill the caches)
    trace = []          # (wire request, result array or error, expected by oracle or None)
    held = []           # every array the implementation returned, with a private copy
    lm = {}
    usable_views = []
    wanted = set([0]) | set(r[1] for r in requests)
    for vi, (v, hk) in enumerate(W.views):
        if vi not in wanted:
            continue        # only the views this case asks for are recorded (and re-checked at the end)
        ok = True
        for n in spec_leaves(spec) | set(r[0][1] for r in requests if r[0][0] == 'part'):
            try:
                m = W.leaves[n].to_mask(d, v)
                if not isinstance(m, (np.ndarray, np.bool_)) or m.dtype != bool or m.shape != view_shape_of(d, v):
                    raise TypeError('not a boolean array of the shape of the data under the view')   # leaf semantics under views: C04
            except Exception as e:      # this part does not support this view: the view is not used in this case
                ok = False
                break
        if ok:
            usable_views.append(vi)
    if 0 not in usable_views:
        res['skip'] = 'a part cannot be evaluated on the full data'
        return res
    snaps = [snap(s) for s in W.leaves]
    reqs_wire = []

    def call(target_spec, target_obj, vi, form, via, expected):
        v, hk = W.views[vi]
        try:
            if via == 'state':
                if form == FKW:
                    out = target_obj.to_mask(d, view=v)
                elif form == FPOS:
                    out = target_obj.to_mask(d, v)
                else:
                    out = target_obj.to_mask(d)
            elif via == 'data':
                out = d.get_mask(target_obj, view=v)
            else:
                out = via.to_mask(view=v)
        except Exception as e:
            out = e
        if not res.get('nomodel'):
            w = wire(target_spec, target_obj, ids, cidx)
            reqs_wire.append((0, [0, vi, 1 if hk else 0, form, w]))
        trace.append((out, expected, vi, (target_spec, via if isinstance(via, str) else 'subset', form)))
        return out

    used_leaves = sorted(spec_leaves(spec) | set(r[0][1] for r in requests if r[0][0] == 'part'))
    for n in used_leaves:
        for vi in usable_views:
            m = call(('leaf', n), W.leaves[n], vi, FPOS, 'state', None)
            lm[(n, vi)] = np.array(m, dtype=bool, copy=True)
    # --- 2. build the composite from the parts
    try:
        root = build(spec, W.leaves)
    except Exception as e:
        res['oracle'].append('building the selection raised %s: %s' % (err_name(e), e))
        return res
    nodes = []
    new_kinds = has_new(spec)
    try:
        wire_c(spec, root, ids, cidx, nodes)
    except NewMismatch as e:
        # built through combine_multiple / Subset operators and not the tree of objects the model expects: model and implementation
        # disagree.  Whether the selection is RIGHT is the oracle's business: the requests go to the root, judged by the masks alone.
        res['corr'].append('structure of the selection built through combine_multiple / Subset operators: %s' % e)
        res['nomodel'] = True
        nodes = [(spec, root)]
    except Mismatch as e:
        res['oracle'].append('structure of the combined selection: %s' % e)
        return res
    sub = None
    # --- 3. the requested evaluations
    for (tgt, vi, form, via) in requests:
        if vi not in usable_views:
            vi = 0
        if form == FNONE:
            vi = 0
        if tgt[0] == 'part':
            tspec, tobj = ('leaf', tgt[1]), W.leaves[tgt[1]]
        elif new_kinds:
            # which part a sub-state of an object built by combine_multiple / the Subset operators stands for is the model's
            # business (an operand order the masks do not depend on must not look like a wrong mask): the oracle judges the root
            tspec, tobj = nodes[0]
        else:
            tspec, tobj = nodes[tgt[1] % len(nodes)]
        masks = {n: lm[(n, vi)] for n in used_leaves}
        masks['shape'] = view_shape_of(d, W.views[vi][0])
        expected = np_eval(tspec, masks)
        if via == 'subset':
            if sub is None:
                sub = d.new_subset()
            sub.subset_state = tobj
            call(tspec, tobj, vi, FKW, sub, expected)
        else:
            call(tspec, tobj, vi, form, via, expected)
    # --- 4. the parts again (operands must be what they were)
    if final_check:
        for n in used_leaves:
            for vi in usable_views:
                call(('leaf', n), W.leaves[n], vi, FPOS, 'state', lm[(n, vi)])
    # --- oracle
    prev = []
    frame_impl = []
    for k, (out, expected, vi, what) in enumerate(trace):
        changed = [j for j, (a, c) in enumerate(prev) if isinstance(a, np.ndarray) and not np.array_equal(a, c)]
        frame_impl.append(0 if changed else 1)
        if changed:
            res['oracle'].append('request %d %r altered the array returned by request %d' % (k, what, changed[0]))
            prev = [(a, (a.copy() if isinstance(a, np.ndarray) else a)) for a, c in prev]
        if isinstance(out, Exception):
            res['oracle'].append('request %d %r raised %s: %s' % (k, what, err_name(out), out))
            prev.append((None, None))
            continue
        if not isinstance(out, (np.ndarray, np.generic)):
            res['oracle'].append('request %d %r returned a %s' % (k, what, type(out).__name__))
            prev.append((None, None))
            continue
        prev.append((out, out.copy()))
        if expected is not None:
            if out.shape != view_shape_of(d, W.views[vi][0]):
                res['oracle'].append('request %d %r: shape %r, data under the view has %r' % (k, what, out.shape, view_shape_of(d, W.views[vi][0])))
            elif out.dtype != bool or not np.array_equal(out, expected):
                res['oracle'].append('request %d %r: mask %s, Boolean combination of the parts %s' % (
                    k, what, np.asarray(out).astype(int).ravel().tolist(), np.asarray(expected).astype(int).ravel().tolist()))
    for n, s in enumerate(W.leaves):
        if snap(s) != snaps[n]:
            res['oracle'].append('the definition of part %d (%s) changed' % (n, W.leaf_kinds[n]))
    # --- model input
    lmt = [(0, [n, 0, vi, bits(m)]) for (n, vi), m in sorted(lm.items())]
    lmt += [(0, [EMPTY_LEAF, 0, vi, bits(np.zeros(view_shape_of(d, W.views[vi][0]), dtype=bool))]) for vi in usable_views]
    if not res.get('nomodel'):
        res['line'] = enc((2, [(0, lmt), (0, reqs_wire)]))
    # identity pattern of the returned arrays
    seen = {}
    pat = []
    for out, _, _, _ in trace:
        if isinstance(out, Exception):
            pat.append(-1)
        else:
            pat.append(seen.setdefault(id(out), len(seen)))
    if any(not isinstance(o, (Exception, np.ndarray)) for o, _, _, _ in trace):
        pat = None      # numpy scalars (0-d results) are shared singletons: identity says nothing
    res['impl'] = {'masks': [None if isinstance(o, Exception) else np.asarray(o).astype(int).ravel().tolist() for o, _, _, _ in trace],
                   'pattern': pat, 'frame': frame_impl}
    res['keep'] = (trace, ids, sub)
    res['nreq'] = len(trace)
    res['hits'] = (len(pat) - len(set(pat))) if pat is not None else 0
    return res


def compare_model(res, out):
    """model trace vs implementation trace; returns list of disagreement strings"""
    if res.get('line') is None:
        return []
    if is_err(out) or tag(out) != 1:
        return ['model rejected the case: %r' % (out,)]
    ks = kids(out)
    impl = res['impl']
    if len(ks) != len(impl['masks']):
        return ['model returned %d results for %d requests' % (len(ks), len(impl['masks']))]
    seen = {}
    bad = []
    for j, k in enumerate(ks):
        a = kids(k)[0][0]
        m = to_zs(kids(k)[1])
        fr = kids(k)[2][0]
        p = seen.setdefault(a, len(seen))
        if impl['masks'][j] is None:
            bad.append('request %d: implementation raised, model returned a mask' % j)
            break
        if m != impl['masks'][j]:
            bad.append('request %d: model mask %s, implementation %s' % (j, m, impl['masks'][j]))
        elif impl['pattern'] is not None and p != impl['pattern'][j]:
            bad.append('request %d: identity pattern of the returned arrays differs (model %s..., implementation %s...)' % (j, p, impl['pattern'][j]))
        elif fr != impl['frame'][j]:
            bad.append('request %d: "earlier arrays unchanged" model %d implementation %d' % (j, fr, impl['frame'][j]))
        if bad:
            break
    return bad


def random_requests(rng, spec, nleaves_used, nviews, n):
    size = spec_size(spec)
    out = []
    for _ in range(n):
        k = rng.random()
        if k < 0.45:
            tgt = ('node', 0)
        elif k < 0.75:
            tgt = ('node', rng.randrange(size))
        else:
            tgt = ('part', rng.choice(nleaves_used))
        vi = rng.choice([0, 0, 0] + list(range(nviews)))
        via = rng.choice(['state', 'state', 'data', 'subset'])
        form = rng.choice([FKW, FPOS, FNONE]) if via == 'state' else FKW
        out.append((tgt, vi, form, via))
    return out


def case_desc(W, spec, requests):
    return {'stream': W.stream, 'seed': W.seed, 'i': W.i, 'spec': spec_json(spec),
            'requests': [[list(t), vi, form, via] for t, vi, form, via in requests],
            'parts': W.leaf_kinds, 'shape': list(W.d.shape)}


def shrink(R, W, spec, requests, cidx, pred):
    """greedy: replace the tree by a sub-tree / drop requests while the oracle still fails"""
    best = (spec, requests)
    improved = True
    budget = 60
    while improved and budget > 0:
        improved = False
        s, rq = best
        cands = []
        if s[0] not in ('leaf', 'empty'):
            for c in spec_kids(s):
                cands.append((c, rq))
            if s[0] == 'multi' and len(s[1]) > 1:
                for j in range(len(s[1])):
                    cands.append((('multi', s[1][:j] + s[1][j + 1:]), rq))
            if s[0] == 'cm' and len(s[2]) > 1:
                for j in range(len(s[2])):
                    cands.append((('cm', s[1], s[2][:j] + s[2][j + 1:]), rq))
        for j in range(len(rq)):
            cands.append((s, rq[:j] + rq[j + 1:]))
        for c in cands:
            budget -= 1
            if budget <= 0:
                break
            try:
                W2 = rebuild_world(W)
                r = run_tree_case(R, W2, c[0], c[1], cidx)
            except Exception:
                continue
            if pred(r):
                best = c
                improved = True
                break
    return best


def rebuild_world(W):
    return new_world(W.seed, W.stream, W.i, ndim=getattr(W, 'ndim_arg', None), nleaves=getattr(W, 'nleaves_arg', None), kinds=getattr(W, 'kinds_arg', None),
                     **getattr(W, 'extra_args', {}))


def new_world(seed, stream, i, ndim=None, nleaves=None, kinds=None, **extra):
    W = World(seed, stream, i, ndim=ndim, nleaves=nleaves, kinds=kinds, **extra)
    W.ndim_arg, W.nleaves_arg, W.kinds_arg, W.extra_args = ndim, nleaves, kinds, extra
    return W


def clear_all_caches():
    """start every case from empty memo dicts, as the model does"""
    from glue.core.subset import SubsetState
    stack = [SubsetState]
    while stack:
        c = stack.pop()
        f = c.__dict__.get('to_mask')
        cache = getattr(f, '__memoize_cache', None)
        if cache is not None:
            cache.clear()
        stack.extend(c.__subclasses__())


def process_cases(R, cases, cidx, stream):
    """cases: list of (W, spec, requests).  Runs implementation + oracle, then the model in one batch."""
    results = []
    lines = []
    for W, spec, requests in cases:
        clear_all_caches()
        try:
            res = run_tree_case(R, W, spec, requests, cidx)
        except Mismatch as e:
            res = {'oracle': ['structure: %s' % e], 'line': None}
        except Exception as e:
            res = {'oracle': ['running the case raised %s: %s' % (err_name(e), e)], 'line': None}
        results.append(res)
        if res.get('line') is not None:
            lines.append(res['line'])
    outs = iter(R.model(lines)) if (lines and R.model_available) else iter([])
    for (W, spec, requests), res in zip(cases, results):
        if res.get('skip'):
            R.count(('skip', W.stream, W.i), nontrivial=False, stream=stream, outcome='skipped')
            continue
        ops = spec_ops(spec)
        nontriv = spec[0] not in ('leaf', 'empty')
        R.count((stream, W.seed if stream != 'exhaustive' else 0, W.i if stream != 'exhaustive' else 0, repr(spec_json(spec)), tuple(W.leaf_kinds), tuple(W.d.shape),
                 repr(requests)),
                nontrivial=nontriv, stream=stream, depth=spec_depth(spec), size=min(spec_size(spec), 40) // 5 * 5, ndim=W.d.ndim,
                requests=res.get('nreq', 0) // 5 * 5, cache_hits=min(res.get('hits', 0), 20) // 4 * 4,
                outcome='oracle-fail' if res['oracle'] else 'ok')
        for k in W.leaf_kinds:
            R.hist['part_kind'][k] += 1
        for o in ops:
            R.hist['operator'][o] += 1
        if res['oracle']:
            case = case_desc(W, spec, requests)
            if stream in ('random', 'combine') and R.hist['shrunk']['cases'] < 3:
                R.hist['shrunk']['cases'] += 1
                try:
                    s2, r2 = shrink(R, W, spec, requests, cidx, lambda r: bool(r.get('oracle')))
                    clear_all_caches()
                    W3 = rebuild_world(W)
                    r3 = run_tree_case(R, W3, s2, r2, cidx)
                    if r3.get('oracle'):
                        case = case_desc(W3, s2, r2)
                        res = dict(res, oracle=r3['oracle'])
                except Exception:
                    pass
            R.fail('oracle', case, res['oracle'][:4])
        if res.get('corr'):
            R.fail('correspondence', case_desc(W, spec, requests), res['corr'][:3])
        if res.get('line') is not None and R.model_available:
            out = next(outs)
            bad = compare_model(res, out)
            if bad:
                R.fail('correspondence', case_desc(W, spec, requests), bad[:3])
        res.pop('keep', None)


# ------------------------------------------------------------------ streams
def stream_class_table(R, cidx):
    from glue.core.subset import SubsetState
    import glue.core.parse  # noqa  (defines ParsedSubsetState)
    import glue.viewers.image.pixel_selection_subset_state  # noqa
    stack, live = [SubsetState], {}
    while stack:
        c = stack.pop()
        if c.__module__.startswith('glue.') and '.tests.' not in c.__module__:
            live[c.__name__] = c
        stack.extend(c.__subclasses__())
    names = sorted(live)
    missing = [n for n in names if n not in cidx]
    extra = [n for n in cidx if n not in live]
    if missing or extra:
        R.fail('correspondence', {'stream': 'class_table'}, {'classes the scan missed': missing, 'classes only in the scan': extra})
    names = [n for n in names if n in cidx]
    outs = R.model([enc((5, [cidx[n]])) for n in names]) if R.model_available else []
    cache_owner = {}
    import operator as op
    for n, o in zip(names, outs):
        c = live[n]
        f = c.to_mask
        cache = getattr(f, '__memoize_cache', None)
        fn, kind, detail = [k[0] for k in kids(o)]
        R.count(('class', n), nontrivial=cache is not None, stream='class_table')
        impl_memo = cache is not None
        if impl_memo != (fn >= 0):
            R.fail('correspondence', {'stream': 'class_table', 'class': n}, {'memoised (live)': impl_memo, 'memoised (scan)': fn >= 0})
        if impl_memo:
            owner = cache_owner.setdefault(id(cache), fn)
            if owner != fn:
                R.fail('correspondence', {'stream': 'class_table', 'class': n}, 'function cache shared differently from the scan')
        want = {op.and_: 1, op.or_: 2, op.xor: 3}.get(getattr(c, 'op', None))
        if n in ('AndState', 'OrState', 'XorState') and kind != want:
            R.fail('correspondence', {'stream': 'class_table', 'class': n}, {'kind (scan)': kind, 'op (live)': repr(getattr(c, 'op', None))})
    R.stream('class_table', cases=len(names), exhaustive=True, bound='every SubsetState subclass defined in non-test modules of glue')


def enum_specs(leaf_ids, depth, multi_max):
    """all trees of depth <= depth"""
    if depth == 0:
        return [('leaf', n) for n in leaf_ids]
    sub = enum_specs(leaf_ids, depth - 1, multi_max)
    out = list(sub)
    seen = set(map(repr, out))
    new = []
    for a in sub:
        new.append(('not', a))
        new.append(('multi', [a]))
        for b in sub:
            for k in ('and', 'or', 'xor'):
                new.append((k, a, b))
            new.append(('multi', [a, b]))
    if multi_max >= 3:
        for a in sub[:len(leaf_ids)]:
            for b in sub[:len(leaf_ids)]:
                for c in sub[:len(leaf_ids)]:
                    new.append(('multi', [a, b, c]))
    for s in new:
        if repr(s) not in seen:
            seen.add(repr(s))
            out.append(s)
    return out


def stream_exhaustive(R, cidx):
    # three leaf kinds: memoised (Inequality), not memoised (Range), read-only broadcast (pixel-space ROI on 2-d data)
    kinds = ['Inequality', 'Range', 'RoiPixel']
    W0 = new_world(0, 'exhaustive', 0, ndim=2, kinds=kinds)
    assert W0.leaf_kinds == kinds, W0.leaf_kinds
    depth1 = enum_specs([0, 1, 2], 1, 3)
    specs = list(depth1)
    # depth 2: operators over depth-1 trees restricted to two leaves, every operator at the root
    d1small = enum_specs([0, 2], 1, 2)
    limit = R.pick(1500, 6000)
    rng = case_rng(0, 'exhaustive-sample')
    d2 = []
    for a in d1small:
        d2.append(('not', a))
        d2.append(('multi', [a, ('leaf', 1)]))
        for b in d1small:
            for k in ('and', 'xor', 'multi'):
                d2.append((k, a, b) if k != 'multi' else ('multi', [a, b]))
    full = len(d2)
    if len(d2) > limit:
        d2 = rng.sample(d2, limit)
    specs += d2
    reqs = [(('node', 0), 0, FKW, 'data'), (('node', 0), 0, FPOS, 'state'), (('node', 0), 0, FKW, 'data'),
            (('node', 1), 0, FPOS, 'state'), (('node', 0), 1, FKW, 'subset'), (('node', 0), 0, FNONE, 'state')]
    # the same object under views that differ only in the container (tuple = memoised key, list = never memoised)
    vt = W0.vtag
    reqs = reqs + [(('node', 0), vt['t2'], FKW, 'data'), (('node', 0), vt['l2'], FKW, 'data'),
                   (('node', 0), vt['ll'], FPOS, 'state'), (('node', 0), vt['tt'], FPOS, 'state')]
    cases = []
    for s in specs:
        W = new_world(0, 'exhaustive', 0, ndim=2, kinds=kinds)
        cases.append((W, s, reqs))
    process_cases(R, cases, cidx, 'exhaustive')
    R.stream('exhaustive', cases=len(cases), exhaustive=len(d2) == full,
             bound='all %d trees of depth <= 1 over {memoised, not memoised, read-only broadcast} parts with and/or/xor/not/1-3-ary or; '
                   '%d of the %d depth-2 trees over two parts; 10 requests each (tuple / list views that agree element by element, twice through Data.get_mask, state.to_mask positional, '
                   'a sub-state, a Subset under a view, to_mask(data))' % (len(depth1), len(d2), full))


def stream_random(R, cidx):
    n = R.pick(1800, 14000)
    cases = []
    batch = 400
    done = 0
    for i in range(n):
        W = new_world(R.seed, 'random', i)
        if not W.leaves:
            continue
        rng = case_rng(R.seed, 'random', i, 'tree')
        depth = rng.choice([1, 2, 2, 3, 3, 4, 5])
        spec = random_spec(rng, len(W.leaves), depth)
        used = sorted(spec_leaves(spec))
        reqs = random_requests(rng, spec, used, len(W.views), rng.randint(2, 10))
        cases.append((W, spec, reqs))
        if len(cases) >= batch:
            process_cases(R, cases, cidx, 'random')
            done += len(cases)
            cases = []
    if cases:
        process_cases(R, cases, cidx, 'random')
        done += len(cases)
    R.sample({'random tree case': {'parts': ['Inequality', 'Roi', 'Category'], 'spec': ['and', ['leaf', 0], ['multi', [['leaf', 1], ['not', ['leaf', 2]]]]],
                                   'requests': 'root via Data.get_mask, sub-state via to_mask(data, view), part 1, root again'}})
    R.stream('random', cases=done, exhaustive=False,
             bound='datasets of 1-3 dims (2..5 per axis), 1-6 parts from 23 kinds of elementary states, trees to depth 5, n-ary or with 1-6 children, 2-10 requests over 5-7 views')


def stream_containers(R, cidx):
    """the same state object, the same dataset, views that are equal element by element but differ in the container type"""
    n = R.pick(260, 2500)
    cases = []
    for i in range(n):
        rng = case_rng(R.seed, 'containers', i, 'tree')
        W = new_world(R.seed, 'containers', i, ndim=rng.choice([1, 2, 2, 2, 3]))
        if not W.leaves:
            continue
        spec = random_spec(rng, len(W.leaves), rng.choice([0, 1, 1, 2, 3]))
        pairs = [p for p in CONTAINER_PAIRS if p[0] in W.vtag and p[1] in W.vtag]
        reqs = []
        for _ in range(rng.randint(1, 3)):
            a, b = rng.choice(pairs)
            order = rng.choice([(a, b), (b, a), (a, b, a), (b, a, b)])
            tgt = ('node', 0) if rng.random() < 0.7 else ('node', rng.randrange(spec_size(spec)))
            via = rng.choice(['data', 'state', 'subset'])
            form = rng.choice([FKW, FPOS]) if via == 'state' else FKW
            for tg in order:
                reqs.append((tgt, W.vtag[tg], form, via))
        cases.append((W, spec, reqs))
    for k in range(0, len(cases), 400):
        process_cases(R, cases[k:k + 400], cidx, 'containers')
    R.stream('containers', cases=len(cases), exhaustive=False,
             bound='random trees (depth <= 3) on 1-3-d data; 1-3 groups of 2-3 requests on ONE state object with views (1,) / [1], (1, 0) / [1, 0] / array([1, 0]), '
                   '((0,1),(1,0)) / [[0,1],[1,0]] / ([0,1],[1,0]) in both orders, through Data.get_mask, state.to_mask, Subset.to_mask')


# ---- combine_multiple called directly: every number of operands 0..20 with every operator
def combine_direct_world(seed, i):
    n, op = i % 21, ['and', 'or', 'xor'][(i // 21) % 3]
    nd = case_rng(seed, 'combine_direct', i, 'nd').choice([1, 2, 2, 3])
    return n, op, new_world(seed, 'combine_direct', i, ndim=nd, minsize=14, nmasks=max(n, 2), dense=(op == 'and'))


def run_combine_case(R, seed, i, cidx, explicit=None):
    """combine_multiple(list of n states, operator) on real states: the mask of the result against the elementwise reduction of the masks
    of the operands (oracle), the object it returns against the model's (generated) combine_multiple (correspondence)"""
    from glue.core.subset import combine_multiple
    n, op, W = combine_direct_world(seed, i)
    d = W.d
    res = {'oracle': [], 'line': None, 'corr': []}
    rng = case_rng(seed, 'combine_direct', i, 'operands')
    nl = len(W.leaves)
    first_mask = nl - max(n, 2)
    if explicit is None:
        specs = []
        for j in range(n):
            k = rng.random()
            if k < 0.7:
                specs.append(('leaf', first_mask + j))
            elif k < 0.88:
                specs.append(('leaf', rng.randrange(nl)))
            else:
                specs.append(random_spec2(rng, nl, 1, False))
    else:
        op = explicit['op']
        specs = [spec_from_json(j) for j in explicit['operands']]
        n = len(specs)
    desc = {'stream': 'combine_direct', 'seed': seed, 'i': i, 'op': op, 'operands': [spec_json(c) for c in specs], 'parts': W.leaf_kinds, 'shape': list(d.shape)}
    lm = {}
    try:
        for k in sorted(set().union(*[spec_leaves(c) for c in specs]) if specs else []):
            m = W.leaves[k].to_mask(d)
            if not isinstance(m, np.ndarray) or m.dtype != bool or m.shape != d.shape:
                raise TypeError
            lm[k] = np.array(m, copy=True)
    except Exception:
        res['skip'] = 'a part cannot be evaluated'
        return res, W, desc
    snaps = [snap(c) for c in W.leaves]
    ids = Ids()
    masks = dict(lm)
    masks['shape'] = d.shape
    try:
        objs = [build(c, W.leaves) for c in specs]
    except Exception as e:
        res['oracle'].append('building an operand raised %s: %s' % (err_name(e), e))
        return res, W, desc
    nomodel = False
    wires = []
    for c, o in zip(specs, objs):
        try:
            wires.append(wire_c(c, o, ids, cidx))
        except NewMismatch as e:
            res['corr'].append('structure of an operand: %s' % e)
            nomodel = True
    operand_masks = [np_eval(c, masks) for c in specs]
    try:
        before = [np.array(o.to_mask(d), copy=True) for o in objs]
    except Exception as e:
        res['oracle'].append('evaluating an operand raised %s: %s' % (err_name(e), e))
        return res, W, desc
    for j, (b, m) in enumerate(zip(before, operand_masks)):
        if b.shape != m.shape or not np.array_equal(b, m):
            res['oracle'].append('operand %d %r: mask %s, Boolean combination of the parts %s' % (j, spec_json(specs[j]), b.astype(int).ravel().tolist(), m.astype(int).ravel().tolist()))
            return res, W, desc
    given = list(objs)
    try:
        root = combine_multiple(objs, OPFN[op])
        got = d.get_mask(root)
        got2 = root.to_mask(d)
    except Exception as e:
        res['oracle'].append('combine_multiple of %d operands / its evaluation raised %s: %s' % (n, err_name(e), e))
        return res, W, desc
    if n == 0:
        expected = np.zeros(d.shape, dtype=bool) if op != 'and' else None     # an `and` of nothing: the property does not say
    else:
        expected = operand_masks[0]
        for m in operand_masks[1:]:
            expected = NPOP[op](expected, m)
    for g in (got, got2):
        if not isinstance(g, np.ndarray) or g.dtype != bool or g.shape != d.shape:
            res['oracle'].append('combine_multiple(%d operands, %s): the mask is not a boolean array of the shape of the data' % (n, op))
            break
        if expected is not None and not np.array_equal(g, expected):
            res['oracle'].append('combine_multiple(%d operands, %s): mask %s, elementwise %s of the masks of the operands %s' % (
                n, op, g.astype(int).ravel().tolist(), op, expected.astype(int).ravel().tolist()))
            break
    if len(objs) != len(given) or any(a is not b for a, b in zip(objs, given)):
        res['oracle'].append('combine_multiple altered the list of operands')
    for c, o, m in zip(specs, objs, before):
        try:
            if not np.array_equal(o.to_mask(d), m):
                res['oracle'].append('an operand of combine_multiple selects something else afterwards')
                break
        except Exception as e:
            res['oracle'].append('an operand of combine_multiple cannot be evaluated afterwards: %s' % err_name(e))
            break
    for k, c in enumerate(W.leaves):
        if snap(c) != snaps[k]:
            res['oracle'].append('part %d (%s) was altered by combine_multiple' % (k, W.leaf_kinds[k]))
    nxt = len(ids.m) + 1
    fresh = {}
    leaves_real = []
    cr = canon_real(tree_of(root), ids, fresh, d, leaves_real)
    lmt = (0, [(0, [k, 0, 0, bits(m)]) for k, m in sorted(lm.items())] + [(0, [EMPTY_LEAF, 0, 0, bits(np.zeros(d.shape, dtype=bool))])])
    if not nomodel:
        res['line'] = enc((6, [lmt, 0, 0, OPCODE[op], EMPTY_LEAF, (0, wires), nxt]))
    res['impl'] = {'tree': cr, 'mask': np.asarray(got).astype(int).ravel().tolist(),
                   'leaf_masks': [np.asarray(l.to_mask(d)).astype(int).ravel().tolist() for l in leaves_real], 'nxt': nxt}
    res['lm'] = {k: m.astype(int).ravel().tolist() for k, m in lm.items()}
    res['lm'][EMPTY_LEAF] = [0] * d.size
    res['nops'] = n
    res['and_of_nothing'] = (n == 0 and op == 'and')
    return res, W, desc


def stream_combine_direct(R, cidx):
    n = R.pick(126, 630)
    items = []
    for i in range(n):
        clear_all_caches()
        try:
            res, W, desc = run_combine_case(R, R.seed, i, cidx)
        except Exception as e:
            res, W, desc = {'oracle': ['running the case raised %s: %s' % (err_name(e), e)], 'line': None}, None, {'stream': 'combine_direct', 'seed': R.seed, 'i': i}
        items.append((res, W, desc))
    lines = [r['line'] for r, _, _ in items if r.get('line')]
    outs = iter(R.model(lines)) if (lines and R.model_available) else iter([])
    for res, W, desc in items:
        if res.get('skip'):
            R.count(('combine-skip', desc['i']), nontrivial=False, stream='combine_direct', outcome='skipped')
            continue
        R.count(('combine_direct', R.seed, desc['i'], desc.get('op'), repr(desc.get('operands'))), nontrivial=res.get('nops', 0) >= 2, stream='combine_direct',
                combine_operands=res.get('nops', 0), outcome='oracle-fail' if res['oracle'] else 'ok')
        R.hist['operator']['combine_multiple'] += 1
        if res['oracle']:
            R.fail('oracle', desc, res['oracle'][:4])
        if res.get('corr'):
            R.fail('correspondence', desc, res['corr'][:3])
        if res.get('line') and R.model_available:
            bad = compare_edit(res, next(outs))
            if bad:
                R.fail('correspondence', desc, bad)
    R.sample({'combine_multiple case': {'op': 'xor', 'operands': [['leaf', 3], ['leaf', 4], ['via', 'subset', 'and', ['leaf', 0], ['leaf', 5]], ['leaf', 6], ['leaf', 7], ['leaf', 8]]}})
    R.stream('combine_direct', cases=len(items), exhaustive=False,
             bound='glue.core.subset.combine_multiple(list, operator.and_/or_/xor) with EVERY number of operands 0..20 for every operator (%d worlds each): operands select 1-3 '
                   'elements each (all but 1-3 for `and`) of a dataset of >= 14 elements (Mask / Element states), some are ordinary parts or small trees' % (n // 63))


def run_via_case(R, seed, i, cidx):
    """one operator of Subset / SubsetGroup objects on existing states: the object it returns against the translated Subset.__and__ ... (model tag 7)"""
    W = new_world(seed, 'via_direct', i, minsize=8, nmasks=3)
    rng = case_rng(seed, 'via_direct', i, 'ops')
    d = W.d
    how = VIA[i % 3]
    op = ['and', 'or', 'xor', 'not'][(i // 3) % 4]
    if how == 'group-state' and op == 'not':
        how = 'group'
    nl = len(W.leaves)
    a = random_spec2(rng, nl, rng.choice([0, 0, 1, 2]), False)
    b = random_spec2(rng, nl, rng.choice([0, 0, 1, 2]), False)
    spec = ('via', how, op, a) if op == 'not' else ('via', how, op, a, b)
    desc = {'stream': 'via_direct', 'seed': seed, 'i': i, 'spec': spec_json(spec), 'parts': W.leaf_kinds, 'shape': list(d.shape)}
    res = {'oracle': [], 'line': None, 'corr': [], 'desc': desc}
    try:
        lm = {k: np.array(W.leaves[k].to_mask(d), copy=True) for k in spec_leaves(spec)}
    except Exception:
        res['skip'] = True
        return res
    lm['shape'] = d.shape
    # operands first (existing objects with identities), then the operator
    ids = Ids()
    from glue.core.subset import Subset
    from glue.core.subset_group import SubsetGroup
    try:
        oa = build(a, W.leaves)
        ob = build(b, W.leaves) if op != 'not' else None
        wa = wire_c(a, oa, ids, cidx)
        wb = wire_c(b, ob, ids, cidx) if ob is not None else None
    except NewMismatch as e:
        res['corr'].append('structure of an operand: %s' % e)
        return res
    except Exception as e:
        res['oracle'].append('building an operand raised %s: %s' % (err_name(e), e))
        return res
    nxt = len(ids.m) + 1

    def holder(state, second=False):
        if how == 'group-state' and second:
            return state
        h = Subset(None) if how == 'subset' else SubsetGroup()
        h.subset_state = state
        return h
    try:
        ha = holder(oa)
        r = (~ha) if op == 'not' else OPFN[op](ha, holder(ob, True))
        root = r.subset_state
        got = d.get_mask(root)
    except Exception as e:
        res['oracle'].append('%s of %s objects / its evaluation raised %s: %s' % (op, how, err_name(e), e))
        return res
    if how == 'subset' and (not isinstance(r, Subset) or r is ha):
        res['oracle'].append('the operator of Subset objects did not return a new Subset')
    exp = np_eval(spec, lm)
    if not isinstance(got, np.ndarray) or got.shape != d.shape or got.dtype != bool or not np.array_equal(got, exp):
        res['oracle'].append('%s of %s objects: mask %s, Boolean combination of the parts %s' % (op, how, np.asarray(got).astype(int).ravel().tolist(), exp.astype(int).ravel().tolist()))
    if ha.subset_state is not oa or not np.array_equal(oa.to_mask(d), np_eval(a, lm)):
        res['oracle'].append('the operator altered its first operand')
    cr = canon_real(tree_of(root), ids, {}, d, [])
    res['line'] = enc((7, [0 if how == 'subset' else 1, {'and': 1, 'or': 2, 'xor': 3, 'not': 4}[op], wa, (0, [wb] if wb is not None else []), nxt]))
    res['impl'] = (cr, nxt)
    return res


def stream_via_direct(R, cidx):
    n = R.pick(120, 1200)
    items = []
    for i in range(n):
        clear_all_caches()
        try:
            items.append(run_via_case(R, R.seed, i, cidx))
        except Exception as e:
            items.append({'oracle': ['running the case raised %s: %s' % (err_name(e), e)], 'line': None, 'desc': {'stream': 'via_direct', 'seed': R.seed, 'i': i}})
    lines = [r['line'] for r in items if r.get('line')]
    outs = iter(R.model(lines)) if (lines and R.model_available) else iter([])
    for res in items:
        desc = res['desc']
        if res.get('skip'):
            R.count(('via-skip', desc['i']), nontrivial=False, stream='via_direct', outcome='skipped')
            continue
        R.count(('via_direct', R.seed, desc['i'], repr(desc.get('spec'))), nontrivial=True, stream='via_direct', outcome='oracle-fail' if res['oracle'] else 'ok')
        if res['oracle']:
            R.fail('oracle', desc, res['oracle'][:4])
        if res.get('corr'):
            R.fail('correspondence', desc, res['corr'][:3])
        if res.get('line') and R.model_available:
            out = next(outs)
            if is_err(out):
                R.fail('correspondence', desc, 'model rejected the case / the translated operator raises: %r' % (out,))
                continue
            cr, nxt = res['impl']
            cm = canon_model(kids(out)[0], nxt, {}, [])
            if cm != cr:
                R.fail('correspondence', desc, {'model': repr(cm), 'impl': repr(cr)})
    R.stream('via_direct', cases=len(items), exhaustive=False,
             bound='every operator (and/or/xor/not) of Subset objects (-> _combine), SubsetGroup objects, SubsetGroup with a state, on trees of depth <= 2: '
                   'the returned object against the translated source (model tag 7), its mask against the Boolean combination of the parts')


def combine_tree_world(seed, i):
    nd = case_rng(seed, 'combine', i, 'nd').choice([1, 2, 2, 3])
    return new_world(seed, 'combine', i, ndim=nd, minsize=12, nmasks=8, dense=(i % 3 == 0))


def stream_combine(R, cidx):
    """trees that use the other public entry points (combine_multiple, Subset / SubsetGroup operators, wide MultiOrStates) anywhere, with request histories"""
    n = R.pick(260, 2600)
    cases = []
    for i in range(n):
        W = combine_tree_world(R.seed, i)
        rng = case_rng(R.seed, 'combine', i, 'tree')
        spec = random_spec2(rng, len(W.leaves), rng.choice([1, 1, 2, 2, 3]))
        used = sorted(spec_leaves(spec)) or [0]
        reqs = random_requests(rng, spec, used, len(W.views), rng.randint(2, 6))
        cases.append((W, spec, reqs))
    for k in range(0, len(cases), 200):
        process_cases(R, cases[k:k + 200], cidx, 'combine')
    R.stream('combine', cases=len(cases), exhaustive=False,
             bound='random trees to depth 3 whose nodes are also combine_multiple (0-20 operands at the root, 0-7 below), the operators of Subset / SubsetGroup objects '
                   '(Subset.__and__ -> _combine, SubsetGroup.__and__ with a group or a state), MultiOrState with 7-12 children; 2-6 requests; expected structure = the left fold')


# ---- edit modes on real subset groups
def tree_of(real):
    """real state object -> generic tree (kind, obj, kids) by duck typing"""
    name = type(real).__name__
    if name in ('AndState', 'OrState', 'XorState'):
        return (name, real, [tree_of(real.state1), tree_of(real.state2)])
    if name == 'InvertState':
        return (name, real, [tree_of(real.state1)])
    if name == 'MultiOrState':
        return (name, real, [tree_of(c) for c in real.states])
    return ('leaf', real, [])


def canon_real(t, ids, fresh, d, out_leaves):
    kind, obj, ks = t
    if ids.known(obj):
        i = ids(obj)
    else:
        i = fresh.setdefault(id(obj), ('new', len(fresh)))
    if kind == 'leaf':
        out_leaves.append(obj)
        return ('leaf', i)
    return (kind, i, tuple(canon_real(k, ids, fresh, d, out_leaves) for k in ks))


def canon_model(t, nxt, fresh, out_leaves):
    tg = tag(t)
    ks = kids(t)
    i = ks[0][0]
    if i >= nxt:
        i = fresh.setdefault(i, ('new', len(fresh)))
    if tg == 10:
        out_leaves.append(ks[1][0])
        return ('leaf', i)
    if tg == 11:
        name = {1: 'AndState', 2: 'OrState', 3: 'XorState'}[ks[1][0]]
        return (name, i, (canon_model(ks[2], nxt, fresh, out_leaves), canon_model(ks[3], nxt, fresh, out_leaves)))
    if tg == 12:
        return ('InvertState', i, (canon_model(ks[1], nxt, fresh, out_leaves),))
    return ('MultiOrState', i, tuple(canon_model(k, nxt, fresh, out_leaves) for k in ks[1:]))


def mode_np(m, old, new):
    if m in ('replace', 'new'):
        return new
    if m == 'and':
        return np.logical_and(new, old)
    if m == 'or':
        return np.logical_or(new, old)
    if m == 'xor':
        return np.logical_xor(new, old)
    return np.logical_and(old, np.logical_not(new))


def run_edit_case(R, seed, i, cidx, explicit=None, flavour=0):
    """flavour 1: the operands are built through combine_multiple / Subset and SubsetGroup operators / wide MultiOrStates as well"""
    from glue.core import DataCollection
    from glue.core import edit_subset_mode as E
    modefn = {'replace': E.ReplaceMode, 'and': E.AndMode, 'or': E.OrMode, 'xor': E.XorMode, 'andnot': E.AndNotMode, 'new': E.NewMode}
    if flavour:
        W = new_world(seed, 'edit', i, minsize=10, nmasks=6, dense=(i % 3 == 0))
        random_spec = random_spec2
    else:
        W = new_world(seed, 'edit', i)
        random_spec = globals()['random_spec']
    res = {'oracle': [], 'line': None, 'corr': []}
    if not W.leaves:
        res['skip'] = 'no parts'
        return res, W, None
    rng = case_rng(seed, 'edit', i, 'ops')
    d = W.d
    others = [make_data(case_rng(seed, 'edit', i, 'd2'), label='e')] if rng.random() < 0.4 else []
    dc = DataCollection([d] + others)
    nl = len(W.leaves)
    if explicit is None:
        spec0 = random_spec(rng, nl, rng.choice([0, 1, 2])) if rng.random() < 0.8 else None
        ops = [(rng.choice(MODES if k else MODES[:5]) if rng.random() < 0.9 else 'new', random_spec(rng, nl, rng.choice([0, 0, 1, 2])))
               for k in range(rng.randint(1, 7))]
        two_groups = rng.random() < 0.2 and spec0 is not None
    else:
        spec0 = spec_from_json(explicit['spec0']) if explicit['spec0'] is not None else None
        ops = [(m, spec_from_json(s)) for m, s in explicit['ops']]
        two_groups = explicit['two_groups']
    desc = {'stream': 'edit', 'seed': seed, 'i': i, 'spec0': spec_json(spec0) if spec0 else None,
            'ops': [[m, spec_json(s)] for m, s in ops], 'two_groups': two_groups, 'parts': W.leaf_kinds, 'shape': list(d.shape)}
    if flavour:
        desc['flavour'] = flavour
    nomodel = False
    # masks of the parts (full view only)
    lm = {}
    try:
        for n, s in enumerate(W.leaves):
            m = s.to_mask(d)
            if not isinstance(m, np.ndarray) or m.dtype != bool:
                raise TypeError
            lm[n] = np.array(m, copy=True)
    except Exception:
        res['skip'] = 'a part cannot be evaluated'
        return res, W, desc
    snaps = [snap(s) for s in W.leaves]
    ids = Ids()
    esm = E.EditSubsetMode()
    esm.data_collection = dc
    groups = []
    wire_s0 = None
    if spec0 is not None:
        s0 = build(spec0, W.leaves)
        g = dc.new_subset_group(subset_state=s0)
        groups.append(g)
        esm.edit_subset = [g] + ([dc.new_subset_group(subset_state=s0.copy())] if two_groups else [])
        try:
            wire_s0 = wire_c(spec0, s0, ids, cidx)
        except NewMismatch as e:
            res['corr'].append('structure of the initial selection built through combine_multiple / Subset operators: %s' % e)
            nomodel = True
        cur_mask = np_eval(spec0, lm)
    else:
        cur_mask = None
    wire_ops = []
    model_ops = []
    old_group_masks = []
    for (m, snew) in ops:
        new_state = build(snew, W.leaves)
        try:
            wnew = None if nomodel else wire_c(snew, new_state, ids, cidx)
        except NewMismatch as e:
            res['corr'].append('structure of a new selection built through combine_multiple / Subset operators: %s' % e)
            nomodel = True
            wnew = None
        before_groups = list(dc.subset_groups)
        esm.mode = modefn[m]
        try:
            esm.update(dc, new_state)
        except Exception as e:
            res['oracle'].append('EditSubsetMode.update(%s) raised %s: %s' % (m, err_name(e), e))
            return res, W, desc
        eff = m
        if cur_mask is None or m == 'new':
            eff = 'new'
        new_mask = np_eval(snew, lm)
        if eff == 'new':
            # the previously edited group keeps its selection
            for g0 in before_groups:
                old_group_masks.append((g0, g0.subsets[0].to_mask().copy()))
        cur_mask = mode_mask_np = mode_np(eff, cur_mask, new_mask)
        model_ops.append((0, [MODES.index(eff), wnew]))
        es = esm.edit_subset
        if not es:
            res['oracle'].append('no edit subset after update(%s)' % m)
            return res, W, desc
        for g in es:
            try:
                got = g.subsets[0].to_mask()
                got2 = d.get_mask(g.subset_state)
            except Exception as e:
                res['oracle'].append('evaluating the edited subset after %s raised %s: %s' % (m, err_name(e), e))
                return res, W, desc
            if got.shape != d.shape or not np.array_equal(got, cur_mask) or not np.array_equal(got2, cur_mask):
                res['oracle'].append('after mode %s: subset mask %s, expected %s' % (m, got.astype(int).ravel().tolist(), cur_mask.astype(int).ravel().tolist()))
            if others:
                try:
                    g.subsets[1].to_mask()
                except Exception:
                    pass   # attributes of d are not defined on the other dataset
    for g0, m0 in old_group_masks:
        if g0 not in esm.edit_subset and not np.array_equal(g0.subsets[0].to_mask(), m0):
            res['oracle'].append('a subset group that is not being edited changed its selection')
    for n, s in enumerate(W.leaves):
        if snap(s) != snaps[n] or not np.array_equal(s.to_mask(d), lm[n]):
            res['oracle'].append('part %d (%s) was altered by the edit modes' % (n, W.leaf_kinds[n]))
    # model: final state object of the (first) edit subset
    final = esm.edit_subset[0].subset_state
    nxt = len(ids.m) + 1
    if wire_s0 is None:
        # the first op created the group: start the model from a dummy empty selection that is replaced
        wire_s0 = (10, [nxt, cidx['SubsetState'], 0])
        nxt += 1
    fresh = {}
    leaves_real = []
    cr = canon_real(tree_of(final), ids, fresh, d, leaves_real)
    lmt = (0, [(0, [n, 0, 0, bits(m)]) for n, m in sorted(lm.items())] + [(0, [EMPTY_LEAF, 0, 0, bits(np.zeros(d.shape, dtype=bool))])])
    if not nomodel:
        res['line'] = enc((3, [lmt, 0, 0, wire_s0, (0, model_ops), nxt]))
    res['impl'] = {'tree': cr, 'mask': cur_mask.astype(int).ravel().tolist(),
                   'leaf_masks': [np.asarray(l.to_mask(d)).astype(int).ravel().tolist() for l in leaves_real], 'nxt': nxt}
    res['lm'] = {n: m.astype(int).ravel().tolist() for n, m in lm.items()}
    res['lm'][EMPTY_LEAF] = [0] * d.size
    res['nops'] = len(ops)
    return res, W, desc


def stream_edit(R, cidx):
    n = R.pick(700, 6000)
    n2 = R.pick(160, 1500)
    items = []
    for i in list(range(n)) + list(range(1000000, 1000000 + n2)):
        clear_all_caches()
        try:
            res, W, desc = run_edit_case(R, R.seed, i, cidx, flavour=1 if i >= 1000000 else 0)
        except Mismatch as e:
            res, W, desc = {'oracle': ['structure: %s' % e], 'line': None}, None, {'stream': 'edit', 'seed': R.seed, 'i': i}
        except Exception as e:
            res, W, desc = {'oracle': ['running the case raised %s: %s' % (err_name(e), e)], 'line': None}, None, {'stream': 'edit', 'seed': R.seed, 'i': i}
        items.append((res, W, desc))
    lines = [r['line'] for r, _, _ in items if r.get('line')]
    outs = iter(R.model(lines)) if (lines and R.model_available) else iter([])
    for res, W, desc in items:
        if res.get('skip'):
            R.count(('edit-skip', desc and desc['i']), nontrivial=False, stream='edit', outcome='skipped')
            continue
        R.count(('edit', R.seed, desc['i'], repr(desc.get('ops')), repr(desc.get('spec0'))), nontrivial=True, stream='edit', edit_ops=res.get('nops', 0),
                outcome='oracle-fail' if res['oracle'] else 'ok')
        for m, _ in desc.get('ops', []):
            R.hist['edit_mode'][m] += 1
        if res['oracle']:
            R.fail('oracle', desc, res['oracle'][:4])
        if res.get('corr'):
            R.fail('correspondence', desc, res['corr'][:3])
        if res.get('line') and R.model_available:
            out = next(outs)
            bad = compare_edit(res, out)
            if bad:
                R.fail('correspondence', desc, bad)
    R.sample({'edit case': {'spec0': ['leaf', 0], 'ops': [['and', ['leaf', 1]], ['andnot', ['or', ['leaf', 0], ['leaf', 2]]], ['new', ['leaf', 1]], ['xor', ['leaf', 2]]]}})
    R.stream('edit', cases=len(items), exhaustive=False,
             bound='1-7 mode applications (replace/and/or/xor/and-not/new) through EditSubsetMode.update on a DataCollection of 1-2 datasets, operands are trees of depth <= 2; '
                   '%d of the cases build the operands through combine_multiple (0-20 operands) / Subset and SubsetGroup operators / MultiOrState of 7-12 children as well' % n2)


def compare_edit(res, out):
    if is_err(out) or tag(out) != 1:
        return ['model rejected the case: %r' % (out,)]
    t, m1, m2 = kids(out)
    fresh = {}
    leaves_m = []
    cm = canon_model(t, res['impl']['nxt'], fresh, leaves_m)
    bad = []
    if to_zs(m1) != res['impl']['mask'] or to_zs(m2) != res['impl']['mask']:
        bad.append('mask of the final selection: model %s / %s, implementation %s' % (to_zs(m1), to_zs(m2), res['impl']['mask']))
    if cm != res['impl']['tree']:
        bad.append('final state object: model %r, implementation %r' % (cm, res['impl']['tree']))
    else:
        for n, got in zip(leaves_m, res['impl']['leaf_masks']):
            if res['lm'].get(n, [0] * len(got) if n == 0 and n not in res['lm'] else None) != got:
                bad.append('a part of the final selection evaluates to %s, the model says it is part %d = %s' % (got, n, res['lm'].get(n)))
                break
    return bad[:3]


def stream_copy(R, cidx):
    n = R.pick(400, 4000)
    n2 = R.pick(80, 800)
    lines, metas = [], []
    for i in list(range(n)) + list(range(1000000, 1000000 + n2)):
        W = new_world(R.seed, 'copy', i)
        if not W.leaves:
            continue
        rng = case_rng(R.seed, 'copy', i, 'tree')
        if i >= 1000000:
            spec = random_spec2(rng, len(W.leaves), rng.choice([1, 2, 3]))
        else:
            spec = random_spec(rng, len(W.leaves), rng.choice([0, 1, 2, 3, 4]))
        desc = {'stream': 'copy', 'seed': R.seed, 'i': i, 'spec': spec_json(spec), 'parts': W.leaf_kinds}
        d = W.d
        clear_all_caches()
        try:
            masks = {k: np.array(W.leaves[k].to_mask(d), copy=True) for k in spec_leaves(spec)}
        except Exception:
            continue
        snaps = [snap(s) for s in W.leaves]
        try:
            root = build(spec, W.leaves)
            ids = Ids()
            try:
                w = wire_c(spec, root, ids, cidx)
            except NewMismatch as e:
                R.fail('correspondence', desc, 'structure of the selection built through combine_multiple / Subset operators: %s' % e)
                w = None
            before = root.to_mask(d).copy() if rng.random() < 0.5 else None
            snap_root = snap(root)
        except Exception as e:
            R.fail('oracle', desc, 'building / evaluating the selection raised %s: %s' % (err_name(e), e))
            continue
        try:
            cp = root.copy()
            got = cp.to_mask(d)
            again = root.to_mask(d)
        except Exception as e:
            R.fail('oracle', desc, 'copy()/evaluation raised %s: %s' % (err_name(e), e))
            continue
        masks['shape'] = d.shape
        exp = np_eval(spec, masks)
        bad = []
        if got.shape != d.shape or not np.array_equal(got, exp):
            bad.append('mask of the copy %s, Boolean combination of the parts %s' % (got.astype(int).ravel().tolist(), exp.astype(int).ravel().tolist()))
        if not np.array_equal(again, exp) or (before is not None and not np.array_equal(before, exp)):
            bad.append('mask of the original changed after copy()')
        if snap(root) != snap_root or any(snap(s) != snaps[k] for k, s in enumerate(W.leaves)):
            bad.append('copy() altered the original or its parts')
        if cp is root:
            bad.append('copy() returned the same object')
        R.count(('copy', R.seed, i, repr(spec_json(spec)), tuple(W.leaf_kinds)), nontrivial=spec[0] not in ('leaf', 'empty'), stream='copy', depth=spec_depth(spec))
        if bad:
            R.fail('oracle', desc, bad)
        if w is None:
            continue
        nxt = len(ids.m) + 1
        fresh = {}
        lv = []
        cr = canon_real(tree_of(cp), ids, fresh, d, lv)
        lines.append(enc((4, [w, nxt])))
        metas.append((desc, cr, nxt))
    if R.model_available and lines:
        for (desc, cr, nxt), out in zip(metas, R.model(lines)):
            if is_err(out):
                R.fail('correspondence', desc, 'model rejected the case')
                continue
            cm = canon_model(kids(out)[0], nxt, {}, [])
            if cm != cr:
                R.fail('correspondence', desc, {'model': repr(cm), 'impl': repr(cr)})
    R.stream('copy', cases=len(lines), exhaustive=False, bound='copy() of random trees to depth 4: sharing pattern of the copy (which objects are new, which are shared) and masks')


def stream_malformed(R, cidx):
    from glue.core.subset import MultiOrState, InequalitySubsetState
    cases = 0
    try:
        MultiOrState([])
        impl = 'ok'
    except ValueError:
        impl = 'ValueError'
    except Exception as e:
        impl = err_name(e)
    cases += 1
    R.count(('malformed', 'empty multi-or'), nontrivial=False, stream='malformed')
    if impl != 'ValueError':
        R.fail('oracle', {'stream': 'malformed', 'what': 'MultiOrState([])'}, 'expected ValueError, got %s' % impl)
    if R.model_available:
        lines = [enc((2, [(0, []), (0, [(0, [0, 0, 1, 0, (13, [1, cidx['MultiOrState']])])])])),        # n-ary or without children
                 enc((2, [(0, []), (0, [(0, [0, 0, 1, 0, (11, [1, cidx['InvertState'], (10, [2, cidx['RangeSubsetState'], 0]), (10, [3, cidx['RangeSubsetState'], 0])])])])])),
                 enc((2, [(0, []), (0, [(0, [0, 0, 1, 0, (12, [1, cidx['AndState'], (10, [2, cidx['RangeSubsetState'], 0])])])])])),
                 enc((2, [(0, []), (0, [(0, [0, 0, 1, 0, (10, [1, cidx['AndState'], 0])])])])),
                 enc((9, []))]
        for ln, o in zip(lines, R.model(lines)):
            cases += 1
            R.count(('malformed', ln), nontrivial=False, stream='malformed')
            if not is_err(o):
                R.fail('correspondence', {'stream': 'malformed', 'line': ln}, 'model accepted a malformed state object')
    try:
        InequalitySubsetState(1, 2, operator.add)
        R.fail('oracle', {'stream': 'malformed', 'what': 'InequalitySubsetState with operator.add'}, 'accepted')
    except TypeError:
        pass
    R.stream('malformed', cases=cases, exhaustive=True, bound='n-ary or without children, composite class on the wrong arity, unknown entry point')


def run(R):
    R.rule = ('a case = (dataset, parts, expression tree, history of evaluation requests) or (dataset, parts, initial selection, edit-mode sequence) '
              'or (tree, copy); non-trivial when the tree has at least one operator; distinct = distinct (seed-independent description of tree, '
              'part kinds, shape, requests)')
    cidx = class_index()
    stream_class_table(R, cidx)
    stream_malformed(R, cidx)
    stream_exhaustive(R, cidx)
    stream_random(R, cidx)
    stream_containers(R, cidx)
    stream_combine_direct(R, cidx)
    stream_via_direct(R, cidx)
    stream_combine(R, cidx)
    stream_edit(R, cidx)
    stream_copy(R, cidx)
    clear_all_caches()


def replay(R, case):
    cidx = class_index()
    st = case.get('stream')
    out = {'case': case}
    clear_all_caches()
    if st == 'combine_direct':
        try:
            res, W, desc = run_combine_case(R, case['seed'], case['i'], cidx, explicit=case if 'operands' in case else None)
        except Exception as e:
            res = {'oracle': ['running the case raised %s: %s' % (err_name(e), e)]}
        out['oracle'] = res['oracle']
        if res.get('line') and R.model_available:
            out['correspondence'] = compare_edit(res, R.model([res['line']])[0])
        out['violates'] = bool(res['oracle'])
    elif st in ('random', 'exhaustive', 'containers', 'combine'):
        if st == 'exhaustive':
            W = new_world(0, 'exhaustive', 0, ndim=2, kinds=['Inequality', 'Range', 'RoiPixel'])
        elif st == 'combine':
            W = combine_tree_world(case['seed'], case['i'])
        else:
            nd = case_rng(case['seed'], 'containers', case['i'], 'tree').choice([1, 2, 2, 2, 3]) if st == 'containers' else None
            W = new_world(case['seed'], st, case['i'], ndim=nd)
        spec = spec_from_json(case['spec'])
        reqs = [(tuple(t), vi, form, via) for t, vi, form, via in case['requests']]
        try:
            res = run_tree_case(R, W, spec, reqs, cidx)
        except Exception as e:
            res = {'oracle': ['running the case raised %s: %s' % (err_name(e), e)]}
        out['oracle'] = res['oracle']
        out['implementation'] = res.get('impl')
        if res.get('line') and R.model_available:
            m = R.model([res['line']])[0]
            out['correspondence'] = compare_model(res, m)
        out['violates'] = bool(res['oracle'])
    elif st == 'edit':
        try:
            res, W, desc = run_edit_case(R, case['seed'], case['i'], cidx, explicit=case if 'ops' in case else None, flavour=case.get('flavour', 0))
        except Exception as e:
            res = {'oracle': ['running the case raised %s: %s' % (err_name(e), e)]}
        out['oracle'] = res['oracle']
        if res.get('line') and R.model_available:
            out['correspondence'] = compare_edit(res, R.model([res['line']])[0])
        out['violates'] = bool(res['oracle'])
    else:
        out['note'] = 'replay by re-running the stream: ./check C01 --tier quick (VERIF_SEED=%s)' % case.get('seed')
        out['violates'] = False
    return out
