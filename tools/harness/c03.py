"""C03 — linked attributes are reachable exactly through links and carry composed values.

Streams
  discover   glue.core.link_manager.discover_links called directly with the links in a *list* (so the enumeration
             order is the one the model sees): exact comparison of the returned dict (keys in insertion order, chosen
             link per key); oracle = independent fixpoint (reachable set, minimum depth, well-foundedness, order
             irrelevance under a shuffle).  exhaustive small scope + random.
  graphs     every set of <= k links out of a fixed pool over three datasets, added one by one, then one removed
  histories  exhaustive (all op sequences up to a length over a small alphabet) and random histories of
             add/remove link, set_links, add/remove component, add/remove dataset, coords=None, delay blocks on a
             real DataCollection; after every step every dataset is observed (externally_derivable_components, chain
             length, data[cid] for every cid, mask of an InequalitySubsetState, dc.external_links).
"""
import itertools
import operator
import signal
import time
from contextlib import contextmanager

import numpy as np

from harness.common import enc, to_zs, kids, tag, is_err

PROP = 'C03'
GENERATORS = ['gen_links']
TRUSTED = [
    'hand model coq/C03/Model.v of discover_links, Data.get_data/ComponentLink.compute through the table, and of the '
    'DataCollection/LinkManager triggers (which operation recomputes the tables); tied to the code by the correspondence streams only',
    'link functions are integer-affine maps in the model; the generators only build such functions (numpy evaluates them exactly)',
    'the order in which the code enumerates links inside update_externally_derivable_components is a Python set order (not modelled): '
    'theorem discover_order_irrelevant shows domain and depths do not depend on it; values are compared exactly only where every '
    'shortest derivation gives the same value, otherwise membership in the set of shortest-derivation values is checked',
    'hub delivery (glue.core.hub) and numpy are the platform',
]
ASSUMPTIONS = [
    'datasets are 1-d glue.core.Data objects, coordinates are None or 1-d AffineCoordinates with slope +-1 (integer-affine both ways)',
    'no key joins (JoinLink); internal derived components are single-level (y = c0 + sum ci*xi over main/coordinate attributes of the '
    'same dataset, never over other derived ones); coordinate components are not removed one by one',
    'links are added over attributes that are components of datasets currently in the collection when the liveness oracle applies '
    '(histories that add links over other attributes are compared with the model only)',
    'pixel_aligned_data bookkeeping of update_externally_derivable_components is not covered',
    'selections are evaluated on a fresh InequalitySubsetState object and on one persistent object per history (the latter must '
    'agree with the former: memoised masks have to be invalidated by link / component changes)',
]



# ====================================================================== helpers
class Hang(Exception):
    pass


HANGS = [0]


def too_many_hangs():
    if HANGS[0] >= 3:
        raise RuntimeError('the implementation did not return within the time limit %d times; aborting the search '
                           '(the failures recorded so far are reported)' % HANGS[0])


@contextmanager
def time_limit(seconds):
    """turn a non-terminating call of the implementation into an exception (reported by the oracle)"""
    def handler(signum, frame):
        HANGS[0] += 1
        raise Hang('no result after %s s' % seconds)
    try:
        old = signal.signal(signal.SIGALRM, handler)
    except ValueError:      # not in the main thread
        yield
        return
    signal.setitimer(signal.ITIMER_REAL, seconds)
    try:
        yield
    finally:
        signal.setitimer(signal.ITIMER_REAL, 0)
        signal.signal(signal.SIGALRM, old)


def mkfn(spec):
    c0, coefs = spec
    coefs = tuple(coefs)

    def f(*xs):
        r = c0
        for c, x in zip(coefs, xs):
            r = r + c * x
        return r
    return f


def apply_spec(spec, vecs):
    """affine function on tuples of ints (the oracle's own arithmetic)"""
    c0, coefs = spec
    n = len(vecs[0]) if vecs else 0
    return tuple(c0 + sum(c * v[i] for c, v in zip(coefs, vecs)) for i in range(n))


ID_FN = (0, (1,))


def der3(v):
    """definition of an internal derived attribute: (inputs, fn, inverse fn or None).  Round 5: a derived attribute's link
    may declare its inverse (ComponentLink(..., inverse=...)); older cases carry pairs."""
    return (v[0], v[1], v[2] if len(v) > 2 else None)


def tup(x):
    if isinstance(x, (list, tuple)):
        return tuple(tup(y) for y in x)
    return x


def norm_case(case):
    """make a case loaded from JSON look like a generated one (tuples for cids, int keys)"""
    c = dict(case)
    c['datasets'] = [dict(d, main=list(d['main']), derived=list(d.get('derived', [])),
                          coords=(None if d['coords'] is None else tuple(d['coords']))) for d in case['datasets']]
    ders = case.get('ders', {})
    if not isinstance(ders, dict):
        ders = {tuple(x[0]): ((tup(x[1]), tup(x[2])) if len(x) < 4 or x[3] is None else (tup(x[1]), tup(x[2]), tup(x[3]))) for x in ders}
    c['ders'] = ders
    if isinstance(case['vals'], dict):
        vals = {}
        for k, v in case['vals'].items():
            if isinstance(k, str):
                k = tuple(int(x) for x in k.strip('()[] ').replace(' ', '').split(','))
            vals[tuple(k)] = tuple(v)
    else:
        vals = {tuple(k): tuple(v) for k, v in case['vals']}
    c['vals'] = vals
    pool = []
    for e in case['pool']:
        e = dict(e)
        for key in ('from', 'to', 'c1', 'c2', 'fn', 'inv', 'f', 'g', 'cids1', 'cids2', 'offsets', 'matrix', 'subs'):
            if key in e and e[key] is not None:
                e[key] = tup(e[key])
        pool.append(e)
    c['pool'] = pool
    c['ops'] = [tup(o) for o in case['ops']]
    c['sel'] = (tuple(case['sel'][0]), case['sel'][1])
    return c


def case_json(case):
    c = dict(case)
    c['vals'] = [[list(k), list(v)] for k, v in sorted(case['vals'].items())]
    c['ders'] = [[list(k)] + list(der3(v)) for k, v in sorted(case.get('ders', {}).items())]
    return c


# ---------------------------------------------------------------------- link specs shared by model encoder and oracle
def entry_sublinks(pool, i):
    """[(from cids, to cid, fn spec, inverse fn spec or None)] of pool entry i"""
    e = pool[i]
    k = e['kind']
    if k == 'single':
        fn = e['fn'] if e['fn'] is not None else ID_FN
        inv = e['inv'] if e['fn'] is not None else ID_FN
        return [(tuple(e['from']), e['to'], fn, inv)]
    if k == 'same':
        return [((e['c1'],), e['c2'], ID_FN, ID_FN)]
    if k == 'twoway':
        return [((e['c1'],), e['c2'], e['f'], None), ((e['c2'],), e['c1'], e['g'], None)]
    if k == 'invof':
        (fr, to, fn, inv), = entry_sublinks(pool, e['of'])
        return [((to,), fr[0], inv, fn)]
    # ---- link-helper collections: the set of their member links, added / removed together
    if k == 'aligned':          # LinkAligned(data1, data2): identity links between the pixel axes; cids1 = cids2 = []
        return [(((e['d1'], 0),), (e['d2'], 0), ID_FN, ID_FN)]
    if k == 'units':            # LinkSameWithUnits (a LinkTwoWay whose functions are methods; same / no units)
        return [((e['c1'],), e['c2'], ID_FN, None), ((e['c2'],), e['c1'], ID_FN, None)]
    if k == 'offset':           # OffsetLink: cids2[i] = cids1[i] - offsets[i] (every member link takes all of cids1)
        n = len(e['cids1'])
        unit = lambda i: tuple(1 if j == i else 0 for j in range(n))
        return ([(tuple(e['cids1']), e['cids2'][i], (-e['offsets'][i], unit(i)), None) for i in range(n)] +
                [(tuple(e['cids2']), e['cids1'][i], (e['offsets'][i], unit(i)), None) for i in range(n)])
    if k == 'affine':           # AffineLink: cids2 = A cids1 + t, and back with the (integer) inverse
        n = len(e['cids1'])
        fw, bw = e['matrix'], affine_inverse(e['matrix'])
        return ([(tuple(e['cids1']), e['cids2'][i], (fw[i][n], tuple(fw[i][:n])), None) for i in range(n)] +
                [(tuple(e['cids2']), e['cids1'][i], (bw[i][n], tuple(bw[i][:n])), None) for i in range(n)])
    if k == 'manual':           # a LinkCollection holding arbitrary ComponentLinks, cids1 = cids2 = []
        return [(tuple(fr), to, fn, inv) for fr, to, fn, inv in e['subs']]
    raise ValueError(k)


COLLECTION_KINDS = ('same', 'twoway', 'aligned', 'units', 'offset', 'affine', 'manual')


def affine_inverse(rows):
    """rows of [A | t] (integers, det +-1) -> rows of [A^-1 | -A^-1 t] as integers"""
    n = len(rows)
    m = np.eye(n + 1)
    m[:n, :] = np.array(rows, dtype=float)
    inv = np.linalg.inv(m)
    out = np.rint(inv[:n, :]).astype(int)
    assert np.allclose(out, inv[:n, :])
    return [[int(x) for x in r] for r in out]


def entry_flat_links(pool, i):
    """all (froms, to, fn) contributed by entry i, inverses included"""
    out = []
    for fr, to, fn, inv in entry_sublinks(pool, i):
        out.append((fr, to, fn))
        if inv is not None and len(fr) == 1:
            out.append(((to,), fr[0], inv))
    return out


def entry_inv_id(pool, i):
    e = pool[i]
    if e['kind'] == 'invof':
        return e['of']
    if e['kind'] == 'single':
        for j, o in enumerate(pool):
            if o['kind'] == 'invof' and o['of'] == i:
                return j
    return None


def coord_links(ds):
    """the two CoordinateComponentLinks of a 1-d dataset with world = a*pixel + b, a = +-1"""
    a, b = ds['coords']
    d = ds['id']
    return [(((d, 0),), (d, 1), (b, (a,))), (((d, 1),), (d, 0), (-a * b, (a,)))]


# ---------------------------------------------------------------------- wire encoding
def w_cid(c):
    return (0, [c[0], c[1]])


def w_fn(spec):
    return (0, [spec[0], (0, list(spec[1]))])


def w_link(lid, fr, to, fn):
    return (lid, [(0, [w_cid(c) for c in fr]), w_cid(to), w_fn(fn)])


def w_entry(pool, i):
    e = pool[i]
    subs = []
    for j, (fr, to, fn, inv) in enumerate(entry_sublinks(pool, i)):
        subs.append((0, [w_link(10 * i + j, fr, to, fn), ((1, [w_fn(inv)]) if inv is not None else (0, []))]))
    inv_id = entry_inv_id(pool, i)
    return (i, [(1 if e['kind'] in COLLECTION_KINDS else 0, []),
                ((1, [inv_id]) if inv_id is not None else (0, [])),
                (0, subs)])


def w_op(pool, o):
    k = o[0]
    if k == 'addlink':
        return (1, [w_entry(pool, o[1])])
    if k == 'removelink':
        return (2, [o[1]])
    if k == 'setlinks':
        return (3, [(0, [w_entry(pool, i) for i in o[1]])])
    if k == 'addcomp':
        return (4, [o[1], w_cid((o[1], o[2]))])
    if k == 'removecomp':
        return (5, [o[1], w_cid((o[1], o[2]))])
    if k == 'adddata':
        return (6, [o[1]])
    if k == 'removedata':
        return (7, [o[1]])
    if k == 'coordsnone':
        return (8, [o[1]])
    if k == 'delaybegin':
        return (9, [])
    if k == 'delayend':
        return (10, [])
    raise ValueError(k)


def w_der(case, c):
    fr, fn, inv = der3(case['ders'][c])
    return (0, [w_link(2000 + 10 * c[0] + c[1], fr, c, fn), ((1, [w_fn(inv)]) if inv is not None and len(fr) == 1 else (0, []))])


def initial_own(ds):
    own = [(ds['id'], 0)]
    if ds['coords'] is not None:
        own.append((ds['id'], 1))
    own += [(ds['id'], k) for k in ds['main']]
    return own


def w_case(case):
    dss = []
    for ds in case['datasets']:
        d = ds['id']
        coord = [(d, 0)] + ([(d, 1)] if ds['coords'] is not None else [])
        world = [(d, 1)] if ds['coords'] is not None else []
        ints = []
        if ds['coords'] is not None:
            for j, (fr, to, fn) in enumerate(coord_links(ds)):
                ints.append(w_link(1000 + 2 * d + j, fr, to, fn))
        dss.append((d, [(1 if ds['member'] else 0, []), (ds['n'], []),
                        (0, [w_cid(c) for c in initial_own(ds)]),
                        (0, [w_cid(c) for c in coord]),
                        (0, [w_cid(c) for c in world]),
                        (0, ints),
                        (0, [w_der(case, (d, k)) for k in ds.get('derived', [])])]))
    universe = sorted(case['vals'])
    vst = (0, [(0, [w_cid(c), (0, [int(v) for v in case['vals'][c]])]) for c in universe])
    sel = (0, [w_cid(case['sel'][0]), (case['sel'][1], [])])
    ops = (0, [((11, [o[1], w_der(case, (o[1], o[2]))]) if o[0] == 'addderived' else w_op(case['pool'], o)) for o in case['ops']])
    return enc((1, [(0, dss), vst, sel, ops]))


def parse_model_obs(t, universe):
    """model observation tree -> canonical python structure (same shape as Impl.observe)"""
    code = tag(kids(t)[0])
    ext = to_zs(kids(t)[1])
    dsl = {}
    for dt in kids(kids(t)[2]):
        d = tag(dt)
        k = kids(dt)
        member = tag(k[0]) != 0
        table = sorted(((tag(kids(x)[0][1][0]), tag(kids(x)[0][1][1])), tag(kids(x)[3]), tag(kids(x)[1])) for x in kids(k[1]))
        vals = {}
        for c, vt in zip(universe, kids(k[2])):
            vals[c] = tuple(to_zs(kids(vt)[0])) if tag(vt) == 1 else None
        mask = tuple(bool(x) for x in to_zs(kids(k[3])[0])) if tag(k[3]) == 1 else None
        dsl[d] = {'member': member, 'table': [(c, dep) for c, dep, _ in table], 'stored_depth': [(c, sd) for c, _, sd in table],
                  'vals': vals, 'mask': mask}
    return {'code': 0 if code == 3 else code, 'ext': ext, 'ds': dsl, 'err': tag(kids(t)[3]) != 0, 'delay': tag(kids(t)[4])}


# ====================================================================== the implementation side
class Impl:
    """one real DataCollection built from a case"""

    def __init__(self, case):
        from glue.core import Data, DataCollection, ComponentID
        from glue.core.coordinates import AffineCoordinates
        self.case = case
        self.cid = {}
        self.num = {}
        self.data = {}
        self.obj = {}
        self.delays = []
        self.ComponentID = ComponentID
        for ds in case['datasets']:
            d = ds['id']
            coords = None
            if ds['coords'] is not None:
                a, b = ds['coords']
                coords = AffineCoordinates(np.array([[float(a), float(b)], [0., 1.]]))
            D = Data(label='D%d' % d, coords=coords)
            self.data[d] = D
            for k in ds['main']:
                c = ComponentID('c%d_%d' % (d, k))
                D.add_component(np.array(case['vals'][(d, k)], dtype=np.int64), c)
                self._reg((d, k), c)
            self._reg((d, 0), D.pixel_component_ids[0])
            if coords is not None:
                self._reg((d, 1), D.world_component_ids[0])
            for k in ds.get('derived', []):
                self.add_derived(d, k)
        with time_limit(10):
            self.dc = DataCollection([self.data[ds['id']] for ds in case['datasets'] if ds['member']])
        for i, e in enumerate(case['pool']):
            if e['kind'] == 'units':      # reads the components' units when it is built: built while they exist
                self.entry(i)
        self.universe = sorted(case['vals'])
        self.persistent = None
        self.pcache = {}
        self.unexpected = None

    def _reg(self, key, c):
        self.cid[key] = c
        self.num[c] = key

    def add_derived(self, d, k):
        """internal derived component (d,k) = fn(own attributes), through Data.add_component_link; skipped when it is
        already a component or an input is not a main/coordinate component (the model's result code 3)"""
        from glue.core.component_link import ComponentLink
        D = self.data[d]
        fr, fn, inv = der3(self.case['ders'][(d, k)])
        c = self.getcid((d, k))
        base = D.main_components + D.coordinate_components
        if c in D.components or not all(self.getcid(f) in base for f in fr):
            return
        D.add_component_link(ComponentLink([self.getcid(f) for f in fr], c, using=mkfn(fn),
                                           inverse=(mkfn(inv) if inv is not None and len(fr) == 1 else None)))

    def getcid(self, key):
        if key not in self.cid:
            self._reg(key, self.ComponentID('c%d_%d' % key, parent=self.data[key[0]]))
        return self.cid[key]

    def entry(self, i):
        from glue.core.component_link import ComponentLink
        from glue.core.link_helpers import LinkSame, LinkTwoWay
        if i in self.obj:
            return self.obj[i]
        e = self.case['pool'][i]
        k = e['kind']
        if k == 'single':
            fr = [self.getcid(c) for c in e['from']]
            to = self.getcid(e['to'])
            if e['fn'] is None:
                o = ComponentLink(fr, to)
            else:
                o = ComponentLink(fr, to, using=mkfn(e['fn']), inverse=(mkfn(e['inv']) if e['inv'] is not None else None))
        elif k == 'same':
            o = LinkSame(self.getcid(e['c1']), self.getcid(e['c2']))
        elif k == 'twoway':
            o = LinkTwoWay(self.getcid(e['c1']), self.getcid(e['c2']), mkfn(e['f']), mkfn(e['g']))
        elif k == 'invof':
            o = self.entry(e['of']).inverse
        elif k == 'aligned':
            from glue.core.link_helpers import LinkAligned
            o = LinkAligned(self.data[e['d1']], self.data[e['d2']])
        elif k == 'units':
            from glue.core.link_helpers import LinkSameWithUnits
            o = LinkSameWithUnits(self.getcid(e['c1']), self.getcid(e['c2']))
        elif k == 'offset':
            from glue.plugins.wcs_autolinking.wcs_autolinking import OffsetLink
            o = OffsetLink(data1=self.data[e['cids1'][0][0]], data2=self.data[e['cids2'][0][0]],
                           cids1=[self.getcid(c) for c in e['cids1']], cids2=[self.getcid(c) for c in e['cids2']],
                           offsets=list(e['offsets']))
        elif k == 'affine':
            from glue.plugins.wcs_autolinking.wcs_autolinking import AffineLink
            n = len(e['cids1'])
            m = np.eye(n + 1)
            m[:n, :] = np.array(e['matrix'], dtype=float)
            o = AffineLink(data1=self.data[e['cids1'][0][0]], data2=self.data[e['cids2'][0][0]],
                           cids1=[self.getcid(c) for c in e['cids1']], cids2=[self.getcid(c) for c in e['cids2']], matrix=m)
        elif k == 'manual':
            from glue.core.link_helpers import LinkCollection
            o = LinkCollection(data1=self.data[e['d1']], data2=self.data[e['d2']])
            o._links[:] = [ComponentLink([self.getcid(c) for c in fr], self.getcid(to), using=mkfn(fn),
                                         inverse=(mkfn(inv) if inv is not None else None)) for fr, to, fn, inv in e['subs']]
        else:
            raise ValueError(k)
        self.obj[i] = o
        return o

    def entry_id(self, o):
        for i, x in self.obj.items():
            if x is o:
                return i
        return -1

    def _do(self, o):
        k = o[0]
        dc = self.dc
        if k == 'addlink':
            dc.add_link(self.entry(o[1]))
        elif k == 'removelink':
            dc.remove_link(self.entry(o[1]))
        elif k == 'setlinks':
            dc.set_links([self.entry(i) for i in o[1]])
        elif k == 'addcomp':
            D = self.data[o[1]]
            c = self.getcid((o[1], o[2]))
            if c not in D.components:
                D.add_component(np.array(self.case['vals'][(o[1], o[2])], dtype=np.int64), c)
        elif k == 'removecomp':
            self.data[o[1]].remove_component(self.getcid((o[1], o[2])))
        elif k == 'addderived':
            self.add_derived(o[1], o[2])
        elif k == 'adddata':
            dc.append(self.data[o[1]])
        elif k == 'removedata':
            dc.remove(self.data[o[1]])
        elif k == 'coordsnone':
            self.data[o[1]].coords = None
        elif k == 'delaybegin':
            cm = dc.delay_link_manager_update()
            cm.__enter__()
            self.delays.append(cm)
        elif k == 'delayend':
            if self.delays:
                self.delays.pop().__exit__(None, None, None)
        else:
            raise RuntimeError('unknown op %r' % (o,))

    def apply(self, o):
        """returns the code: 0 done, 1 AttributeError, 2 ValueError, 9 anything else (a hang included)"""
        try:
            with time_limit(10):
                self._do(o)
        except AttributeError:
            return 1
        except ValueError:
            return 2
        except Exception as ex:   # reported by the oracle
            self.unexpected = '%s: %s' % (type(ex).__name__, ex)
            return 9
        return 0

    def chain_depth(self, D, c, seen=0):
        """length of the chain actually stored in D for attribute c (0 for own components); -1 when broken"""
        if seen > 64:
            return -1
        if c in D.main_components or c in D.coordinate_components:
            return 0
        comp = D._externally_derivable_components.get(c)
        if comp is None:
            return -1
        best = 1
        for f in comp.link.get_from_ids():
            r = self.chain_depth(D, f, seen + 1)
            if r < 0:
                return -1
            best = max(best, r + 1)
        return best

    def read(self, D, c):
        from glue.core.exceptions import IncompatibleAttribute
        try:
            v = np.asarray(D[c])
        except IncompatibleAttribute:
            return None
        out = []
        for x in v.ravel().tolist():
            if x != int(x):
                return ('non-integer', tuple(v.ravel().tolist()))
            out.append(int(x))
        return tuple(out)

    def mask(self, D, state):
        from glue.core.exceptions import IncompatibleAttribute
        try:
            m = D.get_mask(state)
        except IncompatibleAttribute:
            return None
        return tuple(bool(x) for x in np.asarray(m).ravel().tolist())

    def observe(self, code):
        from glue.core.subset import InequalitySubsetState
        selc, thr = self.case['sel']
        selcid = self.getcid(selc)
        fresh = InequalitySubsetState(selcid, thr, operator.gt)
        if self.persistent is None:
            self.persistent = InequalitySubsetState(selcid, thr, operator.gt)
        ds = {}
        members = set(id(x) for x in self.dc.data)
        for d, D in self.data.items():
            table = []
            for c in D.externally_derivable_components:
                table.append((self.num.get(c, (-1, -1)), self.chain_depth(D, c)))
            vals = {c: self.read(D, self.getcid(c)) for c in self.universe}
            m = self.mask(D, fresh)
            pm = self.mask(D, self.persistent)
            if pm is not None and d not in self.pcache:
                self.pcache[d] = pm
            ds[d] = {'member': id(D) in members, 'table': sorted(table), 'vals': vals, 'mask': m, 'pmask': pm}
        ext = [self.entry_id(e) for e in self.dc.external_links]
        return {'code': code, 'ext': ext, 'ds': ds}

    def registered_ok(self):
        """objects the tables may legitimately point at: internal links of members + registered links (+ inverses)"""
        from glue.core.link_helpers import LinkCollection
        ok = set()
        for D in self.dc.data:
            for l in D.links:       # coordinate links + the links of the internal derived components (+ their inverses)
                ok.add(id(l))
                if l.inverse is not None:
                    ok.add(id(l.inverse))
        for e in self.dc.external_links:
            subs = list(e) if isinstance(e, LinkCollection) else [e]
            for l in subs:
                ok.add(id(l))
                if l.inverse is not None:
                    ok.add(id(l.inverse))
        return ok

    def dangling(self):
        """(dataset, cid) pairs whose stored link is not a currently registered one"""
        ok = self.registered_ok()
        bad = []
        for d, D in self.data.items():
            if D in self.dc.data:
                for c, comp in D._externally_derivable_components.items():
                    if id(comp.link) not in ok:
                        bad.append((d, self.num.get(c, (-1, -1))))
        return bad

    def cleanup(self):
        from glue.core.decorators import clear_cache
        from glue.core.subset import InequalitySubsetState
        clear_cache(InequalitySubsetState.to_mask)


# ====================================================================== the oracle (independent of the model)
class Abstract:
    """what the history says exists: membership, own attributes, coordinates, delay depth.  No link logic."""

    def __init__(self, case):
        self.case = case
        self.member = {ds['id']: ds['member'] for ds in case['datasets']}
        self.own = {ds['id']: set(initial_own(ds)) for ds in case['datasets']}
        self.coords = {ds['id']: ds['coords'] is not None for ds in case['datasets']}
        self.spec = {ds['id']: ds for ds in case['datasets']}
        self.der = {ds['id']: {(ds['id'], k): der3(case['ders'][(ds['id'], k)]) for k in ds.get('derived', [])} for ds in case['datasets']}
        self.delay = 0
        self.valid = True     # every link was added over live attributes

    def live(self, c):
        return self.member.get(c[0], False) and (c in self.own[c[0]] or c in self.der[c[0]])

    def remove_attr(self, d, c):
        """an attribute goes, and with it the derived attributes computed from it"""
        self.own[d].discard(c)
        self.der[d].pop(c, None)
        for y in [y for y, (fr, fn, inv) in self.der[d].items() if c in fr]:
            del self.der[d][y]

    def fixed_values(self, d):
        """the values of d's own derived attributes (components are read as components)"""
        return {y: apply_spec(fn, [tuple(self.case['vals'][f]) for f in fr]) for y, (fr, fn, inv) in self.der[d].items()}

    def entry_live(self, i):
        return all(self.live(c) for fr, to, fn in entry_flat_links(self.case['pool'], i) for c in list(fr) + [to])

    def apply(self, o):
        k = o[0]
        if k == 'addlink':
            self.valid = self.valid and self.entry_live(o[1])
        elif k == 'setlinks':
            self.valid = self.valid and all(self.entry_live(i) for i in o[1])
        elif k == 'addcomp':
            if (o[1], o[2]) not in self.der[o[1]]:
                self.own[o[1]].add((o[1], o[2]))
        elif k == 'addderived':
            c = (o[1], o[2])
            fr, fn, inv = der3(self.case['ders'][c])
            if c not in self.own[o[1]] and c not in self.der[o[1]] and all(f in self.own[o[1]] for f in fr):
                self.der[o[1]][c] = (fr, fn, inv)
        elif k == 'removecomp':
            self.remove_attr(o[1], (o[1], o[2]))
        elif k == 'adddata':
            self.member[o[1]] = True
        elif k == 'removedata':
            self.member[o[1]] = False
        elif k == 'coordsnone':
            if self.coords[o[1]]:
                self.coords[o[1]] = False
                self.remove_attr(o[1], (o[1], 1))
        elif k == 'delaybegin':
            self.delay += 1
        elif k == 'delayend':
            if self.delay > 0:
                self.delay -= 1

    def links(self, ext_ids):
        """links currently in force: coordinate links and derived-attribute links of member datasets + registered entries
        (+ the inverse of every one of them that has an inverse)"""
        out = []
        for d, ds in self.spec.items():
            if self.member[d] and self.coords[d]:
                out += coord_links(ds)
            if self.member[d]:
                # the dataset's own derived-attribute links are registered links too (DataCollection.links lists them):
                # each one, and the inverse of each one that declares an inverse
                for y, (fr, fn, inv) in sorted(self.der[d].items()):
                    out.append((tuple(fr), y, fn))
                    if inv is not None and len(fr) == 1:
                        out.append(((y,), fr[0], inv))
        for i in ext_ids:
            if i >= 0:
                out += entry_flat_links(self.case['pool'], i)
        return out


def fixpoint(own, links, ownvals=None, fixed=None):
    """breadth-first closure: min depth per attribute; with ownvals also the set of values of the
    hereditarily-shortest derivations.  Independent of the model and of discover_links."""
    depth = {c: 0 for c in own}
    values = {c: {ownvals[c]} for c in own} if ownvals is not None else None
    level = 0
    while True:
        level += 1
        new = {}
        for fr, to, fn in links:
            if to in depth:
                continue
            if all(f in depth for f in fr):
                new.setdefault(to, []).append((fr, fn))
        if not new:
            break
        for to, how in new.items():
            depth[to] = level
        if values is not None:
            for to, how in new.items():
                vs = set()
                for fr, fn in how:
                    for combo in itertools.product(*[sorted(values[f]) for f in fr]):
                        vs.add(apply_spec(fn, list(combo)))
                        if len(vs) > 64:
                            break
                values[to] = {fixed[to]} if (fixed and to in fixed) else vs
    return depth, values


def check_history(R, case, model_obs=None):
    """run one (normalised) history on the implementation; returns (impl observations, failures) where failures is a
    list of (kind, detail, key).  model_obs (parsed model observations) is compared when given."""
    impl = Impl(case)
    ab = Abstract(case)
    fails = []
    obs = []
    universe = impl.universe
    prev_ext = None
    selc, thr = case['sel']
    try:
        steps = [None] + list(case['ops'])
        for si, o in enumerate(steps):
            code = 0
            if o is not None:
                code = impl.apply(o)
                ab.apply(o)
            ob = impl.observe(code)
            obs.append(ob)
            where = {'step': si, 'op': o}
            # ---------------- oracle: the property on the implementation
            if code == 9:
                fails.append(('oracle', dict(where, why='operation raised ' + str(impl.unexpected)), None))
            if o is not None and code == 0 and prev_ext is not None:
                if o[0] == 'addlink':
                    inv = entry_inv_id(case['pool'], o[1])
                    if o[1] not in ob['ext'] and not (inv is not None and inv in ob['ext']):
                        fails.append(('oracle', dict(where, why='link not registered after add_link', ext=ob['ext']), None))
                if o[0] == 'removelink':
                    if ob['ext'].count(o[1]) != prev_ext.count(o[1]) - 1:
                        fails.append(('oracle', dict(where, why='link still registered after remove_link', ext=ob['ext']), None))
            prev_ext = list(ob['ext'])
            if ab.valid:
                for i in ob['ext']:
                    if i >= 0 and not ab.entry_live(i):
                        fails.append(('oracle', dict(where, why='registered link %d mentions a removed attribute or dataset' % i,
                                                     ext=ob['ext']), None))
                        break
            closure = {}
            if ab.delay == 0:
                links = ab.links(ob['ext'])
                dang = impl.dangling()
                if dang:
                    fails.append(('oracle', dict(where, why='stored chains use links that are not registered', at=dang[:4]), None))
                for d in sorted(ab.member):
                    if not ab.member[d]:
                        continue
                    o_d = ob['ds'][d]
                    if not o_d['member']:
                        fails.append(('oracle', dict(where, why='dataset %d not in the collection' % d), None))
                        continue
                    own = ab.own[d]
                    ownvals = {c: tuple(case['vals'][c]) for c in own}
                    depth, values = fixpoint(own, links, ownvals, ab.fixed_values(d))
                    closure[d] = (depth, values)
                    # the dataset's own derived attributes are components: whether the code also lists them as externally
                    # derivable is not part of the property (the model correspondence compares them), so they are left out
                    want_tab = sorted((c, k) for c, k in depth.items() if k > 0 and c not in ab.der[d])
                    got_tab = [(c, k) for c, k in o_d['table'] if c not in ab.der[d]]
                    if got_tab != want_tab:
                        fails.append(('oracle', dict(where, dataset=d, why='externally derivable attributes / chain lengths differ from the closure of the registered links',
                                                     impl=got_tab, expected=want_tab), None))
                    for c in universe:
                        v = o_d['vals'][c]
                        if c in depth:
                            if v is None or v not in values[c]:
                                fails.append(('oracle', dict(where, dataset=d, cid=c, why='value read is not the composition along a shortest chain',
                                                             impl=v, shortest_chain_values=sorted(values[c])[:4]), None))
                        elif v is not None:
                            fails.append(('oracle', dict(where, dataset=d, cid=c, why='attribute readable although no chain of registered links reaches it',
                                                         impl=v), None))
                    v = o_d['vals'][selc]
                    if selc in depth and v is not None and v in values[selc]:
                        want_mask = tuple(x > thr for x in v)
                        if o_d['mask'] != want_mask:
                            fails.append(('oracle', dict(where, dataset=d, why='mask of (attribute > %d) differs from the derived values' % thr,
                                                         impl=o_d['mask'], expected=want_mask), None))
                    elif selc not in depth and o_d['mask'] is not None:
                        fails.append(('oracle', dict(where, dataset=d, why='selection not reported incompatible on a dataset that cannot reach the attribute',
                                                     impl=o_d['mask']), None))
                    # a persistent selection object (its to_mask is memoised)
                    pm = o_d['pmask']
                    if pm != o_d['mask']:
                        key = None
                        fails.append(('oracle', dict(where, dataset=d, why='a selection object evaluated before the change keeps returning its memoised mask',
                                                     persistent=pm, fresh=o_d['mask']), key))
            # ---------------- correspondence with the model
            if model_obs is not None:
                if si >= len(model_obs):
                    fails.append(('correspondence', dict(where, why='model returned too few observations'), None))
                    break
                mo = model_obs[si]
                if mo['err']:
                    fails.append(('correspondence', dict(where, why='model ran out of fuel'), None))
                if mo['code'] != ob['code'] or mo['ext'] != ob['ext'] or mo['delay'] != ab.delay:
                    fails.append(('correspondence', dict(where, why='result code / external_links / delay depth', model=[mo['code'], mo['ext'], mo['delay']],
                                                         impl=[ob['code'], ob['ext'], ab.delay]), None))
                for d in sorted(ob['ds']):
                    a, b = ob['ds'][d], mo['ds'][d]
                    if d not in closure:
                        # a table that is allowed to be stale (dataset outside the collection, or inside a delay block): which
                        # attributes it lists is determined, but the chains stored for them depend on how the code enumerated
                        # its set of links when the table was computed, so only the keys are compared
                        if a['member'] != b['member'] or [c for c, _ in a['table']] != [c for c, _ in b['table']]:
                            fails.append(('correspondence', dict(where, dataset=d, why='stale table keys', model=[b['member'], b['table']],
                                                                 impl=[a['member'], a['table']]), None))
                        continue
                    if a['member'] != b['member'] or a['table'] != b['table']:
                        fails.append(('correspondence', dict(where, dataset=d, why='table', model=[b['member'], b['table']],
                                                             impl=[a['member'], a['table']]), None))
                        continue
                    if b['table'] != b['stored_depth']:
                        fails.append(('correspondence', dict(where, dataset=d, why='model: stored depth differs from chain length',
                                                             model=[b['table'], b['stored_depth']]), None))
                    # values: exact wherever every shortest derivation gives the same value; where they differ the model and
                    # the code may legitimately pick different ones (set iteration order) - the oracle above checks membership
                    amb = set(c for c, vs in closure[d][1].items() if len(vs) > 1)
                    for c in universe:
                        va, vb = a['vals'][c], b['vals'][c]
                        if (va is None) != (vb is None):
                            fails.append(('correspondence', dict(where, dataset=d, cid=c, why='readability', model=vb, impl=va), None))
                        elif va != vb and c not in amb:
                            fails.append(('correspondence', dict(where, dataset=d, cid=c, why='value', model=vb, impl=va), None))
                    if (a['mask'] is None) != (b['mask'] is None):
                        fails.append(('correspondence', dict(where, dataset=d, why='mask compatibility', model=b['mask'], impl=a['mask']), None))
                    elif a['mask'] != b['mask'] and selc not in amb:
                        fails.append(('correspondence', dict(where, dataset=d, why='mask', model=b['mask'], impl=a['mask']), None))
    finally:
        impl.cleanup()
    return obs, fails


# ====================================================================== generators
def rand_fn(rng, k, unit=False):
    if unit:
        return (rng.randint(-3, 3), (rng.choice([1, -1]),))
    coefs = tuple(rng.choice([-2, -1, 1, 2, 3]) for _ in range(k))
    return (rng.randint(-3, 3), coefs)


def inv_unit(fn):
    c0, (a,) = fn
    return (-a * c0, (a,))


def gen_world(rng, nds, small=False):
    """datasets, values and the definitions of internal derived attributes (k = 6, 7; some present from the start)"""
    datasets = []
    vals = {}
    ders = {}
    for d in range(nds):
        n = rng.choice([2, 3])
        coords = None
        if rng.random() < (0.35 if not small else 0.5):
            coords = (rng.choice([1, -1]), rng.randint(-3, 3))
        nmain = rng.randint(1, 2 if small else 3)
        main = list(range(2, 2 + nmain))
        member = (d == 0) or rng.random() < 0.8
        vals[(d, 0)] = tuple(range(n))
        if coords is not None:
            vals[(d, 1)] = tuple(coords[0] * i + coords[1] for i in range(n))
        # a few more attributes that histories may add later
        for k in range(2, 2 + nmain + 2):
            vals[(d, k)] = tuple(rng.randint(-5, 5) for _ in range(n))
        base = [(d, 0)] + ([(d, 1)] if coords is not None else []) + [(d, k) for k in main]
        derived = []
        for k in (6, 7):
            if rng.random() < 0.6:
                m = rng.choice([1, 1, 2])
                fr = tuple(rng.choice(base) for _ in range(m))
                if m == 1 and rng.random() < 0.6:
                    # an invertible unit conversion: the link declares its inverse
                    fn = rand_fn(rng, 1, unit=True)
                    ders[(d, k)] = (fr, fn, inv_unit(fn))
                else:
                    fn = rand_fn(rng, m)
                    ders[(d, k)] = (fr, fn)
                vals[(d, k)] = apply_spec(fn, [vals[f] for f in fr])
                if rng.random() < 0.6:
                    derived.append(k)
        datasets.append({'id': d, 'n': n, 'member': member, 'main': main, 'coords': coords, 'derived': derived})
    return datasets, vals, ders


def gen_pool(rng, datasets, vals, size, live_only=True):
    cids = sorted(vals)
    by_ds = {}
    for c in cids:
        by_ds.setdefault(c[0], []).append(c)
    nelem = {ds['id']: ds['n'] for ds in datasets}
    mains = {ds['id']: [(ds['id'], k) for k in ds['main']] for ds in datasets}
    pool = []

    def pick_two():
        if len(by_ds) > 1 and rng.random() < 0.9:
            d1, d2 = rng.sample(sorted(by_ds), 2)
        else:
            d1 = d2 = rng.choice(sorted(by_ds))
        return rng.choice(by_ds[d1]), rng.choice(by_ds[d2])

    def one_way(k=None):
        k = k or rng.choice([1, 1, 2])
        c1, c2 = pick_two()
        fr = (c1,) if k == 1 else tuple([c1] + [rng.choice(cids) for _ in range(k - 1)])
        return (fr, c2, rand_fn(rng, k), None)
    tries = 0
    while len(pool) < size and tries < 200:
        tries += 1
        r = rng.random()
        c1, c2 = pick_two()
        if c1 == c2:
            continue
        if r < 0.15:
            pool.append({'kind': 'same', 'c1': c1, 'c2': c2})
        elif r < 0.25:
            pool.append({'kind': 'twoway', 'c1': c1, 'c2': c2, 'f': rand_fn(rng, 1), 'g': rand_fn(rng, 1)})
        elif r < 0.37:
            pool.append({'kind': 'single', 'from': (c1,), 'to': c2, 'fn': None, 'inv': None})
        elif r < 0.49:
            f = rand_fn(rng, 1, unit=True)
            pool.append({'kind': 'single', 'from': (c1,), 'to': c2, 'fn': f, 'inv': inv_unit(f)})
        elif r < 0.60:
            pool.append({'kind': 'single', 'from': (c1,), 'to': c2, 'fn': rand_fn(rng, 1), 'inv': None})
        elif r < 0.72:
            k = rng.choice([2, 2, 3])
            fr = tuple(rng.choice(cids) for _ in range(k))
            pool.append({'kind': 'single', 'from': fr, 'to': c2, 'fn': rand_fn(rng, k), 'inv': None})
        elif r < 0.76:
            cand = [i for i, e in enumerate(pool) if e['kind'] == 'single' and (e['fn'] is None or e['inv'] is not None)
                    and len(e['from']) == 1 and entry_inv_id(pool, i) is None]
            if cand:
                pool.append({'kind': 'invof', 'of': rng.choice(cand)})
        elif r < 0.84:
            # LinkAligned needs equal shapes
            pairs = [(x, y) for x in nelem for y in nelem if x != y and nelem[x] == nelem[y]]
            if pairs:
                d1, d2 = rng.choice(pairs)
                pool.append({'kind': 'aligned', 'd1': d1, 'd2': d2})
        elif r < 0.88:
            if c1[0] != c2[0] and mains[c1[0]] and mains[c2[0]]:
                pool.append({'kind': 'units', 'c1': rng.choice(mains[c1[0]]), 'c2': rng.choice(mains[c2[0]])})
        elif r < 0.92:
            if c1[0] != c2[0]:
                n = rng.choice([1, 2])
                if len(by_ds[c1[0]]) >= n and len(by_ds[c2[0]]) >= n:
                    pool.append({'kind': 'offset', 'cids1': tuple(rng.sample(by_ds[c1[0]], n)), 'cids2': tuple(rng.sample(by_ds[c2[0]], n)),
                                 'offsets': tuple(rng.randint(-3, 3) for _ in range(n))})
        elif r < 0.95:
            if c1[0] != c2[0]:
                n = rng.choice([1, 2])
                if len(by_ds[c1[0]]) >= n and len(by_ds[c2[0]]) >= n:
                    if n == 1:
                        rows = ((rng.choice([1, -1]), rng.randint(-3, 3)),)
                    else:
                        rows = ((1, rng.randint(-2, 2), rng.randint(-3, 3)), (0, rng.choice([1, -1]), rng.randint(-3, 3)))
                    pool.append({'kind': 'affine', 'cids1': tuple(rng.sample(by_ds[c1[0]], n)), 'cids2': tuple(rng.sample(by_ds[c2[0]], n)),
                                 'matrix': rows})
        else:
            subs = []
            for _ in range(rng.randint(1, 3)):
                if rng.random() < 0.4:
                    x, y = pick_two()
                    if x != y:
                        f = rand_fn(rng, 1, unit=True)
                        subs.append(((x,), y, f, inv_unit(f)))
                else:
                    subs.append(one_way())
            if subs:
                pool.append({'kind': 'manual', 'd1': c1[0], 'd2': c2[0], 'subs': tuple(subs)})
    return pool


def gen_history(rng, case, length, foreign=0.05):
    """mostly valid histories: tracked with the Abstract state so that links are added over live attributes"""
    ab = Abstract(case)
    pool = case['pool']
    ext = []
    ops = []
    dsids = [ds['id'] for ds in case['datasets']]
    for _ in range(length):
        r = rng.random()
        o = None
        if r < 0.36:
            cand = [i for i in range(len(pool)) if ab.entry_live(i)]
            if rng.random() < foreign or not cand:
                # links over attributes that are not live (compared with the model only); LinkSameWithUnits is left out:
                # its functions look the units of its own end points up in their datasets whenever they are evaluated
                cand = [j for j in range(len(pool)) if pool[j]['kind'] != 'units' or ab.entry_live(j)]
            if not cand:
                continue
            i = rng.choice(cand)
            if pool[i]['kind'] in COLLECTION_KINDS and i in ext and rng.random() < 0.8:
                continue
            o = ('addlink', i)
            ext.append(i)
        elif r < 0.5:
            if ext and rng.random() < 0.9:
                i = rng.choice(ext)
                ext.remove(i)
            else:
                i = rng.randrange(len(pool))
            o = ('removelink', i)
        elif r < 0.54:
            cand = [i for i in range(len(pool)) if ab.entry_live(i)] or [i for i in range(len(pool)) if pool[i]['kind'] != 'units']
            if not cand:
                continue
            sel = sorted(set(rng.choice(cand) for _ in range(rng.randint(0, 3))))
            o = ('setlinks', tuple(sel))
            ext = list(sel)
        elif r < 0.63:
            d = rng.choice(dsids)
            if rng.random() < 0.35:
                cand = [c for c in case['ders'] if c[0] == d and c not in ab.der[d] and all(f in ab.own[d] for f in case['ders'][c][0])]
                if not cand:
                    continue
                o = ('addderived', d, rng.choice(sorted(cand))[1])
            else:
                cand = [c for c in case['vals'] if c[0] == d and c[1] >= 2 and c not in ab.own[d] and c not in case['ders']]
                if not cand:
                    continue
                o = ('addcomp', d, rng.choice(sorted(cand))[1])
        elif r < 0.74:
            d = rng.choice(dsids)
            cand = [c for c in ab.own[d] if c[1] >= 2] + list(ab.der[d])
            if not cand:
                continue
            o = ('removecomp', d, rng.choice(sorted(cand))[1])
        elif r < 0.80:
            cand = [d for d in dsids if not ab.member[d]] or dsids
            o = ('adddata', rng.choice(cand))
        elif r < 0.87:
            cand = [d for d in dsids if ab.member[d]] or dsids
            o = ('removedata', rng.choice(cand))
        elif r < 0.92:
            cand = [d for d in dsids if ab.coords[d]] or dsids
            o = ('coordsnone', rng.choice(cand))
        elif r < 0.96:
            o = ('delaybegin',)
        else:
            o = ('delayend',)
        ops.append(o)
        ab.apply(o)
    while ab.delay > 0:
        ops.append(('delayend',))
        ab.apply(ops[-1])
    return ops


def pick_sel(rng, case):
    c = rng.choice(sorted(case['vals']))
    return (c, rng.randint(-2, 3))


def case_key(case):
    return (tuple((d['id'], d['n'], d['member'], tuple(d['main']), d['coords'], tuple(d.get('derived', []))) for d in case['datasets']),
            tuple(sorted(case['vals'].items())), tuple(sorted(case.get('ders', {}).items())), repr(case['pool']), tuple(case['ops']), case['sel'])


# ====================================================================== running a batch of histories
def shrink(R, case, pred):
    """drop operations while pred(case) keeps failing"""
    ops = list(case['ops'])
    changed = True
    rounds = 0
    while changed and rounds < 6:
        changed = False
        rounds += 1
        i = len(ops) - 1
        while i >= 0:
            trial = ops[:i] + ops[i + 1:]
            c2 = dict(case, ops=trial)
            try:
                bad = pred(c2)
            except Exception:
                bad = False
            if bad:
                ops = trial
                changed = True
            i -= 1
    return dict(case, ops=ops)


def model_history(R, cases):
    lines = [w_case(c) for c in cases]
    outs = R.model(lines)
    res = []
    for c, o in zip(cases, outs):
        if is_err(o) or tag(o) == -1000:
            res.append(None)
        else:
            u = sorted(c['vals'])
            res.append([parse_model_obs(t, u) for t in kids(o)])
    return res


def run_histories(R, name, cases, exhaustive, bound):
    """cases: list of generated cases. The model runs in one batch, then implementation + oracle case by case."""
    mobs = model_history(R, cases) if R.model_available else [None] * len(cases)
    shrunk = 0
    reported = {}
    for case, mo in zip(cases, mobs):
        if R.model_available and mo is None:
            R.fail('correspondence', case_json(case), {'why': 'model returned an error tree'})
            continue
        obs, fails = check_history(R, case, model_obs=mo)
        last = obs[-1]
        nontriv = any(d['table'] for ob in obs for d in ob['ds'].values())
        R.count(case_key(case), nontrivial=nontriv, stream=name, history_length=len(case['ops']),
                datasets=len(case['datasets']),
                max_chain=max([dep for ob in obs for d in ob['ds'].values() for _, dep in d['table']] + [0]),
                registered_at_end=min(len(last['ext']), 6))
        for o in case['ops']:
            R.hist['op_kind'][o[0]] += 1
            if o[0] == 'addlink':
                R.hist['link_kind'][case['pool'][o[1]]['kind']] += 1
        for ob in obs[1:]:
            R.hist['result_code'][str(ob['code'])] += 1
        seen = set()
        for kind, det, key in fails:
            if (kind, key) in seen:
                continue
            seen.add((kind, key))
            reported[(kind, key)] = reported.get((kind, key), 0) + 1
            if key is not None:
                # a recorded finding: one report is enough (check.py prints KNOWN-FINDING once per key)
                if reported[(kind, key)] <= 2:
                    R.fail(kind, case_json(case), det, key=key)
                continue
            if reported[(kind, key)] > 12:
                continue
            if shrunk < 3 and HANGS[0] == 0:
                shrunk += 1

                def pred(c2, kind=kind):
                    m2 = model_history(R, [c2])[0] if (kind == 'correspondence' and R.model_available) else None
                    _, f2 = check_history(R, c2, model_obs=m2)
                    return any(f[0] == kind and f[2] is None for f in f2)
                small = shrink(R, case, pred)
                m2 = model_history(R, [small])[0] if R.model_available else None
                _, f2 = check_history(R, small, model_obs=m2)
                f2 = [f for f in f2 if f[0] == kind and f[2] is None]
                if f2:
                    R.fail(kind, case_json(small), f2[0][1], key=None)
                    continue
            R.fail(kind, case_json(case), det, key=None)
        too_many_hangs()
    if cases:
        R.sample({'stream': name, 'case': case_json(cases[len(cases) // 2])})
    R.stream(name, cases=len(cases), exhaustive=exhaustive, bound=bound)


# ---------------------------------------------------------------------- stream: exhaustive small histories
def small_world():
    datasets = [{'id': 0, 'n': 2, 'member': True, 'main': [2], 'coords': None, 'derived': [6]},
                {'id': 1, 'n': 2, 'member': True, 'main': [2], 'coords': (-1, 2), 'derived': []},
                {'id': 2, 'n': 2, 'member': False, 'main': [2], 'coords': None, 'derived': []}]
    vals = {(0, 0): (0, 1), (0, 2): (3, -1), (0, 3): (2, 5),
            (1, 0): (0, 1), (1, 1): (2, 1), (1, 2): (4, 0),
            (2, 0): (0, 1), (2, 2): (-2, 1)}
    ders = {(0, 6): (((0, 2),), (1, (2,))),        # y = 2*x + 1 over the main attribute
            (0, 7): (((0, 0),), (3, (-1,)))}       # over the pixel axis, added by the history
    for c, v in ders.items():
        vals[c] = apply_spec(v[1], [vals[f] for f in v[0]])
    pool = [{'kind': 'same', 'c1': (0, 2), 'c2': (1, 2)},
            {'kind': 'single', 'from': ((1, 0),), 'to': (2, 2), 'fn': (1, (2,)), 'inv': None},
            {'kind': 'single', 'from': ((0, 2),), 'to': (1, 1), 'fn': (1, (-1,)), 'inv': (1, (-1,))},
            {'kind': 'twoway', 'c1': (0, 3), 'c2': (2, 2), 'f': (0, (2,)), 'g': (1, (1,))},
            {'kind': 'single', 'from': ((0, 2), (2, 2)), 'to': (1, 2), 'fn': (0, (1, 1)), 'inv': None},
            {'kind': 'invof', 'of': 2},
            {'kind': 'single', 'from': ((1, 2),), 'to': (0, 6), 'fn': (1, (-1,)), 'inv': (1, (-1,))},   # touches the derived attribute only
            {'kind': 'aligned', 'd1': 0, 'd2': 1}]           # LinkAligned: a collection whose cids1 / cids2 are empty
    return datasets, vals, ders, pool


def stream_exhaustive(R):
    datasets, vals, ders, pool = small_world()
    alpha_full = [('addlink', 0), ('addlink', 1), ('addlink', 2), ('addlink', 3), ('addlink', 4), ('addlink', 5), ('addlink', 6), ('addlink', 7),
                  ('addderived', 0, 7), ('removecomp', 0, 6),
                  ('removelink', 0), ('removelink', 2), ('setlinks', (1, 3)),
                  ('adddata', 2), ('removedata', 1), ('removedata', 2),
                  ('addcomp', 0, 3), ('removecomp', 0, 2), ('removecomp', 1, 2),
                  ('coordsnone', 1), ('delaybegin',), ('delayend',)]
    alpha_small = [('addlink', 0), ('addlink', 1), ('addlink', 2), ('addlink', 3), ('addlink', 6), ('addlink', 7), ('removelink', 0),
                   ('adddata', 2), ('removedata', 1), ('removecomp', 0, 2), ('coordsnone', 1), ('delaybegin',), ('delayend',)]
    alpha_tiny = [('addlink', 0), ('addlink', 6), ('removelink', 0), ('adddata', 2), ('removedata', 1),
                  ('removecomp', 0, 2), ('coordsnone', 1), ('delaybegin',), ('delayend',)]
    plans = R.pick([(alpha_full, 2), (alpha_small, 3)], [(alpha_full, 3), (alpha_small, 3), (alpha_tiny, 4)])
    seen = set()
    cases = []
    for alpha, maxlen in plans:
        for ln in range(1, maxlen + 1):
            for ops in itertools.product(alpha, repeat=ln):
                if ops in seen:
                    continue
                seen.add(ops)
                # close open delay blocks so the final state is subject to the oracle
                depth = 0
                for o in ops:
                    if o[0] == 'delaybegin':
                        depth += 1
                    elif o[0] == 'delayend' and depth > 0:
                        depth -= 1
                full = list(ops) + [('delayend',)] * depth
                cases.append({'datasets': datasets, 'vals': vals, 'ders': ders, 'pool': pool, 'ops': full, 'sel': ((0, 2), 0)})
    run_histories(R, 'histories_exhaustive', cases, True,
                  'all operation sequences: %s' % '; '.join('length<=%d over %d operations' % (m, len(a)) for a, m in plans))


# ---------------------------------------------------------------------- stream: derived attributes whose link declares an inverse
def derived_inverse_world():
    """D0 owns x and y = 1 - x (ComponentLink(..., inverse=...)); z = x + 2 (inverse declared) and, in D1, w = 2*b (no
    inverse) are added by the histories.  The pool links OTHER datasets to the derived attributes only, never to x: the way
    from D1 / D2 to x leads through the inverse of a dataset-internal link."""
    datasets = [{'id': 0, 'n': 2, 'member': True, 'main': [2], 'coords': None, 'derived': [6]},
                {'id': 1, 'n': 2, 'member': True, 'main': [2], 'coords': None, 'derived': []},
                {'id': 2, 'n': 3, 'member': True, 'main': [2], 'coords': None, 'derived': []}]
    vals = {(0, 0): (0, 1), (0, 2): (3, -1), (1, 0): (0, 1), (1, 2): (4, 0), (2, 0): (0, 1, 2), (2, 2): (-2, 1, 5)}
    ders = {(0, 6): (((0, 2),), (1, (-1,)), (1, (-1,))),
            (0, 7): (((0, 2),), (2, (1,)), (-2, (1,))),
            (1, 6): (((1, 2),), (0, (2,)))}
    for c, v in ders.items():
        vals[c] = apply_spec(v[1], [vals[f] for f in v[0]])
    y, z, w, b, c = (0, 6), (0, 7), (1, 6), (1, 2), (2, 2)
    pool = [{'kind': 'same', 'c1': y, 'c2': b},
            {'kind': 'single', 'from': (b,), 'to': y, 'fn': (1, (-1,)), 'inv': (1, (-1,))},
            {'kind': 'single', 'from': (y,), 'to': b, 'fn': (0, (2,)), 'inv': None},
            {'kind': 'single', 'from': (c,), 'to': b, 'fn': (-1, (1,)), 'inv': (1, (1,))},      # a dataset chained behind D1
            {'kind': 'same', 'c1': z, 'c2': c},
            {'kind': 'twoway', 'c1': y, 'c2': c, 'f': (0, (2,)), 'g': (1, (1,))},
            {'kind': 'same', 'c1': w, 'c2': c}]
    return datasets, vals, ders, pool


def stream_derived_inverse(R):
    datasets, vals, ders, pool = derived_inverse_world()
    alpha_full = [('addlink', i) for i in range(7)] + [
        ('removelink', 0), ('addderived', 0, 7), ('addderived', 1, 6), ('removecomp', 0, 2), ('removecomp', 0, 6),
        ('removedata', 0), ('adddata', 0), ('delaybegin',), ('delayend',)]
    alpha_small = [('addlink', 0), ('addlink', 1), ('addlink', 3), ('addlink', 4), ('addderived', 0, 7), ('removecomp', 0, 6),
                   ('removelink', 0), ('removedata', 0), ('adddata', 0)]
    plans = R.pick([(alpha_full, 2), (alpha_small, 3)], [(alpha_full, 3), (alpha_small, 4)])
    seen = set()
    cases = []
    for alpha, maxlen in plans:
        for ln in range(1, maxlen + 1):
            for ops in itertools.product(alpha, repeat=ln):
                if ops in seen:
                    continue
                seen.add(ops)
                depth = 0
                for o in ops:
                    if o[0] == 'delaybegin':
                        depth += 1
                    elif o[0] == 'delayend' and depth > 0:
                        depth -= 1
                full = list(ops) + [('delayend',)] * depth
                cases.append({'datasets': datasets, 'vals': vals, 'ders': ders, 'pool': pool, 'ops': full, 'sel': ((0, 2), 0)})
    run_histories(R, 'derived_inverse', cases, True,
                  'derived attributes whose link declares an inverse, other datasets linked to the derived attribute only: all operation '
                  'sequences, %s' % '; '.join('length<=%d over %d operations' % (m, len(a)) for a, m in plans))


# ---------------------------------------------------------------------- stream: all small link graphs
def stream_graphs(R):
    datasets = [{'id': d, 'n': 2, 'member': True, 'main': [2], 'coords': None, 'derived': []} for d in range(3)]
    vals = {(0, 0): (0, 1), (1, 0): (0, 1), (2, 0): (0, 1), (0, 2): (1, 4), (1, 2): (-2, 3), (2, 2): (5, -1)}
    a, b, c = (0, 2), (1, 2), (2, 2)
    pool = []
    fns = [(1, (2,)), (-1, (1,)), (0, (3,)), (2, (-1,)), (1, (1,)), (-2, (2,))]
    for k, (x, y) in enumerate([(a, b), (b, a), (a, c), (c, a), (b, c), (c, b)]):
        pool.append({'kind': 'single', 'from': (x,), 'to': y, 'fn': fns[k], 'inv': None})
    for x, y in [(a, b), (a, c), (b, c)]:
        pool.append({'kind': 'same', 'c1': x, 'c2': y})
    for k, (x, y) in enumerate([(a, b), (a, c), (b, c)]):
        f = (k + 1, (-1,))
        pool.append({'kind': 'single', 'from': (x,), 'to': y, 'fn': f, 'inv': inv_unit(f)})
    for k, (x, y, z) in enumerate([(a, b, c), (a, c, b), (b, c, a)]):
        pool.append({'kind': 'single', 'from': (x, y), 'to': z, 'fn': (k, (1, -1)), 'inv': None})
    pool.append({'kind': 'twoway', 'c1': a, 'c2': (1, 0), 'f': (1, (1,)), 'g': (0, (2,))})
    pool.append({'kind': 'aligned', 'd1': 0, 'd2': 2})
    pool.append({'kind': 'offset', 'cids1': (a, (0, 0)), 'cids2': (b, (1, 0)), 'offsets': (1, -2)})
    pool.append({'kind': 'units', 'c1': b, 'c2': c})
    pool.append({'kind': 'affine', 'cids1': (c, (2, 0)), 'cids2': (a, (0, 0)), 'matrix': ((1, 2, -1), (0, -1, 3))})
    kmax = R.pick(3, 4)
    cases = []
    for k in range(1, kmax + 1):
        for sub in itertools.combinations(range(len(pool)), k):
            ops = [('addlink', i) for i in sub] + [('removelink', sub[0])]
            cases.append({'datasets': datasets, 'vals': vals, 'ders': {}, 'pool': pool, 'ops': ops, 'sel': (a, 1)})
    run_histories(R, 'graphs', cases, True, 'every set of 1..%d links out of a pool of %d (one-way, identity, invertible, two-input, two-way) '
                  'over three one-attribute datasets, added one at a time, then the first removed' % (kmax, len(pool)))


# ---------------------------------------------------------------------- stream: random histories
def stream_random(R):
    n = R.pick(500, 2000)
    cases = []
    for i in range(n):
        rng = R.subrng('hist', i)
        nds = rng.choice([2, 3, 3, 4, 5])
        datasets, vals, ders = gen_world(rng, nds)
        pool = gen_pool(rng, datasets, vals, rng.randint(3, 10))
        case = {'datasets': datasets, 'vals': vals, 'ders': ders, 'pool': pool, 'ops': [], 'sel': None}
        case['sel'] = pick_sel(rng, case)
        case['ops'] = gen_history(rng, case, rng.randint(3, 12))
        cases.append(case)
    run_histories(R, 'histories_random', cases, False, '%d histories of 3..12 operations over 2..5 datasets, pools of 3..10 links' % n)
    # link-heavy histories: long chains, cycles and diamonds over many datasets, few removals
    m = R.pick(150, 600)
    cases = []
    for i in range(m):
        rng = R.subrng('dense', i)
        datasets, vals, ders = gen_world(rng, 5)
        for ds in datasets:
            ds['member'] = True
        pool = gen_pool(rng, datasets, vals, rng.randint(8, 14))
        case = {'datasets': datasets, 'vals': vals, 'ders': ders, 'pool': pool, 'ops': [], 'sel': None}
        case['sel'] = pick_sel(rng, case)
        order = list(range(len(pool)))
        rng.shuffle(order)
        ab = Abstract(case)
        ops = [('addlink', i) for i in order[:10] if ab.entry_live(i)]
        for _ in range(2):
            if ops:
                ops.insert(rng.randrange(len(ops) + 1), ('removelink', rng.choice([o[1] for o in ops if o[0] == 'addlink'])))
        case['ops'] = ops[:12]
        cases.append(case)
    run_histories(R, 'histories_dense', cases, False, '%d histories adding up to 10 links over 5 datasets (chains, cycles, diamonds)' % m)


# ---------------------------------------------------------------------- stream: discover_links called directly
def discover_cases_exhaustive(R):
    own = [(0, 2)]
    others = [(1, 2), (2, 2), (3, 2)]
    U = own + others
    singles = [((x,), y) for x in U for y in U]
    doubles = [((own[0], x), y) for x in others for y in others] + [((others[0], others[1]), others[2])]
    alpha = singles + doubles
    maxlen = R.pick(3, 4)
    if maxlen == 4:
        alpha4 = singles
    cases = []
    for ln in range(0, 4):
        for seq in itertools.product(range(len(alpha)), repeat=ln):
            cases.append((own, [alpha[i] for i in seq]))
    if maxlen == 4:
        for seq in itertools.product(range(len(alpha4)), repeat=4):
            cases.append((own, [alpha4[i] for i in seq]))
    return cases, 'own {a}, attributes {a,x,y,z}: all ordered lists of <=3 links out of %d (all single-input incl. self loops and links into own, %d two-input)%s' % (
        len(alpha), len(doubles), '; all lists of 4 single-input links' if maxlen == 4 else '')


def discover_cases_random(R):
    n = R.pick(1500, 15000)
    cases = []
    for i in range(n):
        rng = R.subrng('disc', i)
        nu = rng.randint(3, 12)
        U = [(j % 4, 2 + j // 4) for j in range(nu)]
        own = [c for c in U if c[0] == 0][:rng.randint(1, 3)]
        links = []
        for _ in range(rng.randint(1, 25)):
            k = rng.choice([1, 1, 1, 2, 2, 3])
            links.append((tuple(rng.choice(U) for _ in range(k)), rng.choice(U)))
        cases.append((own, links))
    return cases, '%d random link lists: 3..12 attributes, 1..3 own, 1..25 links with 1..3 inputs' % n


def run_discover(R, name, cases, exhaustive, bound):
    from glue.core import Data, ComponentID
    from glue.core.component_link import ComponentLink
    from glue.core.link_manager import discover_links
    # one real dataset per distinct own-set size: its main components are the own attributes (+ its pixel axis, never linked)
    worlds = {}

    def world(own):
        key = tuple(own)
        if key not in worlds:
            D = Data(label='A')
            cid = {}
            for c in own:
                o = ComponentID('c%d_%d' % c)
                D.add_component(np.array([1, 2]), o)
                cid[c] = o
            worlds[key] = (D, cid)
        return worlds[key]
    lines = []
    for own, links in cases:
        lines.append(enc((2, [(0, [w_cid(c) for c in own]),
                              (0, [w_link(j, fr, to, (0, (1,) * len(fr))) for j, (fr, to) in enumerate(links)])])))
    outs = R.model(lines) if R.model_available else [None] * len(cases)
    f = mkfn((0, (1, 1, 1)))
    rng = R.subrng('shuffle', name)
    for (own, links), o in zip(cases, outs):
        D, cid = world(own)
        cid = dict(cid)
        num = {v: k for k, v in cid.items()}

        def get(c):
            if c not in cid:
                cid[c] = ComponentID('c%d_%d' % c)
                num[cid[c]] = c
            return cid[c]
        objs = [ComponentLink([get(x) for x in fr], get(to), using=f) for fr, to in links]
        idx = {id(l): j for j, l in enumerate(objs)}
        try:
            with time_limit(10):
                res = discover_links(D, objs)
        except Hang:
            R.fail('oracle', {'stream': name, 'own': own, 'links': links}, {'why': 'discover_links did not return within 10 s'})
            too_many_hangs()
            continue
        except (KeyError, ValueError) as ex:
            R.fail('oracle', {'stream': name, 'own': own, 'links': links}, {'why': 'discover_links raised %s' % type(ex).__name__})
            continue
        impl = [(num[c], idx[id(l)]) for c, l in res.items()]
        # chain depth through the returned dict
        chosen = {num[c]: links[idx[id(l)]] for c, l in res.items()}
        ownset = set(own)

        def dep(c, seen=0):
            if c in ownset:
                return 0
            if c not in chosen or seen > 40:
                return -1
            rs = [dep(x, seen + 1) for x in chosen[c][0]]
            return -1 if any(r < 0 for r in rs) else 1 + max(rs + [0])
        impl_depth = {c: dep(c) for c in chosen}
        depth, _ = fixpoint(ownset, [(fr, to, None) for fr, to in links])
        want = {c: k for c, k in depth.items() if k > 0}
        R.count(('disc', tuple(own), tuple(links)), nontrivial=len(want) > 0, stream=name, links=min(len(links), 26),
                reachable=len(want), max_depth=max(list(want.values()) + [0]))
        case = {'stream': name, 'own': own, 'links': links}
        if impl_depth != want:
            R.fail('oracle', case, {'why': 'discover_links: keys / chain lengths differ from the closure', 'impl': sorted(impl_depth.items()),
                                    'expected': sorted(want.items())})
        else:
            for c, (fr, to) in chosen.items():
                if any(depth[x] >= depth[c] for x in fr):
                    R.fail('oracle', case, {'why': 'chosen link has an input that is not strictly closer', 'cid': c})
            if len(links) > 1:
                sh = list(objs)
                rng.shuffle(sh)
                with time_limit(10):
                    res2 = discover_links(D, sh)
                if set(num[c] for c in res2) != set(want):
                    R.fail('oracle', case, {'why': 'result depends on the enumeration order of the links'})
        if o is not None:
            if is_err(o):
                R.fail('correspondence', case, {'why': 'model out of fuel'})
            else:
                mt = [((tag(kids(x)[0][1][0]), tag(kids(x)[0][1][1])), tag(kids(x)[2])) for x in kids(kids(o)[0])]
                md = {(tag(kids(x)[0][1][0]), tag(kids(x)[0][1][1])): tag(kids(x)[1]) for x in kids(kids(o)[0])}
                if mt != impl or md != impl_depth:
                    R.fail('correspondence', case, {'model': mt, 'impl': impl, 'model_depth': sorted(md.items()), 'impl_depth': sorted(impl_depth.items())})
    if cases:
        R.sample({'stream': name, 'own': cases[len(cases) // 2][0], 'links': cases[len(cases) // 2][1]})
    R.stream(name, cases=len(cases), exhaustive=exhaustive, bound=bound)


# ---------------------------------------------------------------------- streams: the TRANSLATED functions (coq/gen/Gen_links.v)
# accessible_links / discover_links / find_dependents as regenerated from the source by tools/gen/gen_links.py, run through the
# extracted model (run_case tags 3, 4, 5) against the live functions.  A disagreement is a translator bug or a source construct the
# translation misrepresents; the property-level oracle is the one of the discover streams above.
class FakeData:
    """what discover_links / find_dependents read from a dataset"""
    def __init__(self, main, coord, derived=None):
        self.main_components = list(main)
        self.coordinate_components = list(coord)
        self._derived = derived or {}

    @property
    def derived_components(self):
        return list(self._derived)

    def get_component(self, cid):
        return self._derived[cid]


class FakeDerived:
    def __init__(self, link):
        self.link = link


def gen_discover_cases(R):
    a, b, x, y = (0, 2), (0, 3), (1, 2), (2, 2)
    U = [a, b, x, y]
    singles = [((p,), q) for p in U for q in U]
    extra = [((), x), ((), a), ((a, x), y), ((x, a), y), ((x, x), y), ((a, b), x), ((x, y), b), ((b, y), x)]
    alpha = singles + extra
    cases = []
    splits = [([a], [b]), ([a, b], []), ([], [a]), ([a], [a, b]), ([], [])]
    for ln in range(0, 3):
        for seq in itertools.product(range(len(alpha)), repeat=ln):
            for main, coord in (splits if ln < 2 else splits[:2]):
                cases.append((main, coord, [alpha[i] for i in seq]))
    # length 3 over the links that matter for relaxation (chains, a diamond, a shortcut, the empty-input link)
    core = [((a,), x), ((x,), y), ((a,), y), ((y,), x), ((b,), y), ((a, x), y), ((), x), ((y,), a), ((x, y), b)]
    for seq in itertools.product(range(len(core)), repeat=3):
        cases.append(([a], [b], [core[i] for i in seq]))
    n_ex = len(cases)
    n = R.pick(1500, 12000)
    for i in range(n):
        rng = R.subrng('gdisc', i)
        nu = rng.randint(3, 12)
        Ucs = [(j % 4, 2 + j // 4) for j in range(nu)]
        main = [rng.choice(Ucs) for _ in range(rng.randint(0, 3))]
        coord = [rng.choice(Ucs) for _ in range(rng.randint(0, 2))]
        links = []
        for _ in range(rng.randint(1, 25)):
            k = rng.choice([0, 1, 1, 1, 1, 2, 2, 3])
            links.append((tuple(rng.choice(Ucs) for _ in range(k)), rng.choice(Ucs)))
        cases.append((main, coord, links))
    return cases, n_ex


def run_gen_discover(R, cases=None, replaying=False):
    from glue.core import ComponentID
    from glue.core.component_link import ComponentLink
    from glue.core.link_manager import discover_links, accessible_links
    n_ex = 0
    if cases is None:
        cases, n_ex = gen_discover_cases(R)
    cid = {}

    def get(c):
        if c not in cid:
            cid[c] = ComponentID('c%d_%d' % c)
        return cid[c]
    f = mkfn((0, (1, 1, 1)))
    lines = []
    for main, coord, links in cases:
        wl = (0, [w_link(j, fr, to, (0, (1,) * len(fr))) for j, (fr, to) in enumerate(links)])
        lines.append(enc((3, [(0, [w_cid(c) for c in main]), (0, [w_cid(c) for c in coord]), wl])))
        lines.append(enc((4, [(0, [w_cid(c) for c in main + coord]), wl])))
    outs = R.model(lines) if R.model_available else None
    bad = 0
    for i, (main, coord, links) in enumerate(cases):
        num = {}
        objs = [ComponentLink([get(p) for p in fr], get(to), using=f) for fr, to in links]
        idx = {id(l): j for j, l in enumerate(objs)}
        for c in list(main) + list(coord):
            get(c)
        num = {v: k for k, v in cid.items()}
        case = {'stream': 'gen_discover', 'main': main, 'coord': coord, 'links': links}
        D = FakeData([get(c) for c in main], [get(c) for c in coord])
        try:
            with time_limit(10):
                res = discover_links(D, objs)
                impl = [(num[c], idx[id(l)]) for c, l in res.items()]
        except Hang:
            R.fail('oracle', case, {'why': 'discover_links did not return within 10 s'})
            too_many_hangs()
            continue
        except (KeyError, ValueError) as ex:
            impl = ('error', type(ex).__name__)
            R.fail('oracle', case, {'why': 'discover_links raised %s on a well-formed dataset and list of links' % type(ex).__name__})
        acc = [idx[id(l)] for l in accessible_links([get(c) for c in main + coord], objs)]
        if isinstance(impl, list):
            # the property itself, independent of the model: keys = closure, stored chains have the minimum length
            chosen = {c: links[j] for c, j in impl}
            ownset = set(main) | set(coord)

            def dep(c, seen=0):
                if c in ownset:
                    return 0
                if c not in chosen or seen > 40:
                    return -1
                rs = [dep(x, seen + 1) for x in chosen[c][0]]
                return -1 if any(r < 0 for r in rs) else 1 + max(rs + [0])
            impl_depth = {c: dep(c) for c in chosen}
            depth, _ = fixpoint(ownset, [(fr, to, None) for fr, to in links])
            want = {c: kk for c, kk in depth.items() if c not in ownset}
            if impl_depth != want:
                R.fail('oracle', case, {'why': 'discover_links: keys / chain lengths differ from the closure', 'impl': sorted(impl_depth.items()),
                                        'expected': sorted(want.items())})
        if not replaying:
            R.count(('gdisc', tuple(main), tuple(coord), tuple(links)), nontrivial=isinstance(impl, list) and len(impl) > 0,
                    stream='gen_discover', links=min(len(links), 26))
        if outs is None:
            continue
        o, oa = outs[2 * i], outs[2 * i + 1]
        if is_err(o):
            mt = ('error', {4: 'KeyError', 1: 'ValueError'}.get(tag(kids(o)[0]), 'code %d' % tag(kids(o)[0])))
        else:
            mt = [((tag(kids(kids(x)[0])[0]), tag(kids(kids(x)[0])[1])), tag(kids(x)[1])) for x in kids(kids(o)[0])]
        ma = to_zs(oa)
        if mt != impl or ma != acc:
            bad += 1
            if bad <= 5:
                R.fail('correspondence', case, {'why': 'the translated discover_links / accessible_links (coq/gen/Gen_links.v) disagree with the live functions',
                                                'generated': mt, 'impl': impl, 'generated_accessible': ma, 'impl_accessible': acc})
    if replaying:
        return bad
    if cases:
        m = cases[len(cases) // 3]
        R.sample({'stream': 'gen_discover', 'main': m[0], 'coord': m[1], 'links': m[2]})
    R.stream('gen_discover', cases=len(cases), exhaustive=False,
             bound='translated discover_links + accessible_links vs the live functions: %d exhaustive (main/coordinate splits of {a,b}, attributes '
                   '{a,b,x,y}, all ordered lists of <=2 links out of 24 incl. empty-input, duplicate-input and two-input links; all 3-lists over 9 '
                   'relaxation-relevant links) + %d random (0..3 main, 0..2 coordinate possibly overlapping, 1..25 links with 0..3 inputs)'
                   % (n_ex, len(cases) - n_ex))


def gen_dependents_cases(R):
    """(derived links in Data.derived_components order, the link asked about): derived attribute j is (0, 10 + j)"""
    cases = []
    base = [(0, 2), (0, 3)]
    # exhaustive: up to 3 derived components, each computed from 1 or 2 of {base, earlier or later derived ones}
    for nd in range(0, 4):
        targets = [(0, 10 + j) for j in range(nd)]
        pool = base[:1] + targets
        froms = [(p,) for p in pool] + [(base[0], t) for t in targets] + [(base[1],)]
        for combo in itertools.product(range(len(froms)), repeat=nd):
            der = [(froms[combo[j]], targets[j]) for j in range(nd)]
            for ask in list(range(nd)) + [-1]:
                cases.append((der, ask))
    n_ex = len(cases)
    for i in range(R.pick(400, 4000)):
        rng = R.subrng('gdep', i)
        nd = rng.randint(1, 8)
        targets = [(0, 10 + j) for j in range(nd)]
        pool = base + targets
        der = [(tuple(rng.choice(pool) for _ in range(rng.choice([1, 1, 2, 3]))), targets[j]) for j in range(nd)]
        rng.shuffle(der)
        cases.append((der, rng.randint(-1, nd - 1)))
    return cases, n_ex


def run_gen_dependents(R, cases=None, replaying=False):
    from glue.core import ComponentID
    from glue.core.component_link import ComponentLink
    from glue.core.link_manager import find_dependents
    n_ex = 0
    if cases is None:
        cases, n_ex = gen_dependents_cases(R)
    cid = {}

    def get(c):
        if c not in cid:
            cid[c] = ComponentID('c%d_%d' % c)
        return cid[c]
    f = mkfn((0, (1, 1, 1)))
    lines = []
    for der, ask in cases:
        other = w_link(999, ((0, 2),), (0, 99), (0, (1,)))
        wl = [w_link(j, fr, to, (0, (1,) * len(fr))) for j, (fr, to) in enumerate(der)]
        lines.append(enc((5, [(0, wl), wl[ask] if ask >= 0 else other])))
    outs = R.model(lines) if R.model_available else None
    bad = 0
    for i, (der, ask) in enumerate(cases):
        objs = [ComponentLink([get(p) for p in fr], get(to), using=f) for fr, to in der]
        num = {v: k for k, v in cid.items()}
        D = FakeData([], [], {get(to): FakeDerived(l) for (fr, to), l in zip(der, objs)})
        asked = objs[ask] if ask >= 0 else ComponentLink([get((0, 2))], get((0, 99)), using=f)
        num = {v: k for k, v in cid.items()}
        case = {'stream': 'gen_dependents', 'derived': der, 'ask': ask}
        try:
            with time_limit(10):
                impl = sorted(num[c] for c in find_dependents(D, asked))
        except Hang:
            R.fail('correspondence', case, {'why': 'find_dependents did not return within 10 s'})
            too_many_hangs()
            continue
        if not replaying:
            R.count(('gdep', tuple(der), ask), nontrivial=len(impl) > 0, stream='gen_dependents', links=len(der))
        if outs is None:
            continue
        o = outs[i]
        if is_err(o):
            mt = ('error', tag(kids(o)[0]))
        else:
            mt = sorted((tag(kids(x)[0]), tag(kids(x)[1])) for x in kids(kids(o)[0]))
        if mt != impl:
            bad += 1
            if bad <= 5:
                R.fail('correspondence', case, {'why': 'the translated find_dependents (coq/gen/Gen_links.v) disagrees with the live function',
                                                'generated': mt, 'impl': impl})
    if replaying:
        return bad
    R.stream('gen_dependents', cases=len(cases), exhaustive=False,
             bound='translated find_dependents vs the live function: %d exhaustive (<=3 derived components over 1-2 inputs out of a base attribute '
                   'and the derived ones, every link asked about + a foreign link) + %d random (1..8 derived components, 1..3 inputs, shuffled order)'
                   % (n_ex, len(cases) - n_ex))


def gen_handler_cases(R):
    """(entries, ext, what): entries[i] = list of (from-cids, to-cid) sublinks (one = a plain ComponentLink, several / flagged = a
    LinkCollection); ext = the indices in _external_links order (an index may repeat: the same link registered twice);
    what = ('comp', cid) | ('data', d, components-of-d)"""
    cases = []
    U = [(d, j) for d in range(3) for j in range(2, 4)]
    # exhaustive: 3 fixed entries, every ext list of length <= 3 over them, every removed cid / dataset
    ents = [(False, [(((0, 2),), (1, 2))]), (True, [(((1, 2),), (2, 2)), (((2, 2),), (1, 2))]), (False, [(((0, 2), (2, 3)), (0, 3))])]
    for ln in range(0, 4):
        for ext in itertools.product(range(3), repeat=ln):
            for c in [(0, 2), (1, 2), (2, 2), (2, 3), (1, 3)]:
                cases.append((ents, list(ext), ('comp', c)))
            for d in range(3):
                cases.append((ents, list(ext), ('data', d, [(d, 2), (d, 3)])))
            cases.append((ents, list(ext), ('data', 1, [(1, 3), (0, 2)])))     # a component whose parent is another dataset
    n_ex = len(cases)
    for i in range(R.pick(600, 5000)):
        rng = R.subrng('ghand', i)
        ne = rng.randint(1, 6)
        entries = []
        for _ in range(ne):
            coll = rng.random() < 0.4
            subs = []
            for _ in range(rng.randint(1, 3) if coll else 1):
                subs.append((tuple(rng.choice(U) for _ in range(rng.choice([1, 1, 2]))), rng.choice(U)))
            entries.append((coll, subs))
        ext = [rng.randrange(ne) for _ in range(rng.randint(0, 7))]
        if rng.random() < 0.5:
            what = ('comp', rng.choice(U))
        else:
            d = rng.randrange(3)
            comps = [c for c in U if c[0] == d]
            if rng.random() < 0.3:
                comps.insert(rng.randrange(len(comps) + 1), rng.choice(U))
            rng.shuffle(comps)
            what = ('data', d, comps[:rng.randint(0, len(comps))])
        cases.append((entries, ext, what))
    return cases, n_ex


def run_gen_handlers(R, cases=None, replaying=False):
    import types
    from glue.core import ComponentID
    from glue.core.component_link import ComponentLink
    from glue.core.link_helpers import LinkCollection
    from glue.core.link_manager import LinkManager

    class RecLM(LinkManager):
        def update_externally_derivable_components(self, data=None):
            self.events.append(0)
    n_ex = 0
    if cases is None:
        cases, n_ex = gen_handler_cases(R)
    datas = [types.SimpleNamespace(label='d%d' % d, components=[]) for d in range(3)]
    cid = {}

    def get(c):
        if c not in cid:
            cid[c] = ComponentID('c%d_%d' % c, parent=datas[c[0]])
        return cid[c]
    f = mkfn((0, (1, 1, 1)))
    lines = []
    for entries, ext, what in cases:
        wp = []
        for i, (coll, subs) in enumerate(entries):
            wp.append((i, [(1 if coll else 0, []), (0, []),
                           (0, [(0, [w_link(10 * i + j, fr, to, (0, (1,) * len(fr))), (0, [])]) for j, (fr, to) in enumerate(subs)])]))
        if what[0] == 'comp':
            lines.append(enc((6, [(0, wp), (0, list(ext)), w_cid(what[1])])))
        else:
            lines.append(enc((7, [(0, wp), (0, list(ext)), (what[1], []), (0, [w_cid(c) for c in what[2]])])))
    outs = R.model(lines) if R.model_available else None
    bad = 0
    for k, (entries, ext, what) in enumerate(cases):
        objs = []
        for coll, subs in entries:
            ls = [ComponentLink([get(x) for x in fr], get(to), using=f) for fr, to in subs]
            if coll:
                o = LinkCollection()
                o._links[:] = ls
            else:
                o = ls[0]
            objs.append(o)
        lm = RecLM()
        lm.events = []
        lm._external_links = [objs[i] for i in ext]
        if what[0] == 'comp':
            msg = types.SimpleNamespace(component_id=get(what[1]))
            call = lm._component_removed
        else:
            dobj = datas[what[1]]
            dobj.components = [get(c) for c in what[2]]
            msg = types.SimpleNamespace(data=dobj)
            call = lm._data_removed
        case = {'stream': 'gen_handlers', 'entries': entries, 'ext': ext, 'what': what}
        try:
            call(msg)
            impl = ([next(i for i, o in enumerate(objs) if o is x) for x in lm._external_links], list(lm.events))
        except ValueError:
            impl = ('error', 1)
        if not replaying:
            R.count(('ghand', tuple((c, tuple(sl)) for c, sl in entries), tuple(ext), tup(what)),
                    nontrivial=isinstance(impl, tuple) and len(impl[1]) > 0 if impl[0] != 'error' else True, stream='gen_handlers', links=len(ext))
        if outs is None:
            continue
        o = outs[k]
        if is_err(o):
            mt = ('error', tag(kids(o)[0]))
        else:
            body = kids(o)[0]
            mt = (to_zs(kids(body)[0]), [tag(x) for x in kids(kids(body)[1])])
        if mt != impl:
            bad += 1
            if bad <= 5:
                R.fail('correspondence', case, {'why': 'the translated LinkManager._component_removed / _data_removed / remove_link (coq/gen/Gen_links.v) '
                                                       'disagree with the live methods', 'generated': mt, 'impl': impl})
    if replaying:
        return bad
    R.stream('gen_handlers', cases=len(cases), exhaustive=False,
             bound='translated _component_removed / _data_removed (+ remove_link) vs the live methods on a LinkManager whose update is recorded: '
                   '%d exhaustive (3 entries incl. one LinkCollection, every _external_links list of <=3 of them with repeats, every removed '
                   'attribute / dataset incl. a component with a foreign parent) + %d random (1..6 entries, 0..7 registered, 40%% collections)'
                   % (n_ex, len(cases) - n_ex))


class OrderedLinks(list):
    """stands in for the set `self._links | self._inverse_links`: the enumeration order is the list's"""
    def __or__(self, other):
        return OrderedLinks(list(self) + list(other))


def run_gen_update(R, cases=None, replaying=False):
    """the loop of update_externally_derivable_components on real Data objects; _links / _inverse_links are replaced by an ordered
    enumeration so that the chosen links can be compared exactly"""
    from glue.core import Data, ComponentID
    from glue.core.component_link import ComponentLink
    from glue.core.link_manager import LinkManager

    class OLM(LinkManager):
        ordered = OrderedLinks()

        @property
        def _links(self):
            return self.ordered

        @property
        def _inverse_links(self):
            return OrderedLinks()
    if cases is None:
        cases = []
        for i in range(R.pick(250, 2500)):
            rng = R.subrng('gupd', i)
            nd = rng.randint(1, 3)
            nmain = [rng.randint(1, 2) for _ in range(nd)]
            U = [(d, j) for d in range(nd) for j in range(0, 2 + nmain[d]) if j != 1]     # (d, 0) = pixel axis, (d, 2..) = main
            extra = [(7, 2), (7, 3)]
            links = []
            for _ in range(rng.randint(0, 10)):
                k = rng.choice([1, 1, 1, 2])
                links.append((tuple(rng.choice(U + extra) for _ in range(k)), rng.choice(U + extra)))
            cases.append((nmain, links))
    f = mkfn((0, (1, 1, 1)))
    lines = []
    for nmain, links in cases:
        dct = [(0, [(0, [w_cid((d, 2 + j)) for j in range(n)]), (0, [w_cid((d, 0))])]) for d, n in enumerate(nmain)]
        lines.append(enc((8, [(0, dct), (0, [w_link(j, fr, to, (0, (1,) * len(fr))) for j, (fr, to) in enumerate(links)])])))
    outs = R.model(lines) if R.model_available else None
    bad = 0
    for k, (nmain, links) in enumerate(cases):
        cid, datas = {}, []
        for d, n in enumerate(nmain):
            D = Data(label='D%d' % d)
            for j in range(n):
                cid[(d, 2 + j)] = D.add_component(np.array([1, 2]), 'm%d' % j)
            cid[(d, 0)] = D.pixel_component_ids[0]
            datas.append(D)
        for c in [(7, 2), (7, 3)]:
            cid[c] = ComponentID('x%d_%d' % c)
        num = {v: kk for kk, v in cid.items()}
        objs = [ComponentLink([cid[x] for x in fr], cid[to], using=f) for fr, to in links]
        idx = {id(l): j for j, l in enumerate(objs)}
        lm = OLM(data_collection=datas)
        lm.ordered = OrderedLinks(objs)
        case = {'stream': 'gen_update', 'nmain': nmain, 'links': links}
        lm.update_externally_derivable_components()
        impl = [[(num[c], idx[id(comp.link)]) for c, comp in D._externally_derivable_components.items()] for D in datas]
        if not replaying:
            R.count(('gupd', tuple(nmain), tuple(links)), nontrivial=any(impl), stream='gen_update', links=len(links))
        if outs is None:
            continue
        o = outs[k]
        if is_err(o):
            mt = ('error', tag(kids(o)[0]))
        else:
            body = kids(o)[0]
            mt = [[((tag(kids(kids(x)[0])[0]), tag(kids(kids(x)[0])[1])), tag(kids(x)[1])) for x in kids(ev)] for ev in kids(kids(body)[1])]
        if mt != impl:
            bad += 1
            if bad <= 5:
                R.fail('correspondence', case, {'why': 'the translated loop of update_externally_derivable_components (coq/gen/Gen_links.v) installs other '
                                                       'derived components than the live method', 'generated': mt, 'impl': impl})
    if replaying:
        return bad
    R.stream('gen_update', cases=len(cases), exhaustive=False,
             bound='translated `for data in data_collection` loop of update_externally_derivable_components vs the live method on 1..3 real Data '
                   'objects (1..2 main components + pixel axis), 0..10 links over their attributes and two foreign ones, enumerated in list order')


# ====================================================================== entry points
def run(R):
    R.rule = ('discover streams: one case = (own attributes, ordered list of links); non-trivial when at least one attribute is derivable. '
              'history streams: one case = (datasets, pool of links, operation sequence); after every operation every dataset is observed; '
              'non-trivial when some dataset has a non-empty table of externally derivable attributes at some step; distinct = distinct canonical case')
    R.exhaustive = False
    t0 = time.time()

    def lap(names):
        nonlocal t0
        for n in names:
            if n in R.streams:
                R.streams[n]['wall_s'] = round(time.time() - t0, 1)
        t0 = time.time()
    run_gen_discover(R)
    run_gen_dependents(R)
    run_gen_handlers(R)
    run_gen_update(R)
    lap(['gen_discover', 'gen_dependents', 'gen_handlers', 'gen_update'])
    cases, bound = discover_cases_exhaustive(R)
    run_discover(R, 'discover_exhaustive', cases, True, bound)
    lap(['discover_exhaustive'])
    cases, bound = discover_cases_random(R)
    run_discover(R, 'discover_random', cases, False, bound)
    lap(['discover_random'])
    stream_graphs(R)
    lap(['graphs'])
    stream_exhaustive(R)
    lap(['histories_exhaustive'])
    stream_derived_inverse(R)
    lap(['derived_inverse'])
    stream_random(R)
    lap(['histories_random', 'histories_dense'])


def replay(R, case):
    if case.get('stream') == 'gen_discover':
        before = len(R.failures)
        bad = run_gen_discover(R, [([tuple(c) for c in case['main']], [tuple(c) for c in case['coord']],
                                    [(tuple(tuple(x) for x in fr), tuple(to)) for fr, to in case['links']])], replaying=True)
        new = R.failures[before:]
        return {'case': case, 'disagreements': bad, 'failures': new, 'violates': any(f['kind'] == 'oracle' for f in new)}
    if case.get('stream') == 'gen_dependents':
        bad = run_gen_dependents(R, [([(tuple(tuple(x) for x in fr), tuple(to)) for fr, to in case['derived']], case['ask'])], replaying=True)
        return {'case': case, 'disagreements': bad, 'violates': False}
    if case.get('stream', '').startswith('discover'):
        own = [tuple(c) for c in case['own']]
        links = [(tuple(tuple(x) for x in fr), tuple(to)) for fr, to in case['links']]
        before = len(R.failures)
        run_discover(R, case['stream'], [(own, links)], False, 'replay')
        new = R.failures[before:]
        return {'case': case, 'failures': new, 'violates': any(f['kind'] == 'oracle' for f in new)}
    c = norm_case(case)
    mo = model_history(R, [c])[0] if R.model_available else None
    obs, fails = check_history(R, c, model_obs=mo)
    return {'case': case_json(c),
            'implementation': [{'code': ob['code'], 'external_links': ob['ext'],
                                'tables': {d: x['table'] for d, x in ob['ds'].items()},
                                'masks': {d: x['mask'] for d, x in ob['ds'].items()}} for ob in obs],
            'model': None if mo is None else [{'code': m['code'], 'external_links': m['ext'],
                                               'tables': {d: x['table'] for d, x in m['ds'].items()}} for m in mo],
            'failures': [{'kind': k, 'detail': d, 'key': key} for k, d, key in fails],
            'violates': any(k == 'oracle' and key is None for k, d, key in fails)}
