"""C19 — exported data files load back to the same table or image.

For every case: build a real Data (+ optional subset), call the registered exporter, then
  correspondence : what the exporter wrote (astropy Table handed to the writer / raw h5py / raw astropy.io.fits read)
                   against the extracted model's exported table (names, order, kinds, values, BLANK keyword);
  oracle         : load the file back with glue's data factories (load_data auto-detection and the specific factory) and
                   compare names, order and values with the selection computed directly with numpy on the original arrays;
  session        : some loaded files are put in a session saved by reference (include_data=False) and restored.
"""
import itertools
import os
import time

import numpy as np

from harness.common import enc, Z, kids, to_zs

PROP = 'C19'
GENERATORS = []
TRUSTED = [
    'PARTIAL BY NATURE: the theorems cover only glue\'s own logic in the exporters - which components are written and in which order '
    '(main + derived, numerical only for gridded FITS), row selection values[mask] for tables and 1-d HDF5, replacement of the masked-out '
    'pixels by the dtype-kind fill for n-d HDF5 and gridded FITS - and the round trip only modulo an abstract codec (dec (enc t) = normalise t)',
    'the file codecs astropy.table / astropy.io.fits / astropy.io.votable / h5py / pandas.read_csv and numpy are external: '
    'that loading returns what was written is established only by the oracle runs on real files',
    'hand model coq/C19/Model.v of data_to_astropy_table, hdf5_writer, fits_writer: tied to the code by correspondence on the explored cases',
    'glue data factories (fits_reader, hdf5_reader, astropy_tabular_data*, pandas_read_table / tabular_data, load_data / find_factory) and '
    'session save by reference (LoadLog) are exercised by the oracle only',
]
ASSUMPTIONS = [
    'accepted normalisations (fixed): HDF5 returns text as ASCII bytes; FITS upper-cases HDU names and returns BLANK-masked integer images as float with NaN; '
    'CSV re-infers dtypes (and an empty column has no dtype); FITS stores integers/floats big-endian',
    'domain: float (float32/float64, dyadic values, NaN), integer (int16/32/64) and clearly non-numeric text columns without leading/trailing blanks, ASCII and non-ASCII '
    '(Latin-1, Greek, CJK, emoji, combining marks); text is preserved up to the format\'s encoding: HDF5 = ASCII with one ? per other code point (as the exporter writes today, the column must '
    'still come back), CSV / VO table = unchanged, FITS table = ASCII only (see known findings); '
    'the empty string is not generated: it is not clearly non-numeric text - CSV and astropy\'s FITS-table reader treat it as a missing value (the FITS-table factory then shows it as the text nan); column names are lower-case identifiers every format accepts',
    'table formats (CSV, FITS table, VO table) are exercised with 1-d datasets and with SUBSETS of 2-d / 3-d datasets (one row per selected pixel, C order); a whole n-d dataset is not a table '
    '(astropy makes vector columns of it) and is outside the domain; HDF5 and gridded FITS with 1-d, 2-d and 3-d data; arrays in native and non-native byte order; chains of two formats '
    '(the dataset loaded from the first file is the dataset of the second export)',
    'for gridded FITS, which writes one HDU per component and is read back as one dataset per HDU, "order" is the order of the returned datasets',
    'masked-out pixels must come back as a blank value of the dtype kind (NaN for floats; 0 or NaN for integers; empty text), selected pixels unchanged',
    'the "matching data factory" is taken to be both load_data\'s auto-detected factory and the format-specific factory; see known findings for the two classes where they differ',
]

FMT_LABEL = {0: 'Comma-separated table', 1: 'FITS Table', 2: 'VO Table', 3: 'HDF5', 4: 'FITS (1 component/HDU)'}
FMT_EXT = {0: 'csv', 1: 'fits', 2: 'vot', 3: 'hdf5', 4: 'fits'}
FMT_NAME = {0: 'csv', 1: 'fits_table', 2: 'votable', 3: 'hdf5', 4: 'gridded_fits'}
NAN_TOKEN = 2 ** 80
NAMES = ['zeta', 'alpha', 'm1', 'b_2', 'x', 'flux', 'name', 'count', 'kq', 'y9']
LETTERS = 'bcdfghjkmpqrstvwxz'

_EXPORTERS = None


def exporters():
    global _EXPORTERS
    if _EXPORTERS is None:
        import glue.core.data_exporters as de
        de.setup()
        from glue.config import data_exporter
        _EXPORTERS = {e.label: e.function for e in data_exporter.members}
    return _EXPORTERS


# ---------------------------------------------------------------------- cases
# case = {'fmt', 'shape', 'cols': [(name, kind, dtype, values(list, flat))], 'derived': None | (name, source_index), 'mask': None | [bool]}
def make_data(case):
    from glue.core import Data, DataCollection
    from glue.core.subset import MaskSubsetState
    shape = tuple(case['shape'])
    d = Data(label='t')
    for name, kind, dtype, vals in case['cols']:
        if kind == 2:
            arr = np.array(vals, dtype=dtype).reshape(shape) if vals else np.array([], dtype=dtype).reshape(shape)
        else:
            arr = np.array([np.nan if v is None else v for v in vals], dtype=dtype).reshape(shape)
        d.add_component(arr, name)
    if case.get('derived'):
        dname, src = case['derived']
        d[dname] = d.id[case['cols'][src][0]] * 2
    dc = DataCollection([d])
    obj = d
    if case.get('mask') is not None:
        mask = np.array(case['mask'], dtype=bool).reshape(shape)
        dc.new_subset_group(label='s', subset_state=MaskSubsetState(mask, d.pixel_component_ids))
        obj = d.subsets[0]
    return d, dc, obj


class Tokens(object):
    """values -> integer tokens of the model: ints as themselves, floats as eighths (NaN special), text as table index ('' = 0)"""

    def __init__(self, fmt=None):
        self.strings = {'': 0}
        self.fmt = fmt

    def tok(self, v):
        if isinstance(v, (bytes, np.bytes_)):
            v = v.decode('ascii')
        if isinstance(v, (str, np.str_)):
            v = text_as_format(self.fmt, str(v))
            if v not in self.strings:
                self.strings[v] = len(self.strings)
            return self.strings[v]
        if isinstance(v, (float, np.floating)):
            if v != v:
                return NAN_TOKEN
            t = float(v) * 8
            if t != int(t):
                raise ValueError('float %r is not a multiple of 1/8' % v)
            return int(t)
        return int(v)

    def toks(self, arr):
        return [self.tok(v) for v in np.asarray(arr).ravel().tolist()]


def ascii_replace(v):
    """what hdf5_writer does to text today: np.char.encode(values, encoding='ascii', errors='replace') - one '?' per non-ASCII code point"""
    return v.encode('ascii', 'replace').decode('ascii')


def text_as_format(fmt, v):
    """accepted per-format normalisation of a text cell: HDF5 stores ASCII with '?' replacement; CSV, VO table (and FITS table for ASCII text) keep the text as it is"""
    return ascii_replace(v) if fmt == 3 else v


def is_ascii(v):
    if isinstance(v, (bytes, np.bytes_)):
        return True
    return all(ord(ch) < 128 for ch in v)


def kind_of(arr):
    k = np.asarray(arr).dtype.kind
    return {'f': 0, 'i': 1, 'U': 2, 'S': 2}.get(k, 9)


def model_line(case, d, tk):
    cols = []
    nid = {}
    comps = list(d.main_components) + list(d.derived_components)
    # the model wants the columns in the dataset's own component order with a derived flag
    for cid in d.components:
        if cid in d.coordinate_components:
            continue
        arr = d[cid]
        nid[cid.label] = len(nid)
        cols.append((0, [nid[cid.label], kind_of(arr), 1 if cid in d.derived_components else 0, Z(tk.toks(arr))]))
    blank = 0
    ints = [np.asarray(d[c]).dtype for c in comps if np.asarray(d[c]).dtype.kind == 'i']
    if ints:
        if len(set(ints)) > 1:
            return None, nid      # the model has one BLANK parameter per case
        blank = int(np.iinfo(ints[0]).min)
    m = (0, []) if case.get('mask') is None else (1, [1 if b else 0 for b in case['mask']])
    return enc((1, [case['fmt'], len(case['shape']), m, blank, (0, cols)])), nid


def selected_text_non_ascii(case):
    """is there a non-ASCII character in a text cell that the export has to write (selected rows of text columns)?"""
    m = case.get('mask')
    for name, kind, dtype, vals in case['cols']:
        if kind == 2:
            for i, v in enumerate(vals):
                if (m is None or m[i]) and not is_ascii(v):
                    return True
    return False


def blank_ok(case):
    """the model has one BLANK parameter per case: integer columns of a case share one dtype"""
    dts = set(dt for _, k, dt, _ in case['cols'] if k == 1)
    return len(dts) <= 1


# ---------------------------------------------------------------------- what the exporter wrote
def written(case, path, obj, tk, nid):
    """-> list of (name id, kind, tokens) in file order (dict order for HDF5 has no meaning: sorted by model order later), blanks"""
    fmt = case['fmt']
    if fmt in (0, 1, 2):
        from glue.core.data_exporters.astropy_table import data_to_astropy_table
        t = data_to_astropy_table(obj)
        return [(nid.get(n, -1), kind_of(t[n]), tk.toks(t[n])) for n in t.colnames], None, True
    if fmt == 3:
        import h5py
        out = {}
        with h5py.File(path, 'r') as f:
            for n in f.keys():
                arr = f[n][()]
                out[n] = (nid.get(n, -1), kind_of(arr), tk.toks(arr))
        return out, None, False
    from astropy.io import fits
    res, blanks = [], []
    with fits.open(path, do_not_scale_image_data=True) as hl:
        for h in hl:
            if h.data is None:
                continue
            arr = np.asarray(h.data)
            arr = arr.astype(arr.dtype.newbyteorder('='))
            res.append((nid.get(h.name.lower(), -1), kind_of(arr), tk.toks(arr)))
            blanks.append(1 if (arr.dtype.kind == 'i' and 'BLANK' in h.header) else 0)
    return res, blanks, True


# ---------------------------------------------------------------------- expectation, straight from the original arrays
def expected(case, d):
    """list of (name, kind, array) the loaded file must show; mode 'rows' or 'pixels'"""
    fmt = case['fmt']
    ndim = len(case['shape'])
    mask = None if case.get('mask') is None else np.array(case['mask'], dtype=bool).reshape(tuple(case['shape']))
    rows = fmt < 3 or (fmt == 3 and ndim == 1)
    out = []
    for cid in list(d.main_components) + list(d.derived_components):
        arr = np.asarray(d[cid])
        if fmt == 4 and arr.dtype.kind not in 'fi':
            continue
        out.append((cid.label, arr))
    return out, mask, rows


def same_values(kind, got, want, mask, rows, fmt):
    """dtype-appropriate comparison; returns None or a description"""
    got = np.asarray(got)
    if got.dtype.kind == 'S':
        got = np.char.decode(got, 'ascii')
    if want.dtype.kind == 'S':          # second stage of a chain: the dataset loaded from HDF5 holds ASCII bytes
        want = np.char.decode(want, 'ascii')
    if want.dtype.kind == 'U' and fmt == 3:
        # text preserved up to the format's encoding: the HDF5 exporter writes ASCII, '?' for every other character;
        # the column itself must come back, in place, with every row
        want = np.array([ascii_replace(str(v)) for v in want.ravel().tolist()], dtype=want.dtype).reshape(want.shape)
    if rows:
        w = want if mask is None else want[mask]
        if got.shape != w.shape:
            return 'shape %r, expected %r' % (got.shape, w.shape)
        return cmp_arrays(got, w)
    if got.shape != want.shape:
        return 'shape %r, expected %r' % (got.shape, want.shape)
    if mask is None:
        return cmp_arrays(got, want)
    r = cmp_arrays(got[mask], want[mask])
    if r:
        return 'selected pixels: ' + r
    rest = got[~mask]
    if rest.size:
        if rest.dtype.kind == 'f':
            ok = bool(np.all(np.isnan(rest))) or (want.dtype.kind == 'i' and bool(np.all((rest == 0) | np.isnan(rest))))
        elif rest.dtype.kind in 'iu':
            ok = bool(np.all(rest == 0))
        else:
            ok = all(str(x) == '' for x in rest.ravel().tolist())
        if not ok:
            return 'masked-out pixels are not blank: %r' % rest.ravel().tolist()[:6]
    return None


def cmp_arrays(got, want):
    if got.size == 0 and want.size == 0:
        return None
    if want.dtype.kind == 'f' or got.dtype.kind == 'f':
        if got.dtype.kind not in 'fiu' or want.dtype.kind not in 'fiu':
            return 'kinds differ: %s vs %s' % (got.dtype, want.dtype)
        g = got.astype(float)
        w = want.astype(float)
        ok = bool(np.all((g == w) | (np.isnan(g) & np.isnan(w))))
        return None if ok else 'values %r, expected %r' % (g.ravel().tolist()[:8], w.ravel().tolist()[:8])
    if want.dtype.kind in 'iu':
        if got.dtype.kind not in 'iu':
            return 'kinds differ: %s vs %s' % (got.dtype, want.dtype)
        return None if bool(np.all(got.astype(np.int64) == want.astype(np.int64))) else 'values %r, expected %r' % (got.ravel().tolist()[:8], want.ravel().tolist()[:8])
    g = [str(x) for x in got.ravel().tolist()]
    w = [str(x) for x in want.ravel().tolist()]
    return None if g == w else 'text %r, expected %r' % (g[:8], w[:8])


def loaded_columns(back):
    """flatten what a factory returned into [(name, array)] in order"""
    from glue.core import BaseData
    if back is None:
        return []
    if isinstance(back, BaseData):
        back = [back]
    out = []
    for b in back:
        for cid in b.main_components:
            out.append((cid.label, np.asarray(b[cid])))
    return out


def specific_factory(fmt):
    if fmt == 0:
        from glue.core.data_factories.pandas import pandas_read_table
        return pandas_read_table
    if fmt == 1:
        from glue.core.data_factories.astropy_table import astropy_tabular_data_fits
        return astropy_tabular_data_fits
    if fmt == 2:
        from glue.core.data_factories.astropy_table import astropy_tabular_data_votable
        return astropy_tabular_data_votable
    if fmt == 3:
        from glue.core.data_factories.hdf5 import hdf5_reader
        return hdf5_reader
    from glue.core.data_factories.fits import fits_reader
    return fits_reader


def judge(case, cols, exp, mask, rows):
    """compare loaded columns with the expectation -> (problem or None, finding key or None)"""
    fmt = case['fmt']
    ci = fmt == 4
    names_got = [n.lower() if ci else n for n, _ in cols]
    names_want = [n.lower() if ci else n for n, _ in exp]
    if names_got != names_want:
        if sorted(names_got) == sorted(names_want) and fmt == 3 and names_got == sorted(names_want):
            # HDF5 files come back in name order: known finding, but the values must still be right
            bymap = dict((n.lower() if ci else n, a) for n, a in cols)
            for n, want in [(a.lower() if ci else a, b) for a, b in exp]:
                r = same_values(None, bymap[n], want, mask, rows, fmt)
                if r:
                    return 'component %s: %s' % (n, r), None
            return 'components come back in name order %r, exported in order %r' % (names_got, names_want), 'hdf5-components-return-in-name-order'
        return 'component names %r, expected %r' % (names_got, names_want), None
    for (n, got), (_, want) in zip(cols, exp):
        r = same_values(None, got, want, mask, rows, fmt)
        if r:
            if (fmt == 0 and len(exp) == 1 and want.dtype.kind in 'US' and r.startswith('text')
                    and any(' ' in (v.decode('ascii') if isinstance(v, bytes) else str(v)) for v in (want if mask is None else want[mask]).ravel().tolist())):
                return 'component %s: %s' % (n, r), 'csv-single-text-column-with-blank-is-split'
            return 'component %s: %s' % (n, r), None
    return None, None


# ---------------------------------------------------------------------- one case
def run_case_impl(R, case, idx, session=False):
    """returns dict(model_line, written, oracle problems [(text, key)], nid) ; raises nothing"""
    res = {'problems': [], 'line': None, 'written': None}
    tk = Tokens(case['fmt'])
    try:
        d, dc, obj = make_data(case)
    except Exception as e:
        res['problems'].append(('harness could not build the dataset: %s: %s' % (type(e).__name__, e), None))
        return res
    fmt = case['fmt']
    path = os.path.join(R.scratch, 'c%d_%s.%s' % (idx, FMT_NAME[fmt], FMT_EXT[fmt]))
    line, nid = model_line(case, d, tk)
    res['line'] = line
    res['nid'] = nid
    try:
        exporters()[FMT_LABEL[fmt]](path, obj)
    except Exception as e:
        key = None
        if fmt == 1 and isinstance(e, UnicodeEncodeError) and selected_text_non_ascii(case):
            key = 'fits-table-non-ascii-text-export-raises'
        res['problems'].append(('exporter raised %s: %s' % (type(e).__name__, e), key))
        return res
    try:
        res['written'] = written(case, path, obj, tk, nid)
    except Exception as e:
        res['problems'].append(('could not inspect the written file: %s: %s' % (type(e).__name__, e), None))
    exp, mask, rows = expected(case, d)
    nsel = None if mask is None else int(mask.sum())
    from glue.core.data_factories import load_data
    auto_cols = None
    for which in ('specific', 'auto'):
        try:
            back = specific_factory(fmt)(path) if which == 'specific' else load_data(path)
            cols = loaded_columns(back)
        except Exception as e:
            msg = '%s loader raised %s: %s' % (which, type(e).__name__, str(e)[:200])
            if fmt == 0 and nsel == 0 and rows and which == 'specific':
                # pandas_read_table refuses a header-only CSV; load_data falls back to the astropy reader (checked next)
                continue
            res['problems'].append((msg, None))
            continue
        if which == 'auto':
            auto_cols = cols
            from glue.core import BaseData as _BD
            first = back if isinstance(back, _BD) else (back[0] if back else None)
            if first is not None:
                res['first_dataset'] = [(cid.label, np.asarray(first[cid])) for cid in first.main_components]
        if which == 'auto' and fmt == 1 and rows and nsel == 0 and cols == [] and exp:
            res['problems'].append(('load_data returns no dataset for a FITS table with zero selected rows (the FITS-table factory returns the empty table)',
                                    'fits-table-zero-rows-autoload-returns-nothing'))
            continue
        pr, key = judge(case, cols, exp, mask, rows)
        if pr:
            res['problems'].append(('%s loader: %s' % (which, pr), key))
    if session and auto_cols:
        try:
            pr = session_by_reference(R, path, idx)
        except Exception as e:
            pr = 'session by reference raised %s: %s' % (type(e).__name__, str(e)[:300])
        if pr:
            res['problems'].append((pr, None))
    res['session'] = bool(session and auto_cols)
    try:
        os.remove(path)
    except OSError:
        pass
    return res


def session_by_reference(R, path, idx):
    """load the exported file, save the session without the data (by reference to the file), restore, compare"""
    from glue.core import DataCollection, BaseData
    from glue.core.application_base import Application
    from glue.core.data_factories import load_data
    back = load_data(path)
    if isinstance(back, BaseData):
        back = [back]
    app = Application(DataCollection(list(back)))
    spath = os.path.join(R.scratch, 's%d.glu' % idx)
    app.save_session(spath, include_data=False)
    txt = open(spath).read()
    app2 = Application.restore_session(spath)
    os.remove(spath)
    dc2 = app2.data_collection
    if len(dc2) != len(back):
        return 'session by reference: %d datasets restored, %d saved' % (len(dc2), len(back))
    for a, b in zip(back, dc2):
        na = [c.label for c in a.main_components]
        nb = [c.label for c in b.main_components]
        if na != nb:
            return 'session by reference: components %r restored as %r' % (na, nb)
        for ca, cb in zip(a.main_components, b.main_components):
            r = cmp_arrays(np.asarray(b[cb]) if np.asarray(b[cb]).dtype.kind != 'S' else np.char.decode(np.asarray(b[cb]), 'ascii'),
                           np.asarray(a[ca]) if np.asarray(a[ca]).dtype.kind != 'S' else np.char.decode(np.asarray(a[ca]), 'ascii'))
            if r:
                return 'session by reference: component %s: %s' % (ca.label, r)
    if os.path.basename(path) not in txt:
        return 'session saved with include_data=False does not refer to the data file'
    return None


def compare_model(case, res, out):
    """model's exported table vs what the exporter wrote"""
    if res.get('written') is None or res.get('line') is None:
        return None
    w, blanks, ordered = res['written']
    mt = [(kids(c)[0][0], kids(c)[1][0], to_zs(kids(c)[2])) for c in kids(kids(out)[0])]
    mb = to_zs(kids(out)[1])
    if ordered:
        got = [(a, b, list(c)) for a, b, c in w]
        if got != [(a, b, list(c)) for a, b, c in mt]:
            return {'model': mt, 'impl': got}
        if blanks is not None and blanks != mb:
            return {'model_blank': mb, 'impl_blank': blanks}
    else:
        got = sorted((a, b, list(c)) for a, b, c in w.values())
        if got != sorted((a, b, list(c)) for a, b, c in mt):
            return {'model': sorted(mt), 'impl': got}
    return None


# ---------------------------------------------------------------------- generators
NON_ASCII = ['\u00e9', '\u00fc', '\u00f1', '\u00df', '\u00d8',              # Latin-1 letters
             '\u03b1\u03b2', '\u03a9', '\u03bb',                                # Greek
             '\u6f22\u5b57', '\u65e5',                                           # CJK
             '\U0001f600', '\U0001f680',                                          # emoji (outside the BMP)
             'e\u0301', 'n\u0303']                                                # combining marks


def rand_text(rng, allow_empty=False, unicode=False):
    n = rng.randrange(2, 5)
    s = ''.join(rng.choice(LETTERS) for _ in range(n))
    if rng.random() < 0.25:
        s = s[:1] + ' ' + s[1:]
    if rng.random() < 0.3:
        s = s.capitalize()
    if unicode and rng.random() < 0.5:
        # non-ASCII characters mixed into otherwise ASCII text (never first/last blank, still clearly non-numeric)
        for _ in range(rng.randrange(1, 3)):
            k = rng.randrange(0, len(s) + 1)
            s = s[:k] + rng.choice(NON_ASCII) + s[k:]
    return s


def rand_col(rng, name, n, fmt, int_dtype):
    kind = rng.choice([0, 0, 1, 1, 2])
    if kind == 0:
        dt = rng.choice(['float64', 'float64', 'float32', '>f8', '>f4'])       # incl. non-native byte order (what FITS-loaded data holds)
        vals = [None if rng.random() < 0.2 else rng.randrange(-512, 513) / 8.0 for _ in range(n)]
        return (name, 0, dt, vals)
    if kind == 1:
        lo, hi = (-300, 300) if int_dtype in ('int16', '>i2') else (-100000, 100000)
        vals = [rng.choice([0, 0, 1, -1, rng.randrange(lo, hi)]) for _ in range(n)]
        return (name, 1, int_dtype, vals)
    uni = rng.random() < 0.4        # a column with non-ASCII cells next to plain ASCII ones
    vals = [rand_text(rng, unicode=uni) for _ in range(n)]
    return (name, 2, 'U%d' % max(1, max(len(v) for v in vals) if vals else 1), vals)


def rand_case(rng, fmt=None):
    fmt = rng.randrange(5) if fmt is None else fmt
    r = rng.random()
    if fmt < 3 and (r < 0.25 or rng.random() < 0.6):
        # a whole n-d dataset has no meaning as a table (astropy makes vector columns of it): table formats get n-d data
        # only together with a subset - "the selected pixels", one row each, in C order
        shape = (rng.randrange(1, 7),)
    else:
        shape = rng.choice([(rng.randrange(1, 7),), (2, 3), (3, 2), (2, 2, 2), (1, 4)])
    n = int(np.prod(shape))
    k = rng.randrange(1, 5)
    names = rng.sample(NAMES, k + 1)
    int_dtype = rng.choice(['int64', 'int64', 'int32', 'int16', '>i4', '>i2', '>i8'])
    cols = [rand_col(rng, names[i], n, fmt, int_dtype) for i in range(k)]
    if fmt == 4 and all(c[1] == 2 for c in cols):
        cols[0] = (cols[0][0], 0, 'float64', [rng.randrange(-64, 64) / 8.0 for _ in range(n)])
    derived = None
    nums = [i for i, c in enumerate(cols) if c[1] in (0, 1)]
    if nums and rng.random() < 0.5:
        derived = (names[k], rng.choice(nums))
    if r < 0.25:
        mask = None
    elif r < 0.4:
        mask = [False] * n
    elif r < 0.55:
        mask = [True] * n
    else:
        mask = [rng.random() < 0.5 for _ in range(n)]
    return {'fmt': fmt, 'shape': list(shape), 'cols': cols, 'derived': derived, 'mask': mask}


def second_stage_case(first_dataset, fmt, rng):
    """chain of formats: the dataset LOADED from the first file (already compared with the original) becomes the dataset of a
    second export with another format; returns a case or None when the loaded dataset is outside the second format's domain"""
    cols = []
    shape = None
    for name, arr in first_dataset:
        k = kind_of(arr)
        if k == 9 or arr.size == 0:
            return None
        if shape is None:
            shape = arr.shape
        elif arr.shape != shape:
            return None
        cols.append((name, k, arr.dtype.str, arr.ravel().tolist()))
    if not cols or shape is None or len(shape) == 0:
        return None
    if fmt == 4 and all(c[1] == 2 for c in cols):
        return None
    n = int(np.prod(shape))
    r = rng.random()
    if r < 0.3 and not (fmt < 3 and len(shape) > 1):
        mask = None
    elif r < 0.4:
        mask = [True] * n
    else:
        mask = [rng.random() < 0.6 for _ in range(n)]
    return {'fmt': fmt, 'shape': list(shape), 'cols': cols, 'derived': None, 'mask': mask}


def run_chain(R, first, fmt2, idx, sub):
    """stage 1: export `first` (a whole dataset) and load it; stage 2: export the loaded dataset (or a subset of it) with fmt2, load,
    compare with the loaded dataset.  Returns (res1, case2 or None, res2 or None)"""
    res1 = run_case_impl(R, first, idx)
    fd = res1.get('first_dataset')
    if fd is None or any(k is None for _, k in res1['problems']):
        return res1, None, None
    case2 = second_stage_case(fd, fmt2, sub)
    if case2 is None or not blank_ok(case2):
        return res1, None, None
    return res1, case2, run_case_impl(R, case2, idx + 1)


def case_key(case):
    return (case['fmt'], tuple(case['shape']), tuple((c[0], c[1], c[2], tuple(c[3])) for c in case['cols']),
            tuple(case['derived']) if case['derived'] else None, None if case['mask'] is None else tuple(case['mask']))


def selection_kind(case):
    m = case['mask']
    if m is None:
        return 'whole dataset'
    if not any(m):
        return 'empty subset'
    if all(m):
        return 'full subset'
    return 'proper subset'


def exhaustive_cases(R):
    """every mask over 3 (quick) / 4 (thorough) elements x 5 formats on a fixed float/int/text table with a derived column, 1-d and 2-d;
    and every order of the three columns"""
    n = R.pick(3, 4)
    base = [('zeta', 0, 'float64', [1.5, None, -2.25, 8.0][:n]), ('alpha', 1, 'int32', [3, 0, -7, 12][:n]), ('m1', 2, 'U3', ['bq', 'K d', 'xz', 'pp'][:n])]
    out = []
    # the same table with non-ASCII text (Latin-1 + blank, CJK, emoji, one plain ASCII cell), and that text as the only column
    utext = ('m1', 2, 'U4', ['bq', 'K\u00e4 d', '\u6f22z', 'x\U0001f600'][:n])
    ubase = [base[0], base[1], utext]
    for fmt in range(5):
        shapes = [(n,), (1, n), (n, 1)] + ([(2, 2)] if n == 4 else [])
        for shape in shapes:
            for bits in itertools.product([False, True], repeat=n):
                out.append({'fmt': fmt, 'shape': list(shape), 'cols': list(base), 'derived': ('b_2', 0), 'mask': list(bits)})
                out.append({'fmt': fmt, 'shape': list(shape), 'cols': list(ubase), 'derived': ('b_2', 0), 'mask': list(bits)})
                if fmt != 4:
                    out.append({'fmt': fmt, 'shape': list(shape), 'cols': [utext], 'derived': None, 'mask': list(bits)})
            if fmt < 3 and len(shape) > 1:
                continue      # whole n-d datasets are not tables
            out.append({'fmt': fmt, 'shape': list(shape), 'cols': list(base), 'derived': ('b_2', 1), 'mask': None})
            out.append({'fmt': fmt, 'shape': list(shape), 'cols': list(ubase), 'derived': ('b_2', 1), 'mask': None})
            if fmt != 4:
                out.append({'fmt': fmt, 'shape': list(shape), 'cols': [utext], 'derived': None, 'mask': None})
        for perm in itertools.permutations(range(3)):
            out.append({'fmt': fmt, 'shape': [n], 'cols': [base[i] for i in perm], 'derived': None, 'mask': [True, False, True, True][:n]})
    return out


def shrink_case(R, case, pred):
    """smaller case with the same failure: drop columns, the derived column, trailing elements (1-d only)"""
    cur = case
    changed = True
    while changed:
        changed = False
        cands = []
        if cur['derived']:
            c = dict(cur)
            c['derived'] = None
            cands.append(c)
        for i in range(len(cur['cols'])):
            if len(cur['cols']) > 1 and not (cur['derived'] and cur['derived'][1] == i):
                c = dict(cur)
                c['cols'] = cur['cols'][:i] + cur['cols'][i + 1:]
                if cur['derived']:
                    j = cur['derived'][1]
                    c['derived'] = (cur['derived'][0], j - 1 if j > i else j)
                cands.append(c)
        if len(cur['shape']) == 1 and cur['shape'][0] > 1:
            n = cur['shape'][0] - 1
            c = dict(cur)
            c['shape'] = [n]
            c['cols'] = [(a, b, dt, v[:n]) for a, b, dt, v in cur['cols']]
            c['mask'] = None if cur['mask'] is None else cur['mask'][:n]
            cands.append(c)
        for c in cands:
            if c['fmt'] == 4 and all(x[1] == 2 for x in c['cols']):
                continue
            try:
                if pred(c):
                    cur = c
                    changed = True
                    break
            except Exception:
                continue
    return cur


def evaluate(R, case, idx, session=False):
    res = run_case_impl(R, case, idx, session=session)
    corr = None
    if res.get('line') is not None:
        out = R.model([res['line']])[0]
        corr = compare_model(case, res, out)
    return res, corr


def run(R):
    import warnings
    warnings.filterwarnings('ignore')
    R.rule = ('one case = (format, shape, ordered columns with dtype and values, optional derived column, optional mask); exhaustive stream: every mask over a fixed '
              'float/int/text table per format and shape plus every column order; random stream: 1-4 columns of random kinds/dtypes/values, random names in '
              'non-alphabetical order, whole / empty / full / proper selections. A case is non-trivial when something is selected and written '
              '(at least one exported component and, for subsets, at least one selected element); distinct = distinct canonical case tuples')
    t0 = time.time()
    cases = [(c, 'exhaustive') for c in exhaustive_cases(R)]
    nexh = len(cases)
    nrand = R.pick(2000, 16000)
    for i in range(nrand):
        rng = R.subrng('case', i)
        c = rand_case(rng, fmt=i % 5)
        if not blank_ok(c):
            continue
        cases.append((c, 'random'))
    batch = []
    chains = {}
    nsess = 0
    for idx, (case, stream) in enumerate(cases):
        session = (idx % 6 == 0)
        res = run_case_impl(R, case, idx, session=session)
        nsess += 1 if res.get('session') else 0
        batch.append((case, stream, res, idx))
        nontriv = (case['mask'] is None or any(case['mask']))
        R.count(case_key(case), nontrivial=nontriv, stream=stream, format=FMT_NAME[case['fmt']], selection=selection_kind(case),
                ndim=len(case['shape']), columns=len(case['cols']) + (1 if case['derived'] else 0))
        if stream == 'random' and len(R.samples) < 4:
            R.sample({'case': case})
    # chains of formats: export with one format, load, export the loaded dataset (or a subset) with another, load
    nchain = 0
    for i in range(R.pick(260, 2500)):
        rng = R.subrng('chain', i)
        f1 = [1, 4, 3, 2, 0][i % 5]          # FITS table / gridded FITS first: what they load holds big-endian arrays
        first = rand_case(rng, fmt=f1)
        first['mask'] = None
        first['derived'] = None
        if f1 < 3:
            n1 = rng.randrange(1, 7)
            first['shape'] = [n1]
            first['cols'] = [(a, b, dt, (v * 6)[:n1] if len(v) < n1 else v[:n1]) for a, b, dt, v in first['cols']]
        if f1 == 4:
            first['cols'] = [c for c in first['cols'] if c[1] != 2][:1] or first['cols'][:1]
        if not blank_ok(first) or (f1 == 1 and selected_text_non_ascii(first)):
            continue
        f2 = rng.choice([f for f in range(5) if f != f1])
        res1, case2, res2 = run_chain(R, first, f2, 500000 + 2 * i, rng)
        if case2 is None:
            continue
        nchain += 1
        chain = {'chain': {'first': first, 'fmt': f2}}
        batch.append((case2, 'chain', res2, 500000 + 2 * i + 1))
        chains[id(case2)] = chain
        R.count(('chain', case_key(first), f2, None if case2['mask'] is None else tuple(case2['mask'])), nontrivial=True, stream='chain',
                chain='%s->%s' % (FMT_NAME[f1], FMT_NAME[f2]), selection=selection_kind(case2))
    lines = [b[2]['line'] for b in batch if b[2].get('line') is not None]
    outs = iter(R.model(lines))
    seen_keys = set()
    nfail = 0
    for case, stream, res, idx in batch:
        corr = None
        if res.get('line') is not None:
            corr = compare_model(case, res, next(outs))
        for text, key in res['problems']:
            if key is not None:
                if key in seen_keys:
                    continue
                seen_keys.add(key)
                R.fail('oracle', {'stream': stream, 'case': case}, {'problem': text}, key=key)
            elif nfail < 3 and stream == 'chain':
                nfail += 1
                R.fail('oracle', {'stream': stream, 'chain': chains[id(case)]['chain'], 'second': case}, {'problems': [t for t, k in res['problems'] if k is None]}, key=None)
            elif nfail < 3:
                nfail += 1
                small = shrink_case(R, case, lambda c: any(k is None for _, k in run_case_impl(R, c, 900000 + nfail)['problems']))
                r2 = run_case_impl(R, small, 900100 + nfail)
                R.fail('oracle', {'stream': stream, 'case': small}, {'problems': [t for t, k in r2['problems'] if k is None] or [text]}, key=None)
        if corr is not None and stream == 'chain' and nfail < 3:
            nfail += 1
            R.fail('correspondence', {'stream': stream, 'chain': chains[id(case)]['chain'], 'second': case}, corr)
        elif corr is not None and not any(k is None for _, k in res['problems']) and nfail < 3:
            nfail += 1
            small = shrink_case(R, case, lambda c: evaluate(R, c, 900200 + nfail)[1] is not None)
            r2, c2 = evaluate(R, small, 900300 + nfail)
            R.fail('correspondence', {'stream': stream, 'case': small}, c2 or corr)
    R.stream('export_roundtrip', exhaustive_cases=nexh, random_cases=len(cases) - nexh, chain_cases=nchain, sessions_by_reference=nsess, wall_s=round(time.time() - t0, 1),
             exhaustive=False,
             bound='exhaustive: all masks over %d elements x 5 formats x shapes (1-d; 2-d for HDF5 / gridded FITS) on a float/int/text table with a derived column, '
                   'all 6 column orders; random: 1-4 columns, 1..6 rows or shapes (2,3),(3,2),(2,2,2),(1,4), float32/64 with NaN, int16/32/64, ASCII text' % R.pick(3, 4))


def replay(R, case):
    import warnings
    warnings.filterwarnings('ignore')
    if isinstance(case, dict) and 'second' in case:
        c = dict(case['second'])
        c['cols'] = [(a, b, dt, [np.nan if (isinstance(v, str) and v == 'nan' and b == 0) else (eval(v) if (isinstance(v, str) and v.startswith("b'")) else v) for v in vals])
                     for a, b, dt, vals in c['cols']]
        res, corr = evaluate(R, c, 1)
        new = [t for t, k in res['problems'] if k is None]
        return {'case': case, 'oracle_problems': new, 'correspondence': corr, 'violates': bool(new)}
    if not isinstance(case, dict) or 'case' not in case:
        return {'note': 'this replay file records a broken proof / correspondence without a failing input of the property; see its `broken` and `correspondence_cases` fields', 'violates': False}
    c = case['case']
    c = dict(c)
    c['cols'] = [tuple(x) for x in c['cols']]
    c['derived'] = tuple(c['derived']) if c.get('derived') else None
    res, corr = evaluate(R, c, 1, session=True)
    new = [t for t, k in res['problems'] if k is None]
    known = [(t, k) for t, k in res['problems'] if k is not None]
    return {'case': c, 'oracle_problems': new, 'known_finding_problems': known, 'correspondence': corr, 'violates': bool(new)}
